"""Library models (trusted, DESIGN section 8): the standard-library and third-party operations that occur in the
functions under contract, each with the meaning the C++17 standard gives it.  Anything not listed raises
Unsupported (-> EXTRACTION-FAILURE), never a silent default."""
import z3
from values import *
import ty as TY
from ty import T

I = z3.IntSort(); R = z3.RealSort(); B = z3.BoolSort()

STD_EXC = {
    'std::exception': None, 'std::logic_error': 'std::exception', 'std::runtime_error': 'std::exception',
    'std::invalid_argument': 'std::logic_error', 'std::out_of_range': 'std::logic_error', 'std::length_error': 'std::logic_error',
    'std::domain_error': 'std::logic_error', 'std::bad_alloc': 'std::exception', 'std::overflow_error': 'std::runtime_error',
    'std::range_error': 'std::runtime_error', 'std::bad_optional_access': 'std::exception', 'std::bad_cast': 'std::exception',
    'std::ios_base::failure': 'std::runtime_error', 'std::system_error': 'std::runtime_error', 'std::regex_error': 'std::runtime_error',
}


class Models:
    def __init__(self, eng):
        self.e = eng
        self.libm_axioms = []

    def used(self, name):
        self.e.models_used.add(name)

    # ------------------------------------------------------------------ strings: a string value is the identity of its content
    def str_id(self, literal):
        """interned content id of a string literal (ids of different contents differ; 0 is the null char pointer)"""
        if not hasattr(self, '_strs'): self._strs = {}
        lit = literal
        if isinstance(lit, str) and len(lit) >= 2 and lit[0] == '"' and lit[-1] == '"': lit = lit[1:-1]
        if lit not in self._strs: self._strs[lit] = 1000 + len(self._strs)
        return z3.IntVal(self._strs[lit])

    def str_throwing_conv(self, st, name, s, n, fr, rng):
        """std::stod / std::stoi: a function of the content; throws std::invalid_argument / std::out_of_range when not convertible"""
        e = self.e
        ok = e.uf('conv_ok:' + name, I, B)(s)
        sx = st.clone(); sx.pc.append(z3.Not(ok))
        st.throws.append((sx, 'std::invalid_argument', n))
        st.pc.append(ok)
        v = e.uf('conv:' + name, I, rng)(s)
        self.used('std::%s: an uninterpreted function of the string content; may throw std::invalid_argument / std::out_of_range' % name)
        return v

    # ------------------------------------------------------------------ exceptions
    def exception_derives(self, cls, base):
        if cls is None: return False
        if base is None: return True
        cls = cls.replace('const ', '').strip(); base = base.replace('const ', '').strip()
        seen = set(); work = [cls]
        while work:
            c = work.pop()
            if c == base: return True
            if c in seen: continue
            seen.add(c)
            if c in STD_EXC:
                if STD_EXC[c]: work.append(STD_EXC[c])
                continue
            try:
                r = self.e.record(c)
            except Unsupported:
                continue
            # a handler for Base& catches a Derived object only through an accessible (public) base
            for b in self.e.ast.public_bases_of(r):
                work.append(TY.parse(b).name or b)
        return False

    # ------------------------------------------------------------------ globals
    def global_var(self, name, rd, st):
        if name == 'nullopt': return Opaque('nullopt')
        return None

    def opaque_member(self, base, name, st):
        raise Unsupported('member %s of opaque %s' % (name, base.what))

    def repo_override(self, qn):
        if qn == 'format_number':
            def f(st, this, arg_nodes, n, fr):
                e = self.e
                v = e.rv(arg_nodes[0], st, fr); fmt = e.raw(e.rv(arg_nodes[1], st, fr))
                if z3.is_bool(v): v = z3.If(v, z3.IntVal(1), z3.IntVal(0))
                g = e.uf('format:' + ('real' if z3.is_real(v) else 'int'), R if z3.is_real(v) else I, I, I)
                self.used('format_number (sprintf into a 30-byte buffer): an uninterpreted function of (number, format); the buffer bound is not checked')
                return g(v, fmt)
            return f
        if qn == 'lower_string':
            def f(st, this, arg_nodes, n, fr):
                e = self.e
                lv_ = e.lv(arg_nodes[0], st, fr)
                v = e.uf('lower', I, I)(e.raw(e.load(st, lv_)))
                e.store(st, lv_, v)
                self.used('lower_string (std::transform + tolower): an uninterpreted function of the content with lower("inf") = "inf"')
                return v
            return f
        return None

    # ------------------------------------------------------------------ <cmath> and friends
    def sqrt(self, st, x):
        e = self.e
        r = e.fresh('sqrt', R)
        # total on reals: for x < 0 the result is unconstrained (NaN in IEEE); definedness is an obligation where enabled
        ax_ = z3.Implies(x >= 0, z3.And(r >= 0, r * r == x))
        e.axiom_ids.add(ax_.get_id())
        st.pc.append(ax_)
        self.used('std::sqrt: r>=0 and r*r==x for x>=0')
        return r

    def uf1(self, name, x, st, axioms=()):
        f = self.e.uf('libm.' + name, R, R)      # not the solvers' built-in transcendental symbols: plain uninterpreted functions
        t = f(x)
        self.used('std::%s: uninterpreted with the axioms of DESIGN section 8' % name)
        return t

    def free_call(self, st, rd, args, n, fr):
        e = self.e
        name = rd.get('name')
        A = lambda i: e.rv(args[i], st, fr)
        real = lambda v: z3.ToReal(v) if z3.is_int(v) else v
        if name in ('sqrt', 'sqrtf'):
            x = real(A(0))
            if e.safety_on('sqrt-domain'): e.oblige(st, 'safety:sqrt-of-negative', x >= 0, where=e.where(n, fr))
            return self.sqrt(st, x)
        if name in ('floor', 'ceil'):
            x = real(A(0))
            self.used('std::floor/ceil: to_int')
            fl = z3.ToInt(x)
            return z3.ToReal(fl) if name == 'floor' else z3.ToReal(z3.If(z3.ToReal(fl) == x, fl, fl + 1))
        if name in ('abs', 'fabs'):
            x = A(0); return z3.If(x >= 0, x, -x)
        if name == 'tie':
            # std::tie(a, b, ...): a tuple of references; its assignment from a pair / tuple stores component-wise
            return Rec('tie', {str(i): e.lv(a_, st, fr) for i, a_ in enumerate(args)})
        if name in ('copysign', 'copysignf'):
            x = real(A(0)); y = real(A(1))
            self.used('std::copysign: |x| with the sign of y; a negative zero as second argument is not modelled (reals have one zero)')
            ax = z3.If(x >= 0, x, -x)
            return z3.If(y >= 0, ax, -ax)
        if name in ('fmin', 'fmax'):
            a = real(A(0)); b = real(A(1))
            return z3.If(b < a, b, a) if name == 'fmin' else z3.If(a < b, b, a)
        if name in ('hypot',):
            a = real(A(0)); b = real(A(1))
            return self.sqrt(st, a * a + b * b)
        if name in ('trunc', 'round'):
            x = real(A(0))
            if name == 'trunc': return z3.ToReal(z3.If(x >= 0, z3.ToInt(x), -z3.ToInt(-x)))
            return z3.ToReal(z3.If(x >= 0, z3.ToInt(x + z3.RealVal('1/2')), -z3.ToInt(-x + z3.RealVal('1/2'))))      # halfway cases away from zero
        if name in ('max', 'lowest', 'min', 'infinity') and len(args) == 0:
            import fractions, sys as _sys
            t = TY.of_node(n)
            if t.kind == 'real':
                if name == 'infinity': return self.fn_infinity(st, rd, args, n, fr)
                mx = fractions.Fraction(_sys.float_info.max)
                return z3.RealVal(mx if name == 'max' else (-mx if name == 'lowest' else fractions.Fraction(_sys.float_info.min)))
            if t.kind == 'int':
                lo, hi = TY.INT_RANGES[t.name]
                return z3.IntVal(hi if name == 'max' else lo)
        if name in ('min', 'max') and len(args) == 2:
            a = e.rv(args[0], st, fr); b = e.rv(args[1], st, fr)
            if z3.is_int(a) and z3.is_real(b): a = z3.ToReal(a)
            if z3.is_int(b) and z3.is_real(a): b = z3.ToReal(b)
            # std::min(a,b) = (b < a) ? b : a ; std::max(a,b) = (a < b) ? b : a
            return z3.If(b < a, b, a) if name == 'min' else z3.If(a < b, b, a)
        if name in ('log', 'exp', 'acos', 'cos', 'sin', 'tan', 'cbrt', 'atan', 'asin'):
            x = real(A(0))
            t = self.uf1(name, x, st)
            if name == 'cbrt': st.pc.append(t * t * t == x); st.pc.append((t >= 0) == (x >= 0))
            if name == 'exp': st.pc.append(t > 0); st.pc.append(self.e.uf('libm.log', R, R)(t) == x)
            if name == 'acos': st.pc.append(z3.And(t >= 0, t <= self.pi()))
            if name in ('cos', 'sin'): st.pc.append(z3.And(t >= -1, t <= 1))
            return t
        if name == 'pow':
            x = real(A(0)); y = real(A(1))
            ys = z3.simplify(y)
            if z3.is_rational_value(ys):
                if ys.numerator_as_long() == 2 * ys.denominator_as_long(): return x * x
                if ys.numerator_as_long() == 3 * ys.denominator_as_long(): return x * x * x
                if ys.numerator_as_long() == ys.denominator_as_long(): return x
            f = self.e.uf('libm.pow', R, R, R)
            return f(x, y)
        if name in ('isfinite',):
            A(0); self.used('std::isfinite: true on reals (DESIGN 4.3-4)'); return z3.BoolVal(True)
        if name in ('isnan', 'isinf'):
            A(0); self.used('std::isnan/isinf: false on reals (DESIGN 4.3-4)'); return z3.BoolVal(False)
        if name == 'move' and len(args) == 3:
            return self.fn_move_range(st, rd, args, n, fr)
        if name in ('move', 'forward', 'as_const', 'addressof'):
            return e.ev(args[0], st, fr)
        if name == 'get':
            # std::get<I>(array/tuple/pair)
            idx = self.template_index(n)
            v = e.ev(args[0], st, fr)
            if isinstance(v, LVS): return e.member_lv(st, v, self.tuple_field(TY.of_node(args[0]), idx), None)
            return v.f[self.tuple_field(TY.of_node(args[0]), idx)]
        if name == 'distance':
            a = A(0); b = A(1)
            return self.iter_arith(st, '-', b, a)
        if name in ('next', 'prev') and isinstance(A(0), Iter):
            k = A(1) if len(args) > 1 else z3.IntVal(1)
            return self.iter_arith(st, '+' if name == 'next' else '-', A(0), k)
        if name == 'iota' and isinstance(A(0), Iter) and A(0).cty.kind == 'vector' and A(0).cty.args[0].kind == 'int':
            # std::iota(first, last, v): element k of the range becomes v + (k - first)
            b = A(0); en = A(1); v0 = A(2)
            key = e.vec_data_key(b.cty.args[0])
            arr = e.harr(st, key, None)
            old = z3.Select(arr, b.vref)
            new = e.fresh(key + '!iota', old.sort())
            st.pc.append(QForall(lambda k: z3.Select(new, k) == z3.If(z3.And(k >= b.idx, k < en.idx), v0 + (k - b.idx), z3.Select(old, k)), 1, 'std::iota', [new]))
            st.heap[key] = z3.Store(arr, b.vref, new)
            return None
        if name == 'back_inserter':
            return Rec('back_inserter', {'dst': e.ev(args[0], st, fr)})
        if name == 'inserter':
            e.rv(args[1], st, fr)
            return Rec('inserter', {'dst': e.ev(args[0], st, fr)})
        if name == 'set_intersection' and len(args) == 5:
            # std::set_intersection(a.begin(), a.end(), b.begin(), b.end(), inserter(set)) on two vectors of scalars: the set receives the
            # values common to both ranges; its size is an uninterpreted function of the two ranges (recorded for the contracts)
            a0 = A(0); a1 = A(1); b0 = A(2); b1 = A(3); out = A(4)
            if not (isinstance(a0, Iter) and isinstance(b0, Iter) and isinstance(out, Rec) and out.t == 'inserter' and self.is_scalar_set(out.f['dst'])):
                raise Unsupported('std::set_intersection form at %s' % e.where(n, fr))
            dst = out.f['dst']
            da = z3.Select(e.harr(st, e.vec_data_key(a0.cty.args[0]), None), a0.vref); db = z3.Select(e.harr(st, e.vec_data_key(b0.cty.args[0]), None), b0.vref)
            card = e.uf('common_values', da.sort(), I, I, db.sort(), I, I, I)(da, a0.idx, a1.idx, db, b0.idx, b1.idx)
            st.pc.append(card >= 0)
            arr = e.harr(st, 'sset.member', z3.ArraySort(I, z3.ArraySort(I, B)))
            st.heap['sset.member'] = z3.Store(arr, dst.ref, e.fresh('sset.member!isect', z3.ArraySort(I, B)))
            sz = e.hread(st, 'set.size', dst.ref, I)
            e.hwrite(st, 'set.size', dst.ref, sz + card)
            st.ghost['isect_count'] = st.ghost.get('isect_count', 0) + 1
            st.ghost['isect_a'] = a0.vref; st.ghost['isect_b'] = b0.vref; st.ghost['isect_card'] = card
            st.ghost['isect_whole'] = z3.And(a0.idx == 0, a1.idx == e.vec_len(st, a0.vref), b0.idx == 0, b1.idx == e.vec_len(st, b0.vref), sz == 0)
            self.used('std::set_intersection into std::inserter(set): the set grows by the number of common values (uninterpreted); ranges are assumed sorted')
            return out
        if name in ('make_pair',):
            return Rec('pair', {'first': A(0), 'second': A(1)})
        if name in ('printf', 'puts', 'fflush'):
            return z3.IntVal(0)
        if name in ('omp_set_lock', 'omp_unset_lock', 'omp_init_lock', 'omp_destroy_lock', 'omp_set_num_threads'):
            return None
        if name in ('omp_get_thread_num',): return z3.IntVal(0)
        if name in ('omp_get_max_threads', 'omp_get_num_threads'): return z3.IntVal(1)
        if name == 'now':
            return Opaque('time_point')
        if name in ('sort', 'stable_sort') and len(args) >= 2:
            b = A(0); en = A(1)
            if len(args) > 2: e.rv(args[2], st, fr)
            if isinstance(b, Iter) and b.cty.kind == 'vector':
                # the range is permuted: its contents become unknown (no property under contract needs more than that)
                ety = b.cty.args[0]
                cmp_t = TY.of_node(args[2]).noref() if len(args) > 2 else None
                natural = cmp_t is None or (cmp_t.kind == 'record' and (cmp_t.name or '').replace('std::', '').startswith('less<'))
                if ety.kind == 'int' and natural and isinstance(en, Iter):
                    # ascending sort of an integer range: the result is sorted and is a permutation of the range
                    # (new[k] = old[P[k]], P a bijection of [first, last) with inverse Pinv)
                    key = e.vec_data_key(ety)
                    arr = e.harr(st, key, None)
                    old_ = z3.Select(arr, b.vref)
                    new_ = e.fresh(key + '!sorted', old_.sort())
                    P = e.fresh('sort.perm', z3.ArraySort(I, I)); Pinv = e.fresh('sort.perm_inv', z3.ArraySort(I, I))
                    lo_, hi_ = b.idx, en.idx
                    st.pc.append(QForall(lambda k: z3.Implies(z3.And(k >= lo_, k < hi_), z3.And(z3.Select(P, k) >= lo_, z3.Select(P, k) < hi_, z3.Select(new_, k) == z3.Select(old_, z3.Select(P, k)),
                                                                                         z3.Select(Pinv, z3.Select(P, k)) == k, z3.Select(Pinv, k) >= lo_, z3.Select(Pinv, k) < hi_, z3.Select(P, z3.Select(Pinv, k)) == k)), 1, 'sorted range is a permutation', [new_]))
                    st.pc.append(QForall(lambda j, k: z3.Implies(z3.And(j >= lo_, j <= k, k < hi_), z3.Select(new_, j) <= z3.Select(new_, k)), 2, 'sorted range ascends', [new_]))
                    st.pc.append(QForall(lambda k: z3.Implies(z3.Or(k < lo_, k >= hi_), z3.Select(new_, k) == z3.Select(old_, k)), 1, 'outside the sorted range', [new_]))
                    # sorting an ascending range changes nothing (the sorted permutation of a sorted integer sequence is itself):
                    # either the range was not ascending - witnessed by a pair (wj, wk) - or every element keeps its place
                    wj = e.fresh('sort.unsorted_j', I); wk = e.fresh('sort.unsorted_k', I)
                    unsorted = z3.And(wj >= lo_, wj <= wk, wk < hi_, z3.Select(old_, wj) > z3.Select(old_, wk))
                    st.pc.append(QForall(lambda k: z3.Or(unsorted, z3.Select(new_, k) == z3.Select(old_, k)), 1, 'sorting a sorted range is the identity', [new_]))
                    st.heap[key] = z3.Store(arr, b.vref, new_)
                    self.used('std::sort (ascending, integers): sorted permutation of the range')
                    return None
                if e.is_value_type(ety):
                    keys = [e.vec_data_key(ety)] if ety.is_scalar() else [e.vec_data_key(ety, p) for p, lt in e.leaves(ety)]
                    for key in keys:
                        arr = e.harr(st, key, None)
                        st.heap[key] = z3.Store(arr, b.vref, e.fresh(key + '!sorted', arr.sort().range()))
                    self.used('std::sort / std::stable_sort: the range is some permutation of itself (modelled as unknown contents)')
                    return None
            raise Unsupported('std::%s form at %s' % (name, e.where(n, fr)))
        if name in ('stod', 'stof', 'stold'):
            return self.str_throwing_conv(st, 'stod', e.raw(A(0)), n, fr, R)
        if name in ('stoi', 'stol', 'stoul', 'stoull', 'stoll'):
            return self.str_throwing_conv(st, name, e.raw(A(0)), n, fr, I)
        if name == 'to_string':
            v = A(0)
            f = e.uf('to_string:' + ('real' if z3.is_real(v) else 'int'), R if z3.is_real(v) else I, I)
            return f(v)
        if name == 'make_shared':
            t = TY.of_node(n)
            pt = t.args[0]
            fake = {'kind': 'CXXConstructExpr', 'type': {'qualType': pt.raw or pt.name}, 'inner': list(args), 'ctorType': {'qualType': 'void (%s)' % ', '.join(a.get('type', {}).get('qualType', '') for a in args)},
                    '_file': n.get('_file'), '_line': n.get('_line')}
            obj = self.construct_heap_class(fake, pt, list(args), fake['ctorType']['qualType'] if args else 'void ()', st, fr)
            return Ptr(obj.ref, pt.name)
        if name == 'epsilon':
            import fractions
            t = TY.of_node(n)
            return z3.RealVal(fractions.Fraction(1, 2 ** 52) if t.name == 'double' else fractions.Fraction(1, 2 ** 23))
        if name == 'remove_if':
            b = A(0); en = A(1); pred = e.rv(args[2], st, fr)
            if not (isinstance(b, Iter) and isinstance(pred, Closure)): raise Unsupported('remove_if form')
            self.used('std::remove_if + vector::erase: the result is the stable sub-sequence of the elements for which the predicate returned false (C++17 [alg.remove], [vector.modifiers])')
            return Rec('remove_if', {'begin': b, 'end': en, 'pred': pred})
        if name in ('exp',):
            pass
        h = getattr(self, 'fn_' + name, None)
        if h is not None: return h(st, rd, args, n, fr)
        raise Unsupported('no model for function %s at %s' % (name, e.where(n, fr)))

    def pi(self):
        import fractions
        return z3.RealVal(fractions.Fraction(3.141592653589793))

    def template_index(self, n):
        c = n['inner'][0]
        while c['kind'] != 'DeclRefExpr': c = c['inner'][0]
        # the index is visible in the instantiated function type name only via foundReferencedDecl; parse from qualType
        import re
        t = c['referencedDecl'].get('type', {}).get('qualType', '')
        raise Unsupported('std::get index')

    def tuple_field(self, t, idx):
        t = t.noref()
        if t.kind == 'pair': return ['first', 'second'][idx]
        return str(idx)

    # ------------------------------------------------------------------ construction
    def construct(self, n, st, fr):
        e = self.e
        t = TY.of_node(n)
        args = [a for a in n.get('inner', [])]
        ctor_t = n.get('ctorType', {}).get('qualType', '')
        if t.kind == 'record':
            if e.is_value_class(t.name):
                return self.construct_value_class(n, t, args, ctor_t, st, fr)
            return self.construct_heap_class(n, t, args, ctor_t, st, fr)
        if t.kind == 'pair':
            if len(args) == 2: return Rec('pair', {'first': e.rv(args[0], st, fr), 'second': e.rv(args[1], st, fr)})
            if len(args) == 1:
                v = e.rv(args[0], st, fr); return v
            raise Unsupported('pair ctor arity')
        if t.kind == 'optional':
            if not args or 'nullopt' in ctor_t:
                return Rec('optional', {'has': z3.BoolVal(False), 'value': e.fresh_value(t.args[0].noref(), 'novalue')})
            v = e.rv(args[0], st, fr)
            if isinstance(v, Rec) and v.t == 'optional': return v
            return Rec('optional', {'has': z3.BoolVal(True), 'value': v})
        if t.kind == 'array':
            if not args: return e.fresh_value(t, 'uninit.array')
            v = e.rv(args[0], st, fr); return v
        if t.kind == 'ptr':
            if not args: return Ptr(z3.IntVal(0), e.ptr_cls(t))
            v = e.rv(args[0], st, fr)
            if isinstance(v, Ptr): return Ptr(v.ref, e.ptr_cls(t) or v.cls)
            raise Unsupported('smart pointer construction from %r' % (v,))
        if t.kind == 'string':
            if not args: return self.str_id('')
            v = e.rv(args[0], st, fr)
            if isinstance(v, Ptr): v = v.ref
            if is_z3(v) and z3.is_int(v):
                if 'const char *' in ctor_t and e.safety_on('null-deref'):
                    e.oblige(st, 'safety:string-from-null-pointer', v != 0, where=e.where(n, fr))
                return v
            raise Unsupported('std::string construction from %r at %s' % (v, e.where(n, fr)))
        if t.kind in ('vector', 'flist', 'list', 'set', 'map'):
            return self.construct_container(n, t, args, ctor_t, st, fr)
        if t.kind == 'tuple':
            return Rec('tuple', {str(i): e.rv(a, st, fr) for i, a in enumerate(args)})
        if t.kind == 'lambda':
            return e.rv(args[0], st, fr)
        if t.kind == 'iter':
            if not args:
                # a default-constructed (singular) iterator: assigned before it is used; modelled as an end iterator of no container
                if t.args and t.args[0].kind == 'set': return Rec('setiter', {'ref': z3.IntVal(0), 'key': z3.IntVal(-1), 'end': z3.BoolVal(True)})
                raise Unsupported('default-constructed iterator of %r at %s' % (t, e.where(n, fr)))
            return e.rv(args[0], st, fr)
        raise Unsupported('construction of %r at %s' % (t, e.where(n, fr)))

    def find_ctor(self, t, ctor_t):
        e = self.e
        r = e.record(t.name)
        cands = [c for c in r.get('inner', []) if c.get('kind') == 'CXXConstructorDecl' and c['type']['qualType'] == ctor_t]
        if not cands:
            norm = lambda s: s.replace(' ', '')
            cands = [c for c in r.get('inner', []) if c.get('kind') == 'CXXConstructorDecl' and norm(c['type']['qualType']) == norm(ctor_t)]
        if not cands:
            base = lambda s: norm(s).replace('noexcept(false)', '').replace('noexcept', '')
            cands = [c for c in r.get('inner', []) if c.get('kind') == 'CXXConstructorDecl' and base(c['type']['qualType']) == base(ctor_t)]
        if not cands: return None
        c = cands[0]
        return e.ast.fn_def.get(c['id'], c)

    def is_copy_move_ctor(self, t, ctor_t):
        s = ctor_t.replace(' ', '')
        nm = t.name.replace(' ', '')
        return s in ('void(const%s&)' % nm, 'void(%s&&)' % nm, 'void(%s&)' % nm) or s.startswith('void(const%s&)' % nm) or s.startswith('void(%s&&)' % nm)

    def construct_value_class(self, n, t, args, ctor_t, st, fr):
        e = self.e
        if self.is_copy_move_ctor(t, ctor_t) and len(args) == 1:
            v = e.rv(args[0], st, fr)
            return v
        c = self.find_ctor(t, ctor_t)
        if not args and (c is None or e.ast.body_of(c) is None):
            return e.default_value_class(st, t, fr)
        if c is None or e.ast.body_of(c) is None:
            raise Unsupported('constructor %s of %s has no body' % (ctor_t, t.name))
        key = 'tmp!%d' % next(e.nfresh)
        st.env[key] = e.default_value_class(st, t, fr)
        this = LocalLV(key)
        env2 = {}
        e.bind_args(e.ast.params_of(c), args, st, fr, env2)
        e.run_inlined(c, t.name + '::' + t.name, this, env2, st, fr, n)
        v = st.env[key]
        return v

    def construct_heap_class(self, n, t, args, ctor_t, st, fr):
        e = self.e
        if t.name.startswith('std::') or t.name.startswith('__gnu_cxx::'):
            for a_ in args:
                try: e.ev(a_, st, fr)
                except Unsupported: pass
            self.used('%s: opaque object, results of its operations are unconstrained values' % t.name.split('<')[0])
            return Opaque(t.name)
        if self.is_copy_move_ctor(t, ctor_t) and len(args) == 1:
            src = e.ev(args[0], st, fr)
            if isinstance(src, ObjLV):
                if e.is_temp_obj(src) and args[0].get('valueCategory') != 'lvalue': return src
                return e.copy_object(st, src)
            raise Unsupported('copy construction of %s from %r' % (t.name, src))
        obj = ObjLV(e.new_object(), t)
        c = self.find_ctor(t, ctor_t)
        e.init_default_object(st, obj, fr)
        contract = e.use_contracts.get(t.name + '::' + t.name)
        if contract is not None:
            if c is None or not contract.applies(c, e):
                cands = [d_ for d_ in e.ast.find_functions(t.name + '::' + t.name) if contract.applies(d_, e) and len(e.ast.params_of(d_)) == len(args)]
                if len(cands) == 1: c = cands[0]
            if c is not None and contract.applies(c, e):
                contract.apply_at_call(e, c, obj, args, st, fr, n)
                return obj
        if c is None or e.ast.body_of(c) is None:
            if args: raise Unsupported('constructor %s of %s has no body' % (ctor_t, t.name))
            return obj
        env2 = {}
        e.bind_args(e.ast.params_of(c), args, st, fr, env2)
        e.run_inlined(c, t.name + '::' + t.name, obj, env2, st, fr, n)
        return obj

    def default_construct(self, st, obj, d, fr):
        e = self.e
        t = obj.ty
        if t.kind == 'record':
            e.init_default_object(st, obj, fr)
            return
        self.init_empty_container(st, obj)

    def aggregate_init(self, st, t, items, n, fr):
        raise Unsupported('aggregate initialisation of %r' % (t,))

    def base_init(self, st, this, c, expr, fr):
        """base-class sub-object initialisation: run the base constructor on the same object"""
        e = self.e
        if not isinstance(this, ObjLV): raise Unsupported('base-class initialiser of a value class')
        bt = TY.of_node(expr)
        if bt.kind != 'record': raise Unsupported('base initialiser of type %r' % (bt,))
        if bt.name.startswith('std::'): return
        base_obj = ObjLV(this.ref, bt)
        args = [a for a in expr.get('inner', [])] if expr.get('kind') in ('CXXConstructExpr',) else []
        ctor_t = expr.get('ctorType', {}).get('qualType', 'void ()')
        ctor = self.find_ctor(bt, ctor_t)
        # default member initialisers of the base's own fields
        for (fn, ft, dc, fd) in e.layout(bt.name):
            if dc != bt.name: continue
            init = [x for x in fd.get('inner', []) if 'kind' in x and x['kind'] != 'FullComment']
            if init:
                flv = e.member_lv(st, base_obj, fn, dc)
                if isinstance(flv, ObjLV): e.init_object_from(st, flv, e.ev(init[0], st, fr), init[0], fr)
                else: e.store(st, flv, e.rv(init[0], st, fr))
        if ctor is not None and e.ast.body_of(ctor) is not None:
            env2 = {}
            e.bind_args(e.ast.params_of(ctor), args, st, fr, env2)
            e.run_inlined(ctor, bt.name + '::' + bt.name, base_obj, env2, st, fr, expr)

    # ------------------------------------------------------------------ containers
    def init_empty_container(self, st, obj):
        e = self.e
        t = obj.ty
        if t.kind == 'flist':
            self.flist_clear(st, obj)
            log = e.harr(st, 'flist.copied_from', z3.ArraySort(I, z3.ArraySort(I, I)))
            st.heap['flist.copied_from'] = z3.Store(log, obj.ref, z3.K(I, z3.IntVal(0)))
            return
        if t.kind in ('vector', 'list', 'string'):
            e.hwrite(st, 'vec.len', obj.ref, z3.IntVal(0))
            return
        if self.is_scalar_set(obj):
            self.sset_init(st, obj); return
        if t.kind == 'set':
            self.set_clear(st, obj); return
        if t.kind == 'map':
            return            # contents of std::map members are not tracked (no function under contract reads them)
        if t.kind == 'record':
            e.init_default_object(st, obj, None); return
        raise Unsupported('default container of type %r' % (t,))

    def construct_container(self, n, t, args, ctor_t, st, fr):
        e = self.e
        obj = ObjLV(e.new_object(), t)
        if not args:
            self.init_empty_container(st, obj); return obj
        if len(args) == 1 and '&&' in ctor_t and self.same_container(ctor_t, t):
            src = e.ev(args[0], st, fr)
            if isinstance(src, ObjLV): return src          # move construction: the source is not used afterwards
        if len(args) == 1 and t.kind in ('flist',):
            src = e.ev(args[0], st, fr)
            if isinstance(src, ObjLV):
                self.copy_container(st, obj, src); return obj
        if len(args) == 1 and t.kind == 'set' and '&&' not in ctor_t:
            src = e.ev(args[0], st, fr)
            if isinstance(src, ObjLV) and src.ty.kind == 'set' and (self.is_edge_set(src) or self.is_scalar_set(src)):
                self.copy_container(st, obj, src); return obj      # copy construction: members (and stored edges) of the source
        if t.kind == 'vector':
            a0 = e.ev(args[0], st, fr)
            if isinstance(a0, ObjLV) and a0.ty.kind == 'vector' and len(args) == 1:
                self.copy_container(st, obj, a0); return obj
            if isinstance(a0, LVS): a0 = e.load(st, a0)
            if isinstance(a0, Rec) and a0.t == 'initlist':
                self.assign_initlist(st, obj, a0); return obj
            if z3.is_int(a0):
                # vector(n) / vector(n, value)
                e.hwrite(st, 'vec.len', obj.ref, a0)
                real_args = [a_ for a_ in args if not (a_.get('kind') == 'CXXDefaultArgExpr')]
                if len(real_args) >= 2 and e.is_value_type(t.args[0]):
                    v = e.rv(args[1], st, fr)
                    self.fill(st, obj, v)
                elif e.is_value_type(t.args[0]):
                    self.fill(st, obj, e.zero_value(t.args[0]))
                return obj
        raise Unsupported('container constructor %s at %s' % (ctor_t, e.where(n, fr)))

    def same_container(self, ctor_t, t):
        a = ctor_t[ctor_t.index('(') + 1:].split('&&')[0].strip()
        return TY.parse(a).kind == t.kind

    def fill(self, st, obj, v):
        e = self.e
        ety = obj.ty.args[0]
        for path, term in e.value_leaves(v, ety):
            lt = ety if ety.is_scalar() else dict(e.leaves(ety))[path]
            key = e.vec_data_key(ety, path) if not ety.is_scalar() else e.vec_data_key(ety)
            srt = e.sort_of(lt)
            if srt == R and z3.is_int(term): term = z3.ToReal(term)
            arr = e.harr(st, key, z3.ArraySort(I, z3.ArraySort(I, srt)))
            st.heap[key] = z3.Store(arr, obj.ref, z3.K(I, term))

    def assign_initlist(self, st, obj, il):
        e = self.e
        items = [il.f[str(i)] for i in range(len(il.f))]
        e.hwrite(st, 'vec.len', obj.ref, z3.IntVal(len(items)))
        ety = obj.ty.args[0]
        for i, v in enumerate(items):
            e.vec_write(st, obj.ref, z3.IntVal(i), ety, v)

    def copy_container(self, st, dst, src):
        e = self.e
        t = src.ty
        if t.kind in ('vector', 'string'):
            e.hwrite(st, 'vec.len', dst.ref, e.vec_len(st, src.ref))
            if t.kind == 'string': return
            ety = t.args[0]
            if e.is_value_type(ety):
                keys = [(e.vec_data_key(ety), e.sort_of(ety))] if ety.is_scalar() else [(e.vec_data_key(ety, p), e.sort_of(lt)) for p, lt in e.leaves(ety)]
                for key, srt in keys:
                    arr = e.harr(st, key, z3.ArraySort(I, z3.ArraySort(I, srt)))
                    st.heap[key] = z3.Store(arr, dst.ref, z3.Select(arr, src.ref))
                return
            srclen = e.vec_len(st, src.ref)
            if z3.is_true(z3.simplify(srclen == 0)): return
            elem = e.uf('elem', I, I, I); ev = e.uf('elem_v', I, I)
            d_, s_ = dst.ref, src.ref
            if ety.kind == 'vector' and ety.args[0].is_scalar():
                # vector<vector<scalar>>: the inner vectors are copied element-wise (length and data arrays)
                dk = e.vec_data_key(ety.args[0])
                for key, srt in (('vec.len', I), (dk, z3.ArraySort(I, e.sort_of(ety.args[0])))):
                    A = e.harr(st, key, z3.ArraySort(I, srt))
                    A2 = e.fresh(key + '!cp', A.sort())
                    st.pc.append(QForall(lambda k, A=A, A2=A2: z3.And(z3.Select(A2, elem(d_, k)) == z3.Select(A, elem(s_, k)), ev(elem(d_, k)) == d_), 1, 'vector copy: element-wise', [A2]))
                    st.pc.append(QForall(lambda r, A=A, A2=A2: z3.Implies(ev(r) != d_, z3.Select(A2, r) == z3.Select(A, r)), 1, 'vector copy: other objects unchanged', [A2]))
                    st.heap[key] = A2
                return
            if ety.kind != 'record': raise Unsupported('copy of a vector of %r' % (ety,))
            # element-wise copy of heap-class elements: for every leaf field array A, A'[elem(dst,k)] = A[elem(src,k)], rest unchanged
            leaves, subs = e.object_leaf_keys(ety)
            if subs: raise Unsupported('copy of a vector whose elements contain containers (%r)' % (ety,))
            for key, lt in leaves:
                A = e.harr(st, key, z3.ArraySort(I, e.sort_of(lt)))
                A2 = e.fresh(key + '!cp', A.sort())
                st.pc.append(QForall(lambda k, A=A, A2=A2: z3.And(z3.Select(A2, elem(d_, k)) == z3.Select(A, elem(s_, k)), ev(elem(d_, k)) == d_), 1, 'vector copy: element-wise', [A2]))
                st.pc.append(QForall(lambda r, A=A, A2=A2: z3.Implies(ev(r) != d_, z3.Select(A2, r) == z3.Select(A, r)), 1, 'vector copy: other objects unchanged', [A2]))
                st.heap[key] = A2
            return
        if t.kind == 'record':
            e.copy_fields(st, dst, src); return
        if t.kind == 'set' and (self.is_edge_set(src) or self.is_scalar_set(src)):
            arr = e.harr(st, 'sset.member', z3.ArraySort(I, z3.ArraySort(I, B)))
            st.heap['sset.member'] = z3.Store(arr, dst.ref, z3.Select(arr, src.ref))
            e.hwrite(st, 'set.size', dst.ref, e.hread(st, 'set.size', src.ref, I))
            if self.is_edge_set(src):
                ety = t.args[0]
                for path, lt in e.leaves(ety):
                    key = e.vec_data_key(ety, path)
                    a_ = e.harr(st, key, z3.ArraySort(I, z3.ArraySort(I, e.sort_of(lt))))
                    st.heap[key] = z3.Store(a_, dst.ref, z3.Select(a_, src.ref))
            return
        if t.kind == 'map':
            return        # contents of std::map members are not tracked
        if t.kind == 'flist':
            e.hwrite(st, 'flist.len', dst.ref, self.flist_len(st, src.ref))
            arr = self.flist_count_arr(st)
            st.heap['flist.count'] = z3.Store(arr, dst.ref, z3.Select(arr, src.ref))
            return
        raise Unsupported('copy of container %r' % (t,))

    # std::forward_list<T> (T scalar): ghost length + multiset of elements (count per value); DESIGN 4.2
    def flist_count_arr(self, st):
        return self.e.harr(st, 'flist.count', z3.ArraySort(I, z3.ArraySort(I, I)))

    def flist_clear(self, st, obj):
        e = self.e
        e.hwrite(st, 'flist.len', obj.ref, z3.IntVal(0))
        arr = self.flist_count_arr(st)
        st.heap['flist.count'] = z3.Store(arr, obj.ref, z3.K(I, z3.IntVal(0)))

    def flist_len(self, st, ref):
        l = self.e.hread(st, 'flist.len', ref, I)
        self.e.axiom_once(st, l, lambda: l >= 0)
        return l

    def m_flist_push_front(self, st, obj, bt, args, n, fr):
        e = self.e
        v = e.rv(args[0], st, fr)
        if not (isinstance(v, Ptr) or (is_z3(v) and z3.is_int(v))):
            # value-class elements: only the length is tracked
            e.hwrite(st, 'flist.len', obj.ref, self.flist_len(st, obj.ref) + 1); return None
        t = e.raw(v)
        arr = self.flist_count_arr(st)
        inner = z3.Select(arr, obj.ref)
        st.heap['flist.count'] = z3.Store(arr, obj.ref, z3.Store(inner, t, z3.Select(inner, t) + 1))
        e.hwrite(st, 'flist.len', obj.ref, self.flist_len(st, obj.ref) + 1)
        return None

    def m_flist_begin(self, st, obj, bt, args, n, fr): return Iter(obj.ref, z3.IntVal(0), obj.ty)
    def m_flist_end(self, st, obj, bt, args, n, fr): return Iter(obj.ref, self.flist_len(st, obj.ref), obj.ty)
    def m_flist_empty(self, st, obj, bt, args, n, fr): return self.flist_len(st, obj.ref) == 0
    def m_flist_clear(self, st, obj, bt, args, n, fr): self.flist_clear(st, obj)

    def fn_for_each(self, st, rd, args, n, fr):
        """std::for_each(first, last, f) over a vector: a loop; needs a loop contract registered under 'for_each#k'"""
        e = self.e
        b = e.rv(args[0], st, fr); en = e.rv(args[1], st, fr); f = e.rv(args[2], st, fr)
        if not (isinstance(b, Iter) and isinstance(f, Closure) and b.cty.kind == 'vector'): raise Unsupported('for_each form')
        k = st.ghost.get('for_each_count', 0); st.ghost['for_each_count'] = k + 1
        lc = e.specs.loop_contract(fr.qname, 'for_each#%d' % k) if e.specs else None
        if lc is None: raise Unsupported('std::for_each #%d in %s has no loop contract (at %s)' % (k, fr.qname, e.where(n, fr)))
        idx_key = 'rangeidx!%s' % n['id']
        st.env[idx_key] = b.idx
        ety = b.cty.args[0]
        vec = ObjLV(b.vref, b.cty)

        class Body:      # adapter: the loop contract executes "the body" through exec_stmt
            pass
        call_node = {'kind': 'ForEachBody', 'id': 'fe!' + str(n['id']), '_file': n.get('_file'), '_line': n.get('_line')}

        def run_body(nn, s, frr):
            i = s.env[idx_key]
            arg = e.vec_read(s, vec.ref, i, ety) if not e.is_value_type(ety) else ElemLV(vec.ref, i, ety)
            e.call_closure_values(f, [arg], s, frr, n)
            return [(s, None)]
        e.st_ForEachBody = run_body
        outs = lc.apply(e, n, st, fr, lambda s: s.env[idx_key] < en.idx, lambda s: s.env.__setitem__(idx_key, s.env[idx_key] + 1), call_node, True, None,
                        {'index_key': idx_key, 'container': vec})
        normal = [s for (s, o) in outs if o is None]
        if len(normal) != 1: raise Unsupported('for_each with abrupt exits')
        st.assign_from(normal[0])
        return f

    def fn_accumulate(self, st, rd, args, n, fr):
        """std::accumulate(first, last, init, op) over a vector: a loop; needs a loop contract registered under 'accumulate#k'"""
        e = self.e
        b = e.rv(args[0], st, fr); en = e.rv(args[1], st, fr); init = e.rv(args[2], st, fr)
        if len(args) < 4: raise Unsupported('std::accumulate without operation')
        f = e.rv(args[3], st, fr)
        if not (isinstance(b, Iter) and isinstance(f, Closure) and b.cty.kind == 'vector'): raise Unsupported('accumulate form')
        k = st.ghost.get('accumulate_count', 0); st.ghost['accumulate_count'] = k + 1
        lc = e.specs.loop_contract(fr.qname, 'accumulate#%d' % k) if e.specs else None
        if lc is None: raise Unsupported('std::accumulate #%d in %s has no loop contract (at %s)' % (k, fr.qname, e.where(n, fr)))
        idx_key = 'rangeidx!%s' % n['id']; acc_key = 'acc!%s' % n['id']
        st.env[idx_key] = b.idx
        rt = TY.of_node(n)
        if rt.kind == 'real' and is_z3(init) and z3.is_int(init): init = z3.ToReal(init)
        if rt.kind == 'int' and is_z3(init) and z3.is_real(init): init = e.float_to_int(st, init, rt, n, fr)
        st.env[acc_key] = init
        e.var_names[acc_key] = 'accumulator'
        ety = b.cty.args[0]
        vec = ObjLV(b.vref, b.cty)
        call_node = {'kind': 'AccumulateBody', 'id': 'acc!' + str(n['id']), '_file': n.get('_file'), '_line': n.get('_line'),
                     'inner': [{'kind': 'DeclRefExpr', 'type': {'qualType': 'double'}, 'referencedDecl': {'kind': 'VarDecl', 'id': acc_key, 'name': 'accumulator'}}]}

        def run_body(nn, s, frr):
            i = s.env[idx_key]
            arg = e.vec_read(s, vec.ref, i, ety) if not e.is_value_type(ety) else ElemLV(vec.ref, i, ety)
            r = e.call_closure_values(f, [s.env[acc_key], arg], s, frr, n)
            if isinstance(r, LVS) and not isinstance(r, ObjLV): r = e.load(s, r)
            if rt.kind == 'int' and is_z3(r) and z3.is_real(r): r = e.float_to_int(s, r, rt, n, frr)
            s.env[acc_key] = r
            return [(s, None)]
        e.st_AccumulateBody = run_body
        outs = lc.apply(e, n, st, fr, lambda s: s.env[idx_key] < en.idx, lambda s: s.env.__setitem__(idx_key, s.env[idx_key] + 1), call_node, True, None,
                        {'index_key': idx_key, 'container': vec, 'acc_key': acc_key})
        normal = [s for (s, o) in outs if o is None]
        if len(normal) != 1: raise Unsupported('accumulate with abrupt exits')
        st.assign_from(normal[0])
        return st.env[acc_key]

    def fn_move_range(self, st, rd, args, n, fr):
        """std::move(first, last, d_first) on iterators of ONE vector of scalars / pointers, d_first before first (the permitted
        overlap): destination gets the source values; source positions outside the destination keep an unspecified value"""
        e = self.e
        b = e.rv(args[0], st, fr); en = e.rv(args[1], st, fr); d = e.rv(args[2], st, fr)
        if isinstance(d, Rec) and d.t == 'back_inserter':
            return self.fn_copy(st, rd, args, n, fr)
        if not (isinstance(b, Iter) and isinstance(en, Iter) and isinstance(d, Iter) and b.cty.kind == 'vector' and b.cty.args[0].is_scalar()):
            raise Unsupported('std::move(range) form (%r, %r, %r) at %s' % (b, en, d, e.where(n, fr)))
        cnt = en.idx - b.idx
        ln = e.vec_len(st, b.vref)
        if e.safety_on('bounds'):
            e.oblige(st, 'safety:move-source-range-inside-the-vector', z3.Implies(cnt > 0, z3.And(en.vref == b.vref, b.idx >= 0, en.idx <= ln)), where=e.where(n, fr))
            e.oblige(st, 'safety:move-destination-inside-the-vector', z3.Implies(cnt > 0, z3.And(d.idx >= 0, d.idx + cnt <= e.vec_len(st, d.vref))), where=e.where(n, fr))
            e.oblige(st, 'safety:move-destination-not-inside-the-source-range', z3.Implies(z3.And(cnt > 0, d.vref == b.vref), z3.Or(d.idx < b.idx, d.idx >= en.idx)), where=e.where(n, fr))
        key = e.vec_data_key(b.cty.args[0])
        arr = e.harr(st, key, None)
        if not z3.is_true(z3.simplify(d.vref == b.vref)): raise Unsupported('std::move between different vectors at %s' % e.where(n, fr))
        old_ = z3.Select(arr, b.vref)
        new_ = e.fresh(key + '!moved', old_.sort()); junk = e.fresh(key + '!moved_from', old_.sort())
        is_ptr = b.cty.args[0].kind == 'ptr'
        st.pc.append(QForall(lambda p: z3.Select(new_, p) == z3.If(z3.And(cnt > 0, p >= d.idx, p < d.idx + cnt), z3.Select(old_, b.idx + (p - d.idx)),
                                                                z3.If(z3.And(cnt > 0, p >= b.idx, p < en.idx), z3.Select(junk, p) if is_ptr else z3.Select(old_, p), z3.Select(old_, p))), 1, 'std::move(range)', [new_]))
        st.heap[key] = z3.Store(arr, b.vref, new_)
        self.used('std::move(first,last,d_first) within one vector: destination = source values, moved-from smart pointers unspecified')
        return Iter(d.vref, d.idx + z3.If(cnt > 0, cnt, 0), d.cty)

    def fn_all_of(self, st, rd, args, n, fr):
        """std::all_of / any_of / none_of over a vector range with a side-effect-free predicate: the predicate is evaluated on an
        arbitrary element k of the range (its safety obligations hold for every element); the result r satisfies
        all_of: r -> pred(k), any_of: !r -> !pred(k), none_of: r -> !pred(k) for that arbitrary k (one instance of the universal fact)"""
        e = self.e
        name = rd.get('name')
        b = e.rv(args[0], st, fr); en = e.rv(args[1], st, fr); pred = e.rv(args[2], st, fr)
        over_set = isinstance(b, Rec) and b.t == 'setiter' and isinstance(en, Rec) and en.t == 'setiter'
        if not (isinstance(pred, Closure) and (over_set or (isinstance(b, Iter) and isinstance(en, Iter) and b.cty.kind == 'vector'))):
            raise Unsupported('std::%s form at %s' % (name, e.where(n, fr)))
        k = e.fresh(name + '.k', I)
        r = e.fresh(name + '.result', B)
        s2 = st.clone()
        if over_set:
            # the whole edge set (begin .. end): an arbitrary stored edge
            sref = b.f['ref']
            inrange = self.eset_member(st, sref, k)
            s2.pc.append(inrange)
            arg = ElemLV(sref, k, TY.parse('edge'))
        else:
            inrange = z3.And(k >= b.idx, k < en.idx)
            s2.pc.append(inrange)
            ety = b.cty.args[0]
            arg = ElemLV(b.vref, k, ety) if e.is_value_type(ety) else e.vec_read(s2, b.vref, k, ety)
        pv = e.call_closure_values(pred, [arg], s2, fr, n)
        if isinstance(pv, LVS) and not isinstance(pv, ObjLV): pv = e.load(s2, pv)
        pv = e.as_bool(pv)
        for key, arr in s2.heap.items():
            o = st.heap.get(key)
            if o is not None and not (o is arr or o.eq(arr)) and not key.startswith('vec.epoch'):
                raise Unsupported('std::%s with a predicate that writes %s at %s' % (name, key, e.where(n, fr)))
        e.absorb_pure(st, s2, inrange)
        fact = {'all_of': z3.Implies(r, pv), 'any_of': z3.Implies(z3.Not(r), z3.Not(pv)), 'none_of': z3.Implies(r, z3.Not(pv))}[name]
        # the predicate has no side effect, so its value on element j is the value computed for the arbitrary element k with k := j
        st.pc.append(QForall(lambda j: z3.substitute(z3.Implies(inrange, fact), (k, j)), 1, 'std::%s: the result bounds the predicate on every element' % name, [r]))
        st.pc.append(z3.Implies(inrange, fact))
        st.ghost['last_%s' % name] = r
        self.used('std::all_of/any_of/none_of: result related to the (side-effect free) predicate on every element of the range')
        return r
    fn_any_of = fn_all_of
    fn_none_of = fn_all_of

    def fn_swap(self, st, rd, args, n, fr):
        e = self.e
        a = e.lv(args[0], st, fr); b = e.lv(args[1], st, fr)
        va = e.load(st, a); vb = e.load(st, b)
        e.store(st, a, vb); e.store(st, b, va)
        return None

    def fn_infinity(self, st, rd, args, n, fr):
        import fractions, sys as _sys
        e = self.e
        inf = e.uf('INF', R) if False else z3.Real('INF')
        ax = inf > z3.RealVal(fractions.Fraction(_sys.float_info.max))
        e.axiom_ids.add(ax.get_id())
        if not any(p is ax or (is_z3(p) and p.get_id() == ax.get_id()) for p in st.pc): st.pc.append(ax)
        self.used('numeric_limits<double>::infinity(): a real constant INF greater than DBL_MAX (all finite doubles compare below it)')
        return inf

    def fn_front_inserter(self, st, rd, args, n, fr):
        return Rec('front_inserter', {'dst': self.e.ev(args[0], st, fr)})

    def fn_copy(self, st, rd, args, n, fr):
        e = self.e
        b = e.rv(args[0], st, fr); en = e.rv(args[1], st, fr); out = e.rv(args[2], st, fr)
        if isinstance(out, Rec) and out.t == 'front_inserter' and isinstance(b, Iter) and b.cty.kind == 'flist':
            dst = out.f['dst']; src = b.vref
            if e.safety_on('bounds'):
                e.oblige(st, 'safety:copy-whole-list', z3.And(b.idx == 0, en.idx == self.flist_len(st, src), en.vref == src), where=e.where(n, fr))
            arr = self.flist_count_arr(st)
            old_d = z3.Select(arr, dst.ref); s_ = z3.Select(arr, src)
            new_d = e.fresh('flist.count.sum', old_d.sort())
            st.pc.append(QForall(lambda t: z3.Select(new_d, t) == z3.Select(old_d, t) + z3.Select(s_, t), 1, 'copy adds the source multiset', [new_d]))
            st.heap['flist.count'] = z3.Store(arr, dst.ref, new_d)
            e.hwrite(st, 'flist.len', dst.ref, self.flist_len(st, dst.ref) + self.flist_len(st, src))
            log = e.harr(st, 'flist.copied_from', z3.ArraySort(I, z3.ArraySort(I, I)))
            inner = z3.Select(log, dst.ref)
            st.heap['flist.copied_from'] = z3.Store(log, dst.ref, z3.Store(inner, src, z3.Select(inner, src) + 1))
            st.ghost['copy_log'] = st.ghost.get('copy_log', GuardedLog()).add((dst.ref, src))
            return out
        if isinstance(out, Rec) and out.t == 'back_inserter' and isinstance(b, Iter) and b.cty.kind == 'vector' and isinstance(en, Iter):
            # std::copy(first, last, back_inserter(dst)) over random-access iterators: appends max(0, last-first) elements;
            # every element of [first, last) is read, so a non-empty range must lie inside the source vector
            dst = out.f['dst']; src = b.vref
            ety = b.cty.args[0]
            if not (isinstance(dst, ObjLV) and dst.ty.kind == 'vector' and ety.is_scalar() and dst.ty.args[0].is_scalar()):
                raise Unsupported('std::copy into back_inserter of %r at %s' % (dst, e.where(n, fr)))
            cnt = en.idx - b.idx
            if e.safety_on('bounds'):
                e.oblige(st, 'safety:copy-source-range-inside-the-vector', z3.Implies(cnt > 0, z3.And(en.vref == src, b.idx >= 0, en.idx <= e.vec_len(st, src))), where=e.where(n, fr))
            skey = e.vec_data_key(ety); dkey = e.vec_data_key(dst.ty.args[0])
            sarr = z3.Select(e.harr(st, skey, None), src)
            darr_all = e.harr(st, dkey, None)
            oldd = z3.Select(darr_all, dst.ref)
            oldlen = e.vec_len(st, dst.ref)
            newd = e.fresh(dkey + '!copied', oldd.sort())
            conv = (lambda x: z3.ToReal(x)) if (oldd.sort().range() == R and sarr.sort().range() == I) else (lambda x: x)
            st.pc.append(QForall(lambda k: z3.Select(newd, k) == z3.If(k < oldlen, z3.Select(oldd, k), conv(z3.Select(sarr, b.idx + k - oldlen))), 1, 'std::copy appends the source range', [newd]))
            st.heap[dkey] = z3.Store(darr_all, dst.ref, newd)
            e.hwrite(st, 'vec.len', dst.ref, oldlen + z3.If(cnt > 0, cnt, 0))
            self.bump_epoch(st, dst.ref)
            return out
        raise Unsupported('std::copy form at %s' % e.where(n, fr))

    # std::set<edge> (ordered by the Cantor hash of the sorted node pair, so two edges are equivalent iff they join the same
    # two nodes): a finite map from the key ekey(n1,n2) to the stored edge. Membership is the boolean array sset.member[set][key],
    # the stored edges live in the element store of type edge at [set][key] (so *it is an ordinary element l-value and
    # const_cast<edge&>(*it).add_face(..) updates the stored edge), set.size is the cardinality. DESIGN A.5
    def is_edge_set(self, obj):
        return isinstance(obj, ObjLV) and obj.ty.kind == 'set' and obj.ty.args and obj.ty.args[0].kind == 'record' and obj.ty.args[0].name == 'edge'

    def ekey(self, st, n1, n2):
        e = self.e
        f = e.uf('ekey', I, I, I); g1 = e.uf('ekey_1', I, I); g2 = e.uf('ekey_2', I, I)
        t = f(n1, n2)
        e.axiom_once(st, t, lambda: [z3.And(g1(t) == n1, g2(t) == n2)])
        return t

    def edge_key(self, st, ev):
        """key of an edge value (its constructor has ordered the two node ids)"""
        return self.ekey(st, ev.f['n1_id_'], ev.f['n2_id_'])

    def set_clear(self, st, obj):
        self.sset_init(st, obj)

    def setiter(self, ref, key, end):
        return Rec('setiter', {'ref': ref, 'key': key, 'end': end})

    def eset_member(self, st, ref, key):
        return z3.Select(self.sset_member(st, ref), key)

    def eset_find(self, st, obj, ev):
        key = self.edge_key(st, ev)
        return self.setiter(obj.ref, key, z3.Not(self.eset_member(st, obj.ref, key)))

    def eset_insert_value(self, st, obj, ev, n, fr):
        """insert / emplace of an edge value: returns (iterator, inserted)"""
        e = self.e
        ety = obj.ty.args[0]
        key = self.edge_key(st, ev)
        had = self.eset_member(st, obj.ref, key)
        old = e.vec_read(st, obj.ref, key, ety)
        self.sset_add(st, obj, key)
        e.vec_write(st, obj.ref, key, ety, merge_vals([had, z3.Not(had)], [old, ev]) if not z3.is_false(z3.simplify(had)) else ev)      # an equivalent edge already stored is kept
        return self.setiter(obj.ref, key, z3.BoolVal(False)), z3.Not(had)

    def eset_erase_key(self, st, obj, key):
        e = self.e
        arr = e.harr(st, 'sset.member', z3.ArraySort(I, z3.ArraySort(I, B)))
        mem = z3.Select(arr, obj.ref)
        had = z3.Select(mem, key)
        st.heap['sset.member'] = z3.Store(arr, obj.ref, z3.Store(mem, key, z3.BoolVal(False)))
        sz = e.hread(st, 'set.size', obj.ref, I)
        e.hwrite(st, 'set.size', obj.ref, z3.If(had, sz - 1, sz))
        return had

    def m_set_clear(self, st, obj, bt, args, n, fr):
        if self.is_scalar_set(obj): return self.sset_init(st, obj)
        self.set_clear(st, obj)

    # std::set<scalar> / std::map<scalar, scalar>: membership is a boolean array of the key; a map keeps its values in the
    # element store of the value type, indexed by the key (so map[k] is an ordinary element l-value)
    def is_scalar_set(self, obj):
        return isinstance(obj, ObjLV) and obj.ty.kind in ('set', 'map') and obj.ty.args[0].is_scalar() and (obj.ty.kind == 'set' or obj.ty.args[1].is_scalar() or self.e.is_value_type(obj.ty.args[1]))

    def sset_member(self, st, ref):
        return z3.Select(self.e.harr(st, 'sset.member', z3.ArraySort(I, z3.ArraySort(I, B))), ref)

    def sset_init(self, st, obj):
        e = self.e
        arr = e.harr(st, 'sset.member', z3.ArraySort(I, z3.ArraySort(I, B)))
        st.heap['sset.member'] = z3.Store(arr, obj.ref, z3.K(I, z3.BoolVal(False)))
        e.hwrite(st, 'set.size', obj.ref, z3.IntVal(0))

    def sset_add(self, st, obj, key):
        e = self.e
        arr = e.harr(st, 'sset.member', z3.ArraySort(I, z3.ArraySort(I, B)))
        mem = z3.Select(arr, obj.ref)
        had = z3.Select(mem, key)
        st.heap['sset.member'] = z3.Store(arr, obj.ref, z3.Store(mem, key, z3.BoolVal(True)))
        sz = e.hread(st, 'set.size', obj.ref, I)
        e.hwrite(st, 'set.size', obj.ref, z3.If(had, sz, sz + 1))
        return had

    def m_set_insert(self, st, obj, bt, args, n, fr):
        e = self.e
        if self.is_edge_set(obj):
            v = e.rv(args[0], st, fr)
            if isinstance(v, Rec) and v.t == 'initlist':
                for i in range(len(v.f)): self.eset_insert_value(st, obj, v.f[str(i)], n, fr)
                return None
            if not (isinstance(v, Rec) and 'n1_id_' in v.f): raise Unsupported('set<edge>::insert form at %s' % e.where(n, fr))
            it, ins = self.eset_insert_value(st, obj, v, n, fr)
            return Rec('pair', {'first': it, 'second': ins})
        if not self.is_scalar_set(obj): raise Unsupported('set::insert on %r at %s' % (obj, e.where(n, fr)))
        if len(args) == 2:
            b = e.rv(args[0], st, fr); en = e.rv(args[1], st, fr)
            if not (isinstance(b, Iter) and isinstance(en, Iter) and b.cty.kind == 'vector' and b.cty.args[0].is_scalar()):
                raise Unsupported('set::insert(range) form at %s' % e.where(n, fr))
            # insert(first, last): every element of [first, last) is read (in-bounds obligation) and becomes a member;
            # old members stay; the size grows by at most the length of the range
            cnt = en.idx - b.idx
            if e.safety_on('bounds'):
                e.oblige(st, 'safety:insert-source-range-inside-the-vector', z3.Implies(cnt > 0, z3.And(en.vref == b.vref, b.idx >= 0, en.idx <= e.vec_len(st, b.vref))), where=e.where(n, fr))
            arr = e.harr(st, 'sset.member', z3.ArraySort(I, z3.ArraySort(I, B)))
            old = z3.Select(arr, obj.ref)
            new = e.fresh('sset.member!ins', old.sort())
            src = z3.Select(e.harr(st, e.vec_data_key(b.cty.args[0]), None), b.vref)
            st.pc.append(QForall(lambda x: z3.Implies(z3.Select(old, x), z3.Select(new, x)), 1, 'insert keeps the members', [new]))
            st.pc.append(QForall(lambda k: z3.Implies(z3.And(k >= b.idx, k < en.idx), z3.Select(new, z3.Select(src, k))), 1, 'the inserted range becomes members', [new]))
            st.heap['sset.member'] = z3.Store(arr, obj.ref, new)
            sz = e.hread(st, 'set.size', obj.ref, I)
            nsz = e.fresh('set.size!ins', I)
            st.pc.append(z3.And(nsz >= sz, nsz <= sz + z3.If(cnt > 0, cnt, 0)))
            e.hwrite(st, 'set.size', obj.ref, nsz)
            self.used('std::set<scalar>::insert(first,last): members grow by the values of the range; no other property of the result is used')
            return None
        v = e.rv(args[0], st, fr)
        if obj.ty.kind == 'map':
            if not (isinstance(v, Rec) and 'first' in v.f): raise Unsupported('map::insert form at %s' % e.where(n, fr))
            k = e.raw(v.f['first']); val = v.f['second']
            had = z3.Select(self.sset_member(st, obj.ref), k)
            oldv = e.vec_read(st, obj.ref, k, obj.ty.args[1])
            self.sset_add(st, obj, k)
            e.vec_write(st, obj.ref, k, obj.ty.args[1], merge_vals([had, z3.Not(had)], [oldv, val]))     # insert does not overwrite
            return Opaque('map::insert result')
        self.sset_add(st, obj, e.raw(v))
        return Opaque('set::insert result')

    m_map_insert = m_set_insert
    m_map_clear = m_set_clear

    def m_set_emplace(self, st, obj, bt, args, n, fr):
        e = self.e
        if not self.is_edge_set(obj): raise Unsupported('set::emplace on %r at %s' % (obj, e.where(n, fr)))
        ety = obj.ty.args[0]
        ctor_t = 'void (%s)' % ', '.join(['unsigned int'] * len(args))
        ev = self.construct_value_class(n, ety, list(args), ctor_t, st, fr)
        it, ins = self.eset_insert_value(st, obj, ev, n, fr)
        return Rec('pair', {'first': it, 'second': ins})

    def m_set_find(self, st, obj, bt, args, n, fr):
        e = self.e
        if not self.is_edge_set(obj): raise Unsupported('set::find on %r at %s' % (obj, e.where(n, fr)))
        return self.eset_find(st, obj, e.rv(args[0], st, fr))

    def m_set_end(self, st, obj, bt, args, n, fr):
        if not self.is_edge_set(obj): raise Unsupported('set::end on %r' % (obj,))
        return self.setiter(obj.ref, z3.IntVal(-1), z3.BoolVal(True))
    m_set_cend = m_set_end

    def m_set_begin(self, st, obj, bt, args, n, fr):
        e = self.e
        if self.is_scalar_set(obj): return Opaque('set<scalar>::iterator')
        if not self.is_edge_set(obj): raise Unsupported('set::begin on %r' % (obj,))
        sz = self.m_set_size(st, obj, bt, [], n, fr)
        k = e.fresh('set.first', I)
        st.pc.append(z3.Implies(sz > 0, self.eset_member(st, obj.ref, k)))
        self.member_key_axioms(st, obj, k)
        return self.setiter(obj.ref, k, sz <= 0)
    m_set_cbegin = m_set_begin

    def member_key_axioms(self, st, obj, k):
        """k is the key of a stored edge: it is the key of that edge's node pair"""
        e = self.e
        ev = e.vec_read(st, obj.ref, k, obj.ty.args[0])
        f = e.uf('ekey', I, I, I); g1 = e.uf('ekey_1', I, I); g2 = e.uf('ekey_2', I, I)
        st.pc.append(z3.Implies(self.eset_member(st, obj.ref, k), z3.And(k == f(ev.f['n1_id_'], ev.f['n2_id_']), g1(k) == ev.f['n1_id_'], g2(k) == ev.f['n2_id_'])))

    def m_set_rbegin(self, st, obj, bt, args, n, fr):
        """std::set<scalar>::rbegin(): designates the largest member (when the set is not empty)"""
        e = self.e
        if not (self.is_scalar_set(obj) and obj.ty.kind == 'set'): raise Unsupported('set::rbegin on %r at %s' % (obj, e.where(n, fr)))
        m = e.fresh('set.max', I)
        mem = self.sset_member(st, obj.ref)
        sz = self.m_set_size(st, obj, bt, [], n, fr)
        st.pc.append(z3.Implies(sz > 0, z3.Select(mem, m)))
        st.pc.append(QForall(lambda x: z3.Implies(z3.Select(mem, x), x <= m), 1, 'rbegin designates the largest member', [m]))
        ety = obj.ty.args[0]
        if ety.kind == 'int':
            lo, hi = TY.INT_RANGES[ety.name]; st.pc.append(z3.And(m >= lo, m <= hi))
        return Rec('ssetiter', {'value': m, 'end': sz <= 0})
    m_set_crbegin = m_set_rbegin

    def m_set_empty(self, st, obj, bt, args, n, fr):
        return self.m_set_size(st, obj, bt, [], n, fr) == 0

    def m_set_erase(self, st, obj, bt, args, n, fr):
        e = self.e
        if not self.is_edge_set(obj): raise Unsupported('set::erase on %r at %s' % (obj, e.where(n, fr)))
        a0 = e.rv(args[0], st, fr)
        if isinstance(a0, Rec) and a0.t == 'setiter':
            if e.safety_on('bounds'):
                e.oblige(st, 'safety:erase-of-a-valid-iterator', z3.And(z3.Not(a0.f['end']), a0.f['ref'] == obj.ref, self.eset_member(st, obj.ref, a0.f['key'])), where=e.where(n, fr))
            self.eset_erase_key(st, obj, a0.f['key'])
            return self.setiter(obj.ref, e.fresh('set.next', I), e.fresh('set.next_is_end', B))
        if isinstance(a0, Rec) and 'n1_id_' in a0.f:
            had = self.eset_erase_key(st, obj, self.edge_key(st, a0))
            return z3.If(had, z3.IntVal(1), z3.IntVal(0))
        raise Unsupported('set::erase form at %s' % e.where(n, fr))

    # iterators of std::map<scalar, value type>: (map, key, is-end); it->first is the key, it->second the stored value (an element l-value)
    def smapiter(self, obj, key, end):
        return Rec('smapiter', {'ref': obj.ref, 'key': key, 'end': end, 'vty': obj.ty.args[1].raw, 'kty': obj.ty.args[0].raw})

    def m_map_find(self, st, obj, bt, args, n, fr):
        e = self.e
        if not self.is_scalar_set(obj): raise Unsupported('map::find on %r at %s' % (obj, e.where(n, fr)))
        k = e.raw(e.rv(args[0], st, fr))
        return self.smapiter(obj, k, z3.Not(z3.Select(self.sset_member(st, obj.ref), k)))

    def m_map_end(self, st, obj, bt, args, n, fr):
        if not self.is_scalar_set(obj): raise Unsupported('map::end on %r' % (obj,))
        return self.smapiter(obj, z3.IntVal(-1), z3.BoolVal(True))
    m_map_cend = m_map_end

    def m_map_empty(self, st, obj, bt, args, n, fr):
        return self.m_set_size(st, obj, bt, [], n, fr) == 0

    def smapiter_deref(self, st, p, n, fr):
        e = self.e
        if e.safety_on('bounds'):
            e.oblige(st, 'safety:dereferenced-map-iterator-is-not-end', z3.Not(p.f['end']), where=e.where(n, fr) if n is not None else None)
        return Rec('pair', {'first': p.f['key'], 'second': ElemLV(p.f['ref'], p.f['key'], TY.parse(p.f['vty']))})

    def m_map_index(self, st, obj, bt, args, n, fr):
        e = self.e
        if not self.is_scalar_set(obj): raise Unsupported('map::operator[] on %r at %s' % (obj, e.where(n, fr)))
        k = e.raw(e.rv(args[0], st, fr))
        vty = obj.ty.args[1]
        had = z3.Select(self.sset_member(st, obj.ref), k)
        oldv = e.vec_read(st, obj.ref, k, vty)
        self.sset_add(st, obj, k)
        e.vec_write(st, obj.ref, k, vty, merge_vals([had, z3.Not(had)], [oldv, e.zero_value(vty)]))      # a missing key is value-initialised
        return ElemLV(obj.ref, k, vty)

    def m_set_count(self, st, obj, bt, args, n, fr):
        e = self.e
        if self.is_edge_set(obj):
            it = self.eset_find(st, obj, e.rv(args[0], st, fr))
            return z3.If(it.f['end'], z3.IntVal(0), z3.IntVal(1))
        if not self.is_scalar_set(obj): raise Unsupported('set::count on %r' % (obj,))
        k = e.raw(e.rv(args[0], st, fr))
        return z3.If(z3.Select(self.sset_member(st, obj.ref), k), z3.IntVal(1), z3.IntVal(0))
    m_map_count = m_set_count
    def m_map_size(self, st, obj, bt, args, n, fr): return self.m_set_size(st, obj, bt, args, n, fr)
    def m_set_size(self, st, obj, bt, args, n, fr):
        sz = self.e.hread(st, 'set.size', obj.ref, I)
        st.pc.append(sz >= 0)
        return sz

    def subscript(self, st, base, idx, n, fr):
        e = self.e
        if isinstance(base, Rec):
            if z3.is_int_value(z3.simplify(idx)): return base.f[str(z3.simplify(idx).as_long())]
            items = [base.f[str(i)] for i in range(len(base.f))]
            return merge_vals([idx == i for i in range(len(items))], items)
        if isinstance(base, LocalLV) or isinstance(base, FieldLV) or isinstance(base, ElemLV):
            s = z3.simplify(idx)
            if z3.is_int_value(s): return e.member_lv(st, base, str(s.as_long()), None)
            v = e.load(st, base)
            items = [v.f[str(i)] for i in range(len(v.f))]
            return merge_vals([idx == i for i in range(len(items))], items)
        raise Unsupported('subscript of %r' % (base,))

    def bounds(self, st, vref, idx, n, fr, what='index-in-bounds'):
        e = self.e
        if e.safety_on('bounds'):
            e.oblige(st, 'safety:' + what, z3.And(idx >= 0, idx < e.vec_len(st, vref)), where=e.where(n, fr))

    def opaque_result(self, n, what):
        e = self.e
        t = TY.of_node(n)
        if t.kind == 'void': return None
        if e.is_value_type(t.noref()) and not t.ref: return e.fresh_value(t.noref(), 'opaque.' + what)
        return Opaque(what)

    def member_call(self, st, obj, bt, name, args, n, fr):
        """member function of a library type"""
        e = self.e
        bt = bt.noref()
        if isinstance(obj, LVS) and not isinstance(obj, ObjLV):
            ov = e.load(st, obj)
            if isinstance(ov, (Opaque, ObjLV)): obj = ov
        if isinstance(obj, Opaque):
            for a_ in args: e.ev(a_, st, fr)
            return self.opaque_result(n, obj.what.split('<')[0] + '.' + name)
        if isinstance(obj, ObjLV): bt = obj.ty if (obj.ty.kind != 'record' or bt.kind != 'record') else bt
        k = bt.kind
        if k == 'ptr' and isinstance(obj, LVS) and not isinstance(obj, ObjLV):
            return self.smart_ptr_method(st, e.load(st, obj), name, n, fr, lv=obj)
        h = getattr(self, 'm_%s_%s' % (k, name.replace('operator[]', 'index').replace('operator*', 'deref').replace('operator->', 'arrow').replace('operator bool', 'bool').replace('operator=', 'assign').replace('operator()', 'call')), None)
        if h is None:
            if isinstance(obj, ObjLV) and k in ('vector', 'set', 'map') and e.specs is not None and getattr(e.specs, 'default_havoc', None):
                # a container operation the executor has no model for (typically brought in by restructured code): sound fallback -
                # the container may end up in any state, the result is an arbitrary value of its type. Postconditions that depend on
                # the container can then no longer be proved, which is reported against the named obligation instead of stopping here.
                for a_ in args:
                    try: e.ev(a_, st, fr)
                    except Unsupported: pass
                self.havoc_container(st, obj)
                self.used('unmodelled %s::%s: arbitrary effect on that container, arbitrary result' % (k, name))
                return self.opaque_result(n, '%s.%s' % (k, name))
            raise Unsupported('no model for %s::%s at %s' % (k, name, e.where(n, fr)))
        return h(st, obj, bt, args, n, fr)

    def havoc_container(self, st, obj):
        e = self.e
        t = obj.ty
        if t.kind == 'vector':
            ln = e.fresh('vec.len!unknown_op', I); st.pc.append(ln >= 0)
            e.hwrite(st, 'vec.len', obj.ref, ln)
            self.bump_epoch(st, obj.ref)
            ety = t.args[0]
            if e.is_value_type(ety):
                keys = [e.vec_data_key(ety)] if ety.is_scalar() else [e.vec_data_key(ety, p_) for p_, lt in e.leaves(ety)]
                for key in keys:
                    arr = e.harr(st, key, None)
                    st.heap[key] = z3.Store(arr, obj.ref, e.fresh(key + '!unknown_op', arr.sort().range()))
            else:
                raise Unsupported('unmodelled operation on a vector of objects')
            return
        arr = e.harr(st, 'sset.member', z3.ArraySort(I, z3.ArraySort(I, B)))
        st.heap['sset.member'] = z3.Store(arr, obj.ref, e.fresh('sset.member!unknown_op', z3.ArraySort(I, B)))
        sz = e.fresh('set.size!unknown_op', I); st.pc.append(sz >= 0)
        e.hwrite(st, 'set.size', obj.ref, sz)

    def smart_ptr_method(self, st, p, name, n, fr, lv=None):
        if name == 'get': return p
        if name == 'operator bool': return p.ref != 0
        if name == 'reset' and lv is not None:
            self.e.store(st, lv, Ptr(z3.IntVal(0), p.cls)); return None
        raise Unsupported('smart pointer method %s' % name)

    def default_assign(self, st, obj, src_n, n, fr):
        e = self.e
        if isinstance(obj, ObjLV):
            src = e.ev(src_n, st, fr)
            e.assign_object(st, obj, src, fr)
            return obj
        v = e.rv(src_n, st, fr)
        e.store(st, obj, v)
        return obj

    def operator_call(self, st, rd, args, n, fr):
        e = self.e
        name = rd.get('name')
        a0t = TY.of_node(args[0]).noref()
        if name == 'operator[]':
            base = e.ev(args[0], st, fr)
            idx = e.rv(args[1], st, fr)
            if isinstance(base, ObjLV) and base.ty.kind == 'vector':
                self.bounds(st, base.ref, idx, n, fr)
                ety = base.ty.args[0]
                if e.is_value_type(ety): return ElemLV(base.ref, idx, ety)
                return ObjLV(e.elem_ref(st, base.ref, idx), ety)
            if isinstance(base, ObjLV) and base.ty.kind == 'map':
                return self.m_map_index(st, base, base.ty, [args[1]], n, fr)
            return self.subscript(st, base, idx, n, fr)
        if name == 'operator=':
            lv = e.ev(args[0], st, fr)
            if isinstance(lv, Rec) and lv.t == 'tie':
                v = e.rv(args[1], st, fr)
                if not isinstance(v, Rec): raise Unsupported('assignment to std::tie from %r at %s' % (v, e.where(n, fr)))
                comps = [v.f['first'], v.f['second']] if 'first' in v.f else [v.f[str(i)] for i in range(len(v.f))]
                if len(comps) != len(lv.f): raise Unsupported('std::tie arity at %s' % e.where(n, fr))
                for i, c_ in enumerate(comps):
                    if isinstance(c_, LVS) and not isinstance(c_, ObjLV): c_ = e.load(st, c_)
                    e.store(st, lv.f[str(i)], c_)
                return lv
            if isinstance(lv, ObjLV):
                src = e.ev(args[1], st, fr)
                e.assign_object(st, lv, src, fr); return lv
            v = e.rv(args[1], st, fr)
            if a0t.kind == 'optional':
                if isinstance(v, Opaque) and v.what in ('nullopt', 'std::nullopt_t'):
                    v = Rec('optional', {'has': z3.BoolVal(False), 'value': e.load(st, e.member_lv(st, lv, 'value', None))})
                elif not (isinstance(v, Rec) and v.t == 'optional'):
                    v = Rec('optional', {'has': z3.BoolVal(True), 'value': v})
            e.store(st, lv, v); return lv
        if name in ('operator+', 'operator+=') and (a0t.kind == 'string' or TY.of_node(args[1]).noref().kind == 'string'):
            a = e.raw(e.rv(args[0], st, fr)); b = e.raw(e.rv(args[1], st, fr))
            r = e.uf('strcat', I, I, I)(a, b)
            if name == 'operator+=':
                lv_ = e.lv(args[0], st, fr); e.store(st, lv_, r); return lv_
            return r
        if name in ('operator==', 'operator!=', 'operator<', 'operator-', 'operator+', 'operator<=', 'operator>', 'operator>=') and len(args) == 2:
            a = e.rv(args[0], st, fr); b = e.rv(args[1], st, fr)
            if isinstance(a, Rec) and a.t in ('setiter', 'smapiter') and isinstance(b, Rec) and b.t == a.t and name in ('operator==', 'operator!='):
                same = z3.Or(z3.And(a.f['end'], b.f['end']), z3.And(z3.Not(a.f['end']), z3.Not(b.f['end']), a.f['key'] == b.f['key']))
                return same if name == 'operator==' else z3.Not(same)
            if isinstance(a, Rec) and a.t == 'optional' and isinstance(b, Opaque): return a.f['has'] == (name == 'operator!=')
            if name in ('operator==', 'operator!='):
                # std::optional<T> compared with a T (or another optional): equal iff both engaged with equal values, or both empty
                if isinstance(a, Rec) and a.t == 'optional' and is_z3(b):
                    eq_ = z3.And(a.f['has'], a.f['value'] == b); return eq_ if name == 'operator==' else z3.Not(eq_)
                if isinstance(b, Rec) and b.t == 'optional' and is_z3(a):
                    eq_ = z3.And(b.f['has'], b.f['value'] == a); return eq_ if name == 'operator==' else z3.Not(eq_)
                if isinstance(a, Rec) and a.t == 'optional' and isinstance(b, Rec) and b.t == 'optional':
                    eq_ = z3.Or(z3.And(z3.Not(a.f['has']), z3.Not(b.f['has'])), z3.And(a.f['has'], b.f['has'], a.f['value'] == b.f['value']))
                    return eq_ if name == 'operator==' else z3.Not(eq_)
            return e.arith(name[len('operator'):], a, b, TY.of_node(n), st, n, fr)
        if name in ('operator*', 'operator->') and len(args) == 1:
            p = e.rv(args[0], st, fr)
            if isinstance(p, Rec) and p.t == 'setiter':
                return p if name == 'operator->' else self.setiter_deref(st, p, n, fr)
            if isinstance(p, Rec) and p.t == 'smapiter':
                return p if name == 'operator->' else self.smapiter_deref(st, p, n, fr)
            if isinstance(p, Rec) and p.t == 'ssetiter':
                if e.safety_on('bounds'): e.oblige(st, 'safety:dereferenced-set-iterator-is-not-end', z3.Not(p.f['end']), where=e.where(n, fr))
                return p.f['value']
            if name == 'operator->' and isinstance(p, Ptr):
                if p.cls is None and a0t.kind == 'ptr' and a0t.args: p = Ptr(p.ref, e.ptr_cls(a0t))
                return p
            return e.deref(st, p, {'kind': 'UnaryOperator', 'inner': [args[0]], '_file': n.get('_file'), '_line': n.get('_line')}, fr)
        if name in ('operator++', 'operator--'):
            lv = e.lv(args[0], st, fr)
            it = e.load(st, lv)
            if isinstance(it, Iter):
                new = Iter(it.vref, it.idx + (1 if name == 'operator++' else -1), it.cty)
                e.store(st, lv, new)
                return it if len(args) == 2 else lv
        if name == 'operator bool':
            return e.as_bool(e.rv(args[0], st, fr))
        if name == 'operator<<':
            # stream output: no effect on any state a property reads (DESIGN 4.3-3); operands are still evaluated
            for a in args[1:]:
                try: e.ev(a, st, fr)
                except Unsupported: pass
            return e.ev(args[0], st, fr) if args[0]['kind'] != 'DeclRefExpr' else Opaque('stream')
        if name == 'operator()':
            f = e.ev(args[0], st, fr)
            if isinstance(f, LVS) and not isinstance(f, ObjLV): f = e.load(st, f)
            if isinstance(f, Closure): return e.call_closure(f, args[1:], st, fr, n)
            return self.callable_object(st, f, args, n, fr)
        raise Unsupported('no model for %s on %r at %s' % (name, a0t, e.where(n, fr)))

    def callable_object(self, st, f, args, n, fr):
        if isinstance(f, Opaque):
            for a_ in args[1:]: self.e.ev(a_, st, fr)
            return self.opaque_result(n, f.what.split('<')[0] + '()')
        raise Unsupported('call of a library function object')

    def setiter_deref(self, st, p, n, fr):
        e = self.e
        if e.safety_on('bounds'):
            e.oblige(st, 'safety:dereferenced-set-iterator-is-not-end', z3.Not(p.f['end']), where=e.where(n, fr) if n is not None else None)
        return ElemLV(p.f['ref'], p.f['key'], TY.parse('edge'))

    # iterators ------------------------------------------------------------------------
    def iter_deref(self, st, it):
        e = self.e
        t = it.cty
        if t.kind in ('vector',):
            ety = t.args[0]
            if e.is_value_type(ety): return ElemLV(it.vref, it.idx, ety)
            return ObjLV(e.elem_ref(st, it.vref, it.idx), ety)
        raise Unsupported('dereference of iterator into %r' % (t,))

    # std::string members
    def _sval(self, st, obj):
        v = self.e.load(st, obj) if isinstance(obj, LVS) else obj
        return self.e.raw(v)
    def m_string_c_str(self, st, obj, bt, args, n, fr): return self._sval(st, obj)
    m_string_data = m_string_c_str
    def m_string_empty(self, st, obj, bt, args, n, fr): return self._sval(st, obj) == self.str_id('')
    def m_string_size(self, st, obj, bt, args, n, fr):
        l = self.e.uf('strlen', I, I)(self._sval(st, obj)); st.pc.append(l >= 0); return l
    m_string_length = m_string_size

    # tinyxml2 facade (trusted): elements are references, the document tree is three uninterpreted functions
    def m_record_FirstChildElement(self, st, obj, bt, args, n, fr):
        e = self.e
        name = e.raw(e.rv(args[0], st, fr)) if args else z3.IntVal(0)
        self.used('tinyxml2: FirstChildElement/NextSiblingElement/GetText as uninterpreted functions of (element, tag name); GetText may be null')
        return Ptr(e.uf('xml.first_child', I, I, I)(obj.ref, name), 'tinyxml2::XMLElement')
    def m_record_NextSiblingElement(self, st, obj, bt, args, n, fr):
        e = self.e
        name = e.raw(e.rv(args[0], st, fr)) if args else z3.IntVal(0)
        return Ptr(e.uf('xml.next_sibling', I, I, I)(obj.ref, name), 'tinyxml2::XMLElement')
    def m_record_shared_from_this(self, st, obj, bt, args, n, fr):
        return Ptr(obj.ref, obj.ty.name if isinstance(obj, ObjLV) else None)

    def m_record_GetText(self, st, obj, bt, args, n, fr):
        return self.e.uf('xml.text', I, I)(obj.ref)
    def m_record_LoadFile(self, st, obj, bt, args, n, fr):
        self.e.rv(args[0], st, fr)
        return self.e.fresh('xml.load_result', I)

    # std::optional members
    def m_optional_has_value(self, st, obj, bt, args, n, fr): return self._opt(st, obj).f['has']
    def m_optional_bool(self, st, obj, bt, args, n, fr): return self._opt(st, obj).f['has']
    def m_optional_value(self, st, obj, bt, args, n, fr):
        if self.e.safety_on('optional'):
            # value() on an empty optional throws std::bad_optional_access (std::terminate inside the noexcept accessors)
            self.e.oblige(st, 'safety:optional-has-a-value', self._opt(st, obj).f['has'], where=self.e.where(n, fr))
        if isinstance(obj, LVS): return self.e.member_lv(st, obj, 'value', None)
        return obj.f['value']
    def m_optional_reset(self, st, obj, bt, args, n, fr):
        self.e.store(st, self.e.member_lv(st, obj, 'has', None), z3.BoolVal(False))
    def _opt(self, st, obj):
        return self.e.load(st, obj) if isinstance(obj, LVS) else obj

    def iter_arith(self, st, op, a, b):
        if isinstance(a, Iter) and isinstance(b, Iter):
            if op == '-': return a.idx - b.idx
            if op in ('==', '!='):
                r = a.idx == b.idx
                return r if op == '==' else z3.Not(r)
            if op == '<': return a.idx < b.idx
        if isinstance(a, Iter) and z3.is_int(b):
            if op == '+': return Iter(a.vref, a.idx + b, a.cty)
            if op == '-': return Iter(a.vref, a.idx - b, a.cty)
        raise Unsupported('iterator arithmetic %s' % op)

    # vector ---------------------------------------------------------------------------
    def m_vector_size(self, st, obj, bt, args, n, fr): return self.e.vec_len(st, obj.ref)
    def m_vector_empty(self, st, obj, bt, args, n, fr): return self.e.vec_len(st, obj.ref) == 0

    def m_vector_index(self, st, obj, bt, args, n, fr):
        e = self.e
        idx = e.rv(args[0], st, fr)
        self.bounds(st, obj.ref, idx, n, fr)
        ety = obj.ty.args[0]
        if e.is_value_type(ety): return ElemLV(obj.ref, idx, ety)
        return ObjLV(e.elem_ref(st, obj.ref, idx), ety)

    m_vector_at = m_vector_index

    def m_vector_back(self, st, obj, bt, args, n, fr):
        e = self.e
        idx = e.vec_len(st, obj.ref) - 1
        self.bounds(st, obj.ref, idx, n, fr, 'non-empty')
        ety = obj.ty.args[0]
        if e.is_value_type(ety): return ElemLV(obj.ref, idx, ety)
        return ObjLV(e.elem_ref(st, obj.ref, idx), ety)

    def m_vector_front(self, st, obj, bt, args, n, fr):
        e = self.e
        idx = z3.IntVal(0)
        self.bounds(st, obj.ref, idx, n, fr, 'non-empty')
        ety = obj.ty.args[0]
        if e.is_value_type(ety): return ElemLV(obj.ref, idx, ety)
        return ObjLV(e.elem_ref(st, obj.ref, idx), ety)

    def bump_epoch(self, st, vref):
        e = self.e
        ep = e.hread(st, 'vec.epoch', vref, I)
        e.hwrite(st, 'vec.epoch', vref, ep + 1)

    def m_vector_clear(self, st, obj, bt, args, n, fr):
        self.e.hwrite(st, 'vec.len', obj.ref, z3.IntVal(0)); self.bump_epoch(st, obj.ref)

    def m_vector_reserve(self, st, obj, bt, args, n, fr):
        self.e.rv(args[0], st, fr); self.bump_epoch(st, obj.ref)

    def m_vector_shrink_to_fit(self, st, obj, bt, args, n, fr):
        self.bump_epoch(st, obj.ref)

    def m_vector_push_back(self, st, obj, bt, args, n, fr):
        e = self.e
        ety = obj.ty.args[0]
        ln = e.vec_len(st, obj.ref)
        if e.is_value_type(ety):
            v = e.rv(args[0], st, fr)
            e.vec_write(st, obj.ref, ln, ety, v)
        else:
            src = e.ev(args[0], st, fr)
            if not isinstance(src, ObjLV): raise Unsupported('push_back of %r' % (src,))
            dst = ObjLV(e.elem_ref(st, obj.ref, ln), ety)
            e.assign_object(st, dst, src, fr)
        e.hwrite(st, 'vec.len', obj.ref, ln + 1)
        self.bump_epoch(st, obj.ref)

    def m_vector_emplace_back(self, st, obj, bt, args, n, fr):
        e = self.e
        ety = obj.ty.args[0]
        if len(args) == 1:
            return self.m_vector_push_back(st, obj, bt, args, n, fr)
        if ety.kind == 'pair' and len(args) == 2 and e.is_value_type(ety):
            a = e.rv(args[0], st, fr); b = e.rv(args[1], st, fr)
            if isinstance(a, LVS) and not isinstance(a, ObjLV): a = e.load(st, a)
            if isinstance(b, LVS) and not isinstance(b, ObjLV): b = e.load(st, b)
            ln = e.vec_len(st, obj.ref)
            e.vec_write(st, obj.ref, ln, ety, Rec('pair', {'first': a, 'second': b}))
            e.hwrite(st, 'vec.len', obj.ref, ln + 1)
            self.bump_epoch(st, obj.ref)
            return None
        raise Unsupported('vector::emplace_back form at %s' % e.where(n, fr))

    def m_vector_pop_back(self, st, obj, bt, args, n, fr):
        e = self.e
        ln = e.vec_len(st, obj.ref)
        self.bounds(st, obj.ref, ln - 1, n, fr, 'non-empty')
        e.hwrite(st, 'vec.len', obj.ref, ln - 1)

    def m_vector_erase(self, st, obj, bt, args, n, fr):
        e = self.e
        a0 = e.rv(args[0], st, fr)
        if isinstance(a0, Rec) and a0.t == 'remove_if' and len(args) == 2:
            last = e.rv(args[1], st, fr)
            b, en, pred = a0.f['begin'], a0.f['end'], a0.f['pred']
            ln = e.vec_len(st, obj.ref)
            full = z3.And(b.vref == obj.ref, en.vref == obj.ref, b.idx == 0, en.idx == ln, last.idx == ln, last.vref == obj.ref)
            cnt = st.ghost.get('removal_count', z3.IntVal(0))
            st.ghost['removal_count'] = cnt + 1
            st.ghost['removal_full_range'] = z3.And(st.ghost.get('removal_full_range', z3.BoolVal(True)), full)
            st.ghost['removal_pred_line'] = pred.node.get('_line')
            st.ghost['removal_vec'] = obj.ref
            # the predicate may have side effects on the elements' pointees: everything reachable becomes unknown
            e.havoc_all(st)
            n2 = e.fresh('len_after_removal', I)
            st.pc.append(z3.And(n2 >= 0, n2 <= ln))
            e.hwrite(st, 'vec.len', obj.ref, n2)
            st.ghost['removal_len_after'] = n2
            st.ghost['removal_data_after'] = z3.Select(e.harr(st, e.vec_data_key(obj.ty.args[0]), None), obj.ref) if obj.ty.args[0].is_scalar() else None
            self.bump_epoch(st, obj.ref)
            return Iter(obj.ref, n2, obj.ty)
        if len(args) == 1 and isinstance(a0, Iter) and e.is_value_type(obj.ty.args[0]) and obj.ty.args[0].is_scalar():
            # erase(pos): the elements after pos move down by one
            ln = e.vec_len(st, obj.ref)
            if e.safety_on('bounds'):
                e.oblige(st, 'safety:erase-position-inside-the-vector', z3.And(a0.vref == obj.ref, a0.idx >= 0, a0.idx < ln), where=e.where(n, fr))
            key = e.vec_data_key(obj.ty.args[0])
            arr = e.harr(st, key, None)
            old_ = z3.Select(arr, obj.ref)
            new_ = e.fresh(key + '!erased', old_.sort())
            st.pc.append(QForall(lambda p: z3.Select(new_, p) == z3.If(p < a0.idx, z3.Select(old_, p), z3.Select(old_, p + 1)), 1, 'vector::erase(pos)', [new_]))
            st.heap[key] = z3.Store(arr, obj.ref, new_)
            e.hwrite(st, 'vec.len', obj.ref, ln - 1)
            self.bump_epoch(st, obj.ref)
            return Iter(obj.ref, a0.idx, obj.ty)
        raise Unsupported('vector::erase form at %s' % e.where(n, fr))

    def m_vector_insert(self, st, obj, bt, args, n, fr):
        e = self.e
        pos = e.rv(args[0], st, fr)
        ln = e.vec_len(st, obj.ref)
        if len(args) == 2 and isinstance(pos, Iter):
            v = e.rv(args[1], st, fr)
            if isinstance(v, Rec) and v.t == 'initlist':
                if e.safety_on('bounds') or True:
                    # only insertion at the end is modelled: anything else would shift elements
                    if not z3.is_true(z3.simplify(pos.idx == ln)):
                        e.oblige(st, 'safety:insert-position-is-end', pos.idx == ln, where=e.where(n, fr))
                ety = obj.ty.args[0]
                items = [v.f[str(i)] for i in range(len(v.f))]
                for i, it in enumerate(items): e.vec_write(st, obj.ref, ln + i, ety, it)
                e.hwrite(st, 'vec.len', obj.ref, ln + len(items))
                self.bump_epoch(st, obj.ref)
                return Iter(obj.ref, ln, obj.ty)
        raise Unsupported('vector::insert form at %s' % e.where(n, fr))

    def m_vector_begin(self, st, obj, bt, args, n, fr): return Iter(obj.ref, z3.IntVal(0), obj.ty)
    def m_vector_end(self, st, obj, bt, args, n, fr): return Iter(obj.ref, self.e.vec_len(st, obj.ref), obj.ty)
    m_vector_cbegin = m_vector_begin
    m_vector_cend = m_vector_end

    def m_vector_resize(self, st, obj, bt, args, n, fr):
        """resize(n[, v]): elements below the old size are kept, new ones are copies of v (or value-initialised)"""
        e = self.e
        nn = e.rv(args[0], st, fr)
        ety = obj.ty.args[0]
        old = e.vec_len(st, obj.ref)
        v = None
        if len(args) > 1:
            v = e.ev(args[1], st, fr)
            if isinstance(v, LVS) and not isinstance(v, ObjLV): v = e.load(st, v)
        if e.is_value_type(ety):
            if v is None: v = self.value_init(ety)
            if z3.is_int_value(z3.simplify(old)) and z3.simplify(old).as_long() == 0:
                self.fill(st, obj, v)
            else:
                for path, term in e.value_leaves(v, ety):
                    lt = ety if ety.is_scalar() else dict(e.leaves(ety))[path]
                    key = e.vec_data_key(ety, path) if not ety.is_scalar() else e.vec_data_key(ety)
                    srt = e.sort_of(lt)
                    if srt == R and z3.is_int(term): term = z3.ToReal(term)
                    arr = e.harr(st, key, z3.ArraySort(I, z3.ArraySort(I, srt)))
                    oldd = z3.Select(arr, obj.ref)
                    newd = e.fresh(key + '!rs', oldd.sort())
                    st.pc.append(QForall(lambda k, newd=newd, oldd=oldd, term=term: z3.Select(newd, k) == z3.If(k < old, z3.Select(oldd, k), term), 1, 'resize keeps the old prefix', [newd]))
                    st.heap[key] = z3.Store(arr, obj.ref, newd)
        else:
            if v is None: raise Unsupported('resize(n) of a vector of objects')
            self.resize_fresh_objects(st, obj, nn, v, old)
        e.hwrite(st, 'vec.len', obj.ref, nn)
        self.bump_epoch(st, obj.ref)

    def value_init(self, t):
        e = self.e
        if t.kind == 'optional':
            return Rec('optional', {'has': z3.BoolVal(False), 'value': e.zero_value(t.args[0].noref())})
        return e.zero_value(t)

    def resize_fresh_objects(self, st, obj, nn, proto, old):
        """vector<forward_list<T>>::resize(n, empty list) on an empty vector: every element is an empty list"""
        e = self.e
        ety = obj.ty.args[0]
        if ety.kind != 'flist': raise Unsupported('resize of vector of %r' % (ety,))
        if not isinstance(proto, ObjLV): raise Unsupported('resize prototype')
        plen = self.flist_len(st, proto.ref)
        if not z3.is_true(z3.simplify(plen == 0)): raise Unsupported('resize with a non-empty prototype list')
        L = e.harr(st, 'flist.len', z3.ArraySort(I, I)); Cn = self.flist_count_arr(st)
        L2 = e.fresh('flist.len!r', L.sort()); C2 = e.fresh('flist.count!r', Cn.sort())
        elem = e.uf('elem', I, I, I); ev = e.uf('elem_v', I, I)
        v = obj.ref
        st.pc.append(QForall(lambda k: z3.And(z3.Select(L2, elem(v, k)) == z3.If(k < old, z3.Select(L, elem(v, k)), 0),
                                              z3.Select(C2, elem(v, k)) == z3.If(k < old, z3.Select(Cn, elem(v, k)), z3.K(I, z3.IntVal(0))),
                                              ev(elem(v, k)) == v), 1, 'resize keeps the old prefix, new elements are empty lists', [L2, C2]))
        st.pc.append(QForall(lambda r: z3.Implies(ev(r) != v, z3.And(z3.Select(L2, r) == z3.Select(L, r), z3.Select(C2, r) == z3.Select(Cn, r))), 1, 'other lists unchanged', [L2, C2]))
        st.heap['flist.len'] = L2; st.heap['flist.count'] = C2

    # range-for --------------------------------------------------------------------------
    def range_for(self, n, st, fr):
        e = self.e
        inner = n['inner']
        if e.stop_at_loop is not None and e.stop_at_loop == (fr.fn['id'], e.loop_ordinal(n, fr)):
            rv0 = inner[1]['inner'][0]
            rinit0 = [c for c in rv0.get('inner', []) if 'kind' in c][0]
            try: st.ghost['stopped_container'] = e.ev(rinit0, st, fr)
            except Unsupported: pass
            e.stopped_states.append(st)
            return []
        # [init?, range decl, begin decl, end decl, cond, inc, loop var decl, body]
        range_decl = inner[1]; loopvar = inner[6]; body = inner[7]
        rv = range_decl['inner'][0]
        rinit = [c for c in rv.get('inner', []) if 'kind' in c][0]
        cont = e.ev(rinit, st, fr)
        if isinstance(cont, (LocalLV, FieldLV, ElemLV)):
            val = e.load(st, cont)
        else:
            val = cont
        var = loopvar['inner'][0]
        vt = TY.of_node(var)
        e.var_names[var['id']] = var.get('name')
        if isinstance(val, Rec) and val.t in ('array', 'initlist', 'carray'):
            items = [val.f[str(i)] for i in range(len(val.f))]
            if len(items) > e.unroll_limit: raise Unsupported('range-for over %d items' % len(items))
            def bind(s, it):
                if it >= len(items): return False
                if vt.ref and isinstance(cont, LVS): s.env[var['id']] = e.member_lv(s, cont, str(it), None)
                else: s.env[var['id']] = items[it]
                if var.get('kind') == 'DecompositionDecl':
                    # for(auto& [a, b]: array_of_pairs): the bindings name the members of the current element
                    binds = [c for c in var.get('inner', []) if c.get('kind') == 'BindingDecl']
                    base = s.env[var['id']] if isinstance(s.env[var['id']], LVS) else LocalLV(var['id'])
                    names = e.decomp_names(s, base, TY.of_node(var), len(binds))
                    for i_, b_ in enumerate(binds):
                        e.var_names[b_['id']] = b_.get('name')
                        s.env[b_['id']] = e.member_lv(s, base, names[i_], None)
                return True
            return e.run_loop(n, st, fr, None, None, body, bind=bind, use_contract=False)      # fixed-size array: unrolled
        if isinstance(val, ObjLV) and val.ty.kind == 'vector':
            return self.range_for_vector(n, st, fr, val, var, vt, body)
        if self.is_scalar_set(val) and val.ty.kind == 'set':
            return self.range_for_sset(n, st, fr, val, var, vt, body)
        raise Unsupported('range-for over %r at %s' % (val, e.where(n, fr)))

    def range_for_sset(self, n, st, fr, sset, var, vt, body):
        """range-for over a std::set<scalar>: needs a loop contract; the loop variable of an arbitrary iteration is some member
        of the set (of the element type's range); the number of iterations is the size of the set"""
        e = self.e
        ordn = e.loop_ordinal(n, fr)
        lc = e.specs.loop_contract(fr.qname, ordn) if e.specs else None
        if lc is None:
            raise Unsupported('range-for #%s over a set in %s has no loop contract (at %s)' % (ordn, fr.qname, e.where(n, fr)))
        idx_key = 'rangeidx!%s' % n['id']
        st.env[idx_key] = z3.IntVal(0)
        ety = sset.ty.args[0]
        size0 = e.hread(st, 'set.size', sset.ref, I)

        def bind(s):
            x = e.fresh('member', e.sort_of(ety))
            if ety.kind == 'int':
                lo, hi = TY.INT_RANGES[ety.name]; s.pc.append(z3.And(x >= lo, x <= hi))
            s.pc.append(z3.Select(self.sset_member(s, sset.ref), x))
            s.env[var['id']] = x

        def cond(s):
            return s.env[idx_key] < size0

        def inc(s):
            s.env[idx_key] = s.env[idx_key] + 1

        return lc.apply(e, n, st, fr, cond, inc, body, True, bind, {'index_key': idx_key, 'container': sset})

    def range_for_vector(self, n, st, fr, vec, var, vt, body):
        e = self.e
        ordn = e.loop_ordinal(n, fr)
        lc = e.specs.loop_contract(fr.qname, ordn) if e.specs else None
        if lc is None:
            raise Unsupported('range-for #%s over a vector in %s has no loop contract (at %s)' % (ordn, fr.qname, e.where(n, fr)))
        idx_key = 'rangeidx!%s' % n['id']
        st.env[idx_key] = z3.IntVal(0)
        ety = vec.ty.args[0]

        def bind(s):
            i = s.env[idx_key]
            if e.is_value_type(ety):
                lv = ElemLV(vec.ref, i, ety)
                s.env[var['id']] = lv if vt.ref else e.load(s, lv)
            else:
                o = ObjLV(e.elem_ref(s, vec.ref, i), ety)
                s.env[var['id']] = o if vt.ref else e.copy_object(s, o)

        def cond(s):
            return s.env[idx_key] < e.vec_len(s, vec.ref)

        def inc(s):
            s.env[idx_key] = s.env[idx_key] + 1

        return lc.apply(e, n, st, fr, cond, inc, body, True, bind, {'index_key': idx_key, 'container': vec})
