"""Native side: build /repo's current sources (for replay and conformance drivers) and run small C++ drivers."""
import os, subprocess, tempfile, shutil, hashlib, concurrent.futures
import frontend

CACHE = frontend.CACHE


def lib_sources(repo):
    srcs = frontend.unity_list(repo)
    srcs.append(os.path.join(repo, 'lib/tinyxml2/tinyxml2.cpp'))
    return srcs


def cxxflags(repo, defines=None, extra=()):
    fl = ['-std=gnu++17', '-fopenmp', '-DNDEBUG', '-DPROJECT_SOURCE_DIR="%s"' % repo, '-O1', '-g', '-w']
    for k, v in sorted((defines or {}).items()): fl.append('-D%s=%s' % (k, v))
    fl += ['-I' + os.path.join(repo, d) for d in frontend.INC_DIRS]
    return fl + list(extra)


def build_lib(repo=None, defines=None, sanitize=False):
    """static library of every src/*.cpp of the current tree; cached by content hash. returns path to .a"""
    repo = repo or frontend.REPO
    defines = dict(defines or {})
    key = frontend.tree_hash(repo, dict(defines, __native='asan' if sanitize else 'plain'))
    os.makedirs(CACHE, exist_ok=True)
    lib = os.path.join(CACHE, 'lib_%s.a' % key)
    if os.path.exists(lib): return lib
    wd = tempfile.mkdtemp(prefix='verif_nb_')
    try:
        extra = ['-fsanitize=address,undefined', '-fno-omit-frame-pointer'] if sanitize else []
        fl = cxxflags(repo, dict(defines, SIMUCELL3D_VERIF=1), extra)
        srcs = lib_sources(repo)
        objs = []

        def cc(i_s):
            i, s = i_s
            o = os.path.join(wd, '%d.o' % i)
            p = subprocess.run(['g++'] + fl + ['-c', s, '-o', o], capture_output=True, text=True)
            if p.returncode != 0: raise RuntimeError('native build failed for %s:\n%s' % (s, p.stderr[-2000:]))
            return o
        with concurrent.futures.ThreadPoolExecutor(max_workers=16) as ex:
            objs = list(ex.map(cc, enumerate(srcs)))
        tmp = lib + '.%d' % os.getpid()
        subprocess.check_call(['ar', 'rcs', tmp] + objs)
        os.replace(tmp, lib)
        ents = sorted((os.path.getmtime(os.path.join(CACHE, x)), x) for x in os.listdir(CACHE) if x.startswith('lib_'))
        for _, x in ents[:-6]: os.remove(os.path.join(CACHE, x))
    finally:
        shutil.rmtree(wd, ignore_errors=True)
    return lib


def run_driver(source_text, args=(), repo=None, defines=None, sanitize=False, timeout=120, stdin=None):
    """compile a C++ driver against the current tree (private members reachable) and run it.
    returns (exit code, stdout+stderr)"""
    repo = repo or frontend.REPO
    lib = build_lib(repo, defines, sanitize)
    wd = tempfile.mkdtemp(prefix='verif_drv_')
    try:
        src = os.path.join(wd, 'driver.cpp'); exe = os.path.join(wd, 'driver')
        open(src, 'w').write(source_text)
        extra = ['-fno-access-control'] + (['-fsanitize=address,undefined', '-fno-omit-frame-pointer'] if sanitize else [])
        p = subprocess.run(['g++'] + cxxflags(repo, dict(defines or {}, SIMUCELL3D_VERIF=1), extra) + [src, lib, '-o', exe], capture_output=True, text=True)
        if p.returncode != 0:
            return 125, 'driver does not compile against the current tree:\n' + p.stderr[-3000:]
        env = dict(os.environ, ASAN_OPTIONS='detect_leaks=0:abort_on_error=0', UBSAN_OPTIONS='print_stacktrace=1')
        def unlimit():
            import resource
            soft, hard = resource.getrlimit(resource.RLIMIT_AS)
            resource.setrlimit(resource.RLIMIT_AS, (hard, hard))
        try:
            r = subprocess.run([exe] + [str(a) for a in args], capture_output=True, text=True, timeout=timeout, env=env, input=stdin, preexec_fn=unlimit)
            out = (r.stdout + r.stderr)[-6000:]
            if 'ReserveShadowMemoryRange failed' in out or 'failed to allocate' in out and 'AddressSanitizer' in out and r.returncode < 0:
                return 125, 'the sanitizer build could not start (address-space limit):\n' + out
            return r.returncode, out
        except subprocess.TimeoutExpired:
            return 124, 'driver timed out'
    finally:
        shutil.rmtree(wd, ignore_errors=True)
