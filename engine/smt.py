"""Discharging obligations: SMT-LIB export, solver portfolio (z3 5.1 / z3 4.8.12 / cvc5 1.0.3), model extraction."""
import z3, subprocess, tempfile, os, time, re, concurrent.futures, itertools
from symex import Obligation
from values import QForall
from values import is_z3

SOLVERS = {
    'z3-5.1.0': lambda f, t: ['z3-new', '-T:%d' % t, f],
    'z3-4.8.12': lambda f, t: ['z3', '-T:%d' % t, f],
    'cvc5-1.0.3': lambda f, t: ['cvc5', '--tlimit=%d' % (t * 1000), '--produce-models', f],
}
_skolem = itertools.count()
AXIOMATIZER = None       # set by the engine: object-identity axioms for the elem/sub terms of a query


def collect_index_terms(exprs, limit=40):
    """Int-sorted terms used as array indices / UF arguments: instantiation candidates for lazy quantifiers"""
    seen = set(); out = []; outids = set()

    def add(t):
        if z3.is_int(t) and t.get_id() not in outids and not z3.is_int_value(t):
            outids.add(t.get_id()); out.append(t)

    def walk(e):
        if e.get_id() in seen: return
        seen.add(e.get_id())
        if z3.is_app(e):
            k = e.decl().kind()
            if k == z3.Z3_OP_SELECT or k == z3.Z3_OP_STORE:
                add(e.arg(1))
            elif k == z3.Z3_OP_UNINTERPRETED and e.num_args() > 0 and e.decl().name() == 'elem':
                add(e.arg(1))
            for c in e.children(): walk(c)
    for e in exprs:
        if is_z3(e): walk(e)
    return out[:limit]


def const_ids(e, memo):
    k = e.get_id()
    if k in memo: return memo[k]
    out = set(); seen = set(); st = [e]
    while st:
        x = st.pop()
        if x.get_id() in seen: continue
        seen.add(x.get_id())
        if z3.is_app(x) and x.num_args() == 0 and x.decl().kind() == z3.Z3_OP_UNINTERPRETED: out.add(x.get_id())
        st.extend(x.children())
    memo[k] = out
    return out


_cid_memo = {}


def expand(ob, extra_terms=(), relevant=False, rounds=1):
    """quantifier-free hypothesis list and negated goal for an obligation (memoised per obligation).
    rounds=2: the universal facts are instantiated a second time at the index terms their first instances brought in (a 'sat'
    answer of the instantiated problem is only as good as the instantiation is complete)"""
    key_ = ('expand', bool(relevant), tuple(t.get_id() for t in extra_terms), len(ob.hyps), rounds)
    cache = ob.__dict__.setdefault('_expand_cache', {})
    if key_ not in cache: cache[key_] = _expand(ob, extra_terms, relevant, rounds)
    h, g = cache[key_]
    return list(h), g


def _expand(ob, extra_terms=(), relevant=False, rounds=1):
    """quantifier-free hypothesis list and negated goal for an obligation.
    relevant=True keeps only the hypotheses in the cone of influence of the goal (a weakening: sound for 'unsat')"""
    hyps = []; qs = []
    for p in ob.pc + list(ob.hyps):
        if isinstance(p, QForall): qs.append(p)
        else: hyps.append(p)
    goal = ob.goal
    sk = []
    if isinstance(goal, QForall):
        ks = [z3.Int('sk!%d' % next(_skolem)) for _ in range(goal.arity)]
        sk = ks
        goal = goal.fn(*ks)
    if relevant or qs:
        S = set(const_ids(goal, _cid_memo))
        hc = [const_ids(h, _cid_memo) for h in hyps]
        qc = [set(s_.get_id() for s_ in q.syms) for q in qs]
        keep = [False] * len(hyps); keepq = [not q.syms for q in qs]
        changed = True
        while changed:
            changed = False
            for i, c in enumerate(hc):
                if not keep[i] and (c & S or not c):
                    keep[i] = True
                    if c - S: S |= c; changed = True
            for i, c in enumerate(qc):
                if not keepq[i] and c & S:
                    keepq[i] = True; changed = True
                    # a quantified fact links its symbols with whatever its body mentions: instantiate once to find out
                    try:
                        probe = qs[i].fn(*[z3.Int('probe!%d' % j) for j in range(qs[i].arity)])
                        S |= const_ids(probe, _cid_memo)
                    except Exception:
                        pass
        if relevant: hyps = [h for h, k_ in zip(hyps, keep) if k_]
        qs = [q for q, k_ in zip(qs, keepq) if k_]     # quantified facts outside the cone of influence are never instantiated
    if qs:
        terms = list(sk) + list(extra_terms) + list(ob.info.get('inst', []))
        terms += collect_index_terms(hyps + [goal])
        uniq = []; ids = set()
        for t in terms:
            if t.get_id() not in ids: ids.add(t.get_id()); uniq.append(t)
        inst = []
        for q in qs:
            if q.arity == 1:
                for t in uniq: inst.append(q.fn(t))
            else:
                for tup in itertools.product(uniq[:12], repeat=q.arity): inst.append(q.fn(*tup))
        hyps = hyps + inst
        if rounds > 1:
            more = [t for t in collect_index_terms(inst, limit=120) if t.get_id() not in ids][:60]
            for t in more: ids.add(t.get_id())
            for q in qs:
                if q.arity == 1:
                    for t in more: hyps.append(q.fn(t))
                else:
                    pool = (uniq[:8] + more[:8])
                    for tup in itertools.product(pool, repeat=q.arity):
                        if any(x.get_id() in set(m.get_id() for m in more[:8]) for x in tup): hyps.append(q.fn(*tup))
        ob.__dict__['quantified'] = True
        if AXIOMATIZER is not None:
            hyps = hyps + AXIOMATIZER(hyps + [goal])
    elif AXIOMATIZER is not None and sk:
        hyps = hyps + AXIOMATIZER(hyps + [goal])
    return hyps, goal


def expand_native(ob):
    """hypotheses with the lazily instantiated universal facts turned into solver-level quantifiers (E-matching / MBQI decide
    the instances); the goal is skolemised. Only an 'unsat' answer is used."""
    hyps = []
    nq = 0
    for p in ob.pc + list(ob.hyps):
        if isinstance(p, QForall):
            vs = [z3.Int('q!%d!%d' % (nq, j)) for j in range(p.arity)]
            nq += 1
            body = p.fn(*vs)
            if z3.is_true(body): continue
            hyps.append(z3.ForAll(vs, body))
        else:
            hyps.append(p)
    goal = ob.goal
    if isinstance(goal, QForall):
        ks = [z3.Int('sk!%d' % next(_skolem)) for _ in range(goal.arity)]
        goal = goal.fn(*ks)
    if AXIOMATIZER is not None and nq:
        hyps = hyps + AXIOMATIZER(hyps + [goal], quantified=True) + AXIOMATIZER([h for h in hyps if not z3.is_quantifier(h)] + [goal])
    return hyps, goal, nq


_IMUL = None; _RMUL = None; _RDIV = None


def abstract_nl(exprs, reals=True):
    """replace non-linear products (and divisions by non-constants) by uninterpreted functions (sound for validity: every
    model of the original formulas is a model of the abstraction with the functions read as multiplication / division)"""
    global _IMUL, _RMUL, _RDIV
    if _IMUL is None:
        _IMUL = z3.Function('imul', z3.IntSort(), z3.IntSort(), z3.IntSort())
        _RMUL = z3.Function('rmul', z3.RealSort(), z3.RealSort(), z3.RealSort())
        _RDIV = z3.Function('rdiv', z3.RealSort(), z3.RealSort(), z3.RealSort())
    memo = {}

    def isnum(c):
        return z3.is_int_value(c) or z3.is_rational_value(c)

    def flat(t, isint):
        """(numeric coefficient as a z3 numeral product list, atoms) of an already rebuilt term seen as a product"""
        if isnum(t): return [t], []
        if z3.is_app(t):
            d = t.decl()
            if d.kind() == z3.Z3_OP_MUL or d.eq(_IMUL) or d.eq(_RMUL):
                ns, at = [], []
                for c in t.children():
                    n2, a2 = flat(c, isint); ns += n2; at += a2
                return ns, at
            if d.kind() == z3.Z3_OP_UMINUS:
                n2, a2 = flat(t.arg(0), isint)
                return [z3.IntVal(-1) if isint else z3.RealVal(-1)] + n2, a2
        return [], [t]

    def rb(e):
        k = e.get_id()
        if k in memo: return memo[k]
        if not z3.is_app(e) or e.num_args() == 0:
            memo[k] = e; return e
        ch = [rb(c) for c in e.children()]
        kind = e.decl().kind()
        if kind == z3.Z3_OP_MUL and (z3.is_int(e) or (reals and z3.is_real(e))):
            isint = z3.is_int(e)
            nums, syms = [], []
            for c in ch:
                n2, a2 = flat(c, isint); nums += n2; syms += a2
            syms = sorted(syms, key=lambda t: t.get_id())
            if len(syms) >= 2:
                f = _IMUL if isint else _RMUL
                acc = syms[0]
                for t in syms[1:]: acc = f(acc, t)
                if nums:
                    coef = nums[0]
                    for c in nums[1:]: coef = coef * c
                    acc = z3.simplify(coef) * acc
                memo[k] = acc; return acc
        if kind == z3.Z3_OP_DIV and reals and z3.is_real(e) and not isnum(ch[1]):
            r = _RDIV(ch[0], ch[1]); memo[k] = r; return r
        try:
            r = e.decl()(*ch)
        except Exception:
            r = e
        memo[k] = r
        return r
    return [rb(e) for e in exprs]


def generalize(exprs):
    """replace maximal arithmetic subterms that occur at least twice by fresh constants (generalisation: if the result is
    valid so is the original, since the fresh constants range over all values the subterms can take)"""
    count = {}
    seen_parent = set()

    def walk(e, parent_id):
        if not z3.is_app(e): return
        k = e.get_id()
        if (z3.is_real(e) or z3.is_int(e)) and e.num_args() > 0 and e.decl().kind() in (z3.Z3_OP_ADD, z3.Z3_OP_SUB, z3.Z3_OP_MUL, z3.Z3_OP_DIV, z3.Z3_OP_UMINUS):
            if (k, parent_id) not in seen_parent:
                seen_parent.add((k, parent_id)); count[k] = count.get(k, 0) + 1
        if (k, 'visited') in seen_parent: return
        seen_parent.add((k, 'visited'))
        for c in e.children(): walk(c, k)
    for i, e in enumerate(exprs): walk(e, ('root', i))
    memo = {}; fresh = {}

    def rb(e):
        k = e.get_id()
        if k in memo: return memo[k]
        if not z3.is_app(e) or e.num_args() == 0:
            memo[k] = e; return e
        if count.get(k, 0) >= 2 and e.num_args() > 0:
            if k not in fresh: fresh[k] = z3.Const('gen!%d' % k, e.sort())
            memo[k] = fresh[k]; return fresh[k]
        try:
            r = e.decl()(*[rb(c) for c in e.children()])
        except Exception:
            r = e
        memo[k] = r
        return r
    return [rb(e) for e in exprs]


def to_smt2(hyps, goal, get_values=()):
    s = z3.Solver()
    for h in hyps: s.add(h)
    s.add(z3.Not(goal))
    txt = s.to_smt2()
    txt = txt.replace('(check-sat)', '')
    out = '(set-logic ALL)\n(set-option :produce-models true)\n' + txt + '\n(check-sat)\n'
    if get_values:
        # only terms whose symbols are declared in this query can be asked for
        declared = set()
        seen = set()
        def walk(x):
            if x.get_id() in seen: return
            seen.add(x.get_id())
            if z3.is_const(x) and x.decl().kind() == z3.Z3_OP_UNINTERPRETED: declared.add(x.get_id())
            for c in x.children(): walk(c)
        for h in list(hyps) + [goal]: walk(h)
        def ok(t):
            s2 = set(); st = [t]
            while st:
                x = st.pop()
                if z3.is_const(x) and x.decl().kind() == z3.Z3_OP_UNINTERPRETED and x.get_id() not in declared: return False
                st.extend(x.children())
            return True
        gv = [t for t in get_values if ok(t)]
        if gv: out += '(get-value (%s))\n' % ' '.join(t.sexpr() for t in gv)
    return out


def run_solver(name, text, timeout, workdir):
    fd, path = tempfile.mkstemp(suffix='.smt2', dir=workdir)
    with os.fdopen(fd, 'w') as f: f.write(text)
    t0 = time.time()
    try:
        p = subprocess.run(SOLVERS[name](path, timeout), capture_output=True, text=True, timeout=timeout + 5,
                           preexec_fn=lambda: __import__('resource').setrlimit(__import__('resource').RLIMIT_AS, (6 << 30, 6 << 30)))
        out = p.stdout.strip()
    except subprocess.TimeoutExpired:
        out = 'timeout'
    finally:
        try: os.remove(path)
        except OSError: pass
    dt = time.time() - t0
    first = out.split('\n', 1)[0].strip() if out else 'unknown'
    if first not in ('sat', 'unsat'): first = 'unknown'
    return first, out, dt


def parse_values(out):
    """parse the (get-value ...) answer into {sexpr-of-term: python Fraction/int/bool}"""
    from fractions import Fraction
    res = {}
    txt = out.split('\n', 1)[1] if '\n' in out else ''
    # tokenise
    toks = re.findall(r'\|[^|]*\||[()]|[^\s()]+', txt)
    pos = [0]

    def parse():
        t = toks[pos[0]]; pos[0] += 1
        if t == '(':
            l = []
            while toks[pos[0]] != ')': l.append(parse())
            pos[0] += 1
            return l
        return t

    def val(x):
        if isinstance(x, str):
            if x == 'true': return True
            if x == 'false': return False
            try: return Fraction(x)
            except Exception: return x
        if len(x) == 2 and x[0] == '-': return -val(x[1])
        if len(x) == 3 and x[0] == '/': return Fraction(val(x[1])) / Fraction(val(x[2]))
        if len(x) == 3 and x[0] == 'root-obj': return 'algebraic'
        return x

    def show(x):
        if isinstance(x, str): return x
        return '(' + ' '.join(show(y) for y in x) + ')'
    try:
        if not toks: return res
        top = parse()
        for pair in top:
            if isinstance(pair, list) and len(pair) == 2:
                res[show(pair[0])] = val(pair[1])
    except Exception:
        pass
    return res


def export_one(ob, get_values=()):
    """z3's Python API is not thread-safe: exporting happens sequentially in the main thread"""
    t0 = time.time()
    ob.smt2 = None
    try:
        hyps, goal = expand(ob)
        gs = z3.simplify(goal)
        if z3.is_true(gs):
            ob.status = 'unsat'; ob.backend = 'simplifier'; ob.time = time.time() - t0; return ob
        ob.smt2 = to_smt2(hyps, goal, get_values)
    except Exception as ex:
        ob.status = 'error'; ob.detail = 'export: %r' % (ex,); ob.time = time.time() - t0
    return ob


def solve_one(ob, workdir, plan, has_values=False):
    """plan: [(solver, timeout_s)] tried in order until sat/unsat (no z3 API calls in here)"""
    if ob.smt2 is None: return ob
    t0 = time.time()
    tried = []
    for (name, tmo) in plan:
        r, out, dt = run_solver(name, ob.smt2, tmo, workdir)
        tried.append('%s:%s:%.2fs' % (name, r, dt))
        if r in ('sat', 'unsat'):
            ob.status = r; ob.backend = name; ob.detail = ' '.join(tried); ob.time += time.time() - t0
            if r == 'sat':
                ob.model_text = out
                ob.model = parse_values(out) if has_values else {}
            return ob
    ob.status = 'unknown'; ob.detail = ' '.join(tried); ob.time += time.time() - t0
    return ob


QUICK_PLAN = [('z3-5.1.0', 10), ('cvc5-1.0.3', 20), ('z3-4.8.12', 20), ('z3-5.1.0', 60)]
THOROUGH_PLAN = [('z3-5.1.0', 30), ('cvc5-1.0.3', 60), ('z3-4.8.12', 60), ('z3-5.1.0', 600)]


def solve_all(obs, tier='quick', jobs=16, values_for=None):
    plan = QUICK_PLAN if tier == 'quick' else THOROUGH_PLAN
    wd = tempfile.mkdtemp(prefix='verif_smt_')
    try:
        with concurrent.futures.ThreadPoolExecutor(max_workers=jobs) as ex:
            for ob in obs: export_one(ob, (values_for(ob) if values_for else ()))
            futs = [ex.submit(solve_one, ob, wd, plan, bool(values_for)) for ob in obs]
            for f in futs: f.result()
    finally:
        import shutil; shutil.rmtree(wd, ignore_errors=True)
    return obs


def cross_check(ob, workdir, timeout=60):
    """thorough tier: run the remaining back ends on an already decided obligation; returns {solver: result}"""
    res = {}
    for name in SOLVERS:
        if name == ob.backend: continue
        r, out, dt = run_solver(name, ob.smt2, timeout, workdir)
        res[name] = (r, dt)
    return res
