"""Equational back end: goals that are polynomial identities modulo polynomial hypotheses (ideal membership), decided with
sympy (exact rational arithmetic).  Sound: if  goal_lhs - goal_rhs  reduces to 0 modulo a Groebner basis of the
hypothesis equalities, the goal equality follows from them in every commutative ring, in particular over the reals.
Only 'proved' is ever reported; a failure says nothing."""
import z3, sympy, itertools, time, signal
from fractions import Fraction


class NotPoly(Exception):
    pass


class Conv:
    def __init__(self):
        self.atoms = {}      # z3 term id -> sympy symbol
        self.n = 0
        self.memo = {}

    def atom(self, e):
        k = e.get_id()
        if k not in self.atoms:
            self.atoms[k] = sympy.Symbol('a%d' % self.n); self.n += 1
        return self.atoms[k]

    def poly(self, e):
        k = e.get_id()
        if k in self.memo: return self.memo[k]
        r = self._poly(e)
        self.memo[k] = r
        return r

    def _poly(self, e):
        if z3.is_rational_value(e):
            return sympy.Rational(e.numerator_as_long(), e.denominator_as_long())
        if z3.is_int_value(e):
            return sympy.Integer(e.as_long())
        if not z3.is_app(e): raise NotPoly()
        k = e.decl().kind()
        ch = e.children()
        if k == z3.Z3_OP_ADD: return sum((self.poly(c) for c in ch), sympy.Integer(0))
        if k == z3.Z3_OP_SUB:
            r = self.poly(ch[0])
            for c in ch[1:]: r = r - self.poly(c)
            return r
        if k == z3.Z3_OP_UMINUS: return -self.poly(ch[0])
        if k == z3.Z3_OP_MUL:
            r = sympy.Integer(1)
            for c in ch: r = r * self.poly(c)
            return r
        if k == z3.Z3_OP_DIV:
            d = ch[1]
            if z3.is_rational_value(d) or z3.is_int_value(d):
                return self.poly(ch[0]) / self.poly(d)
            return self.atom(e)
        if k == z3.Z3_OP_TO_REAL: return self.poly(ch[0])
        if k == z3.Z3_OP_POWER and z3.is_int_value(ch[1]) and ch[1].as_long() >= 0:
            return self.poly(ch[0]) ** ch[1].as_long()
        if k == z3.Z3_OP_ITE: raise NotPoly()
        # uninterpreted constants, selects, UF applications: opaque atoms
        return self.atom(e)


def conjuncts(f):
    if z3.is_and(f):
        out = []
        for c in f.children(): out += conjuncts(c)
        return out
    return [f]


def equalities(hyps, conv):
    gens = []
    for h in hyps:
        for c in conjuncts(h):
            if z3.is_eq(c) and (z3.is_real(c.arg(0)) or z3.is_int(c.arg(0))):
                try:
                    p = sympy.expand(conv.poly(c.arg(0)) - conv.poly(c.arg(1)))
                    if p != 0: gens.append(p)
                except NotPoly:
                    pass
    return gens


class Timeout(Exception):
    pass


def prove_equalities(hyps, goal, budget=20):
    """goal: z3 equality or conjunction of equalities (possibly 'Implies(guard, ...)': the guard joins the hypotheses).
    returns True if proved"""
    extra = []
    g = goal
    while z3.is_implies(g):
        extra += conjuncts(g.arg(0)); g = g.arg(1)
    goals = conjuncts(g)
    if not goals or not all(z3.is_eq(x) and (z3.is_real(x.arg(0)) or z3.is_int(x.arg(0))) for x in goals): return False
    conv = Conv()
    try:
        targets = [sympy.expand(conv.poly(x.arg(0)) - conv.poly(x.arg(1))) for x in goals]
    except NotPoly:
        return False
    if all(t == 0 for t in targets): return True
    gens = equalities(list(hyps) + extra, conv)
    # cone of influence on the generators
    syms = set().union(*[t.free_symbols for t in targets])
    keep = []; changed = True; rest = list(gens)
    while changed:
        changed = False
        for p in list(rest):
            if p.free_symbols & syms:
                keep.append(p); rest.remove(p); syms |= p.free_symbols; changed = True
    if not keep: return False

    def handler(signum, frame): raise Timeout()
    old = signal.signal(signal.SIGALRM, handler)
    signal.alarm(budget)
    try:
        allsyms = sorted(set().union(*[p.free_symbols for p in keep + targets]), key=lambda s: s.name)
        # cheap attempt: plain multivariate division by the generators (often enough: definitions + cache invariants)
        ok = True
        for t in targets:
            if t == 0: continue
            _, r = sympy.reduced(t, keep, *allsyms, order='grevlex')
            if r != 0: ok = False; break
        if ok: return True
        G = sympy.groebner(keep, *allsyms, order='grevlex')
        for t in targets:
            if t == 0: continue
            _, r = G.reduce(t)
            if r != 0: return False
        return True
    except Timeout:
        return False
    except Exception:
        return False
    finally:
        signal.alarm(0); signal.signal(signal.SIGALRM, old)
