"""Engine R: symbolic execution of the clang AST of /repo's functions, producing proof obligations.

Semantics in one paragraph: double/float -> Real, integral types -> Int (+ range obligations where enabled),
objects of "heap classes" live in a Boogie-style heap (one SMT array per leaf field, keyed by an integer object
reference), small value classes (vec3, mat33, pair, array, optional ...) are immutable records of terms,
containers are objects with ghost length / content arrays, control flow is executed path-wise with ite-merging
at joins, loops need a contract (or a constant trip count), calls are inlined from the callee's own AST unless
the spec asks for the callee's contract.
"""
import z3, itertools, fractions
from values import *
import ty as TY
from ty import T

I = z3.IntSort(); R = z3.RealSort(); B = z3.BoolSort()

VALUE_CLASSES = {'vec3', 'mat33', 'quaternion', 'edge', 'oriented_point', 'face_area_pair'}

FN_KINDS = ('CXXMethodDecl', 'CXXConstructorDecl', 'FunctionDecl', 'CXXDestructorDecl', 'CXXConversionDecl')


class Obligation:
    def __init__(self, name, pc, goal, kind='ensures', where=None, hyps=(), info=None):
        self.name = name; self.pc = list(pc); self.goal = goal; self.kind = kind; self.where = where
        self.hyps = list(hyps); self.info = info or {}
        self.status = None; self.backend = None; self.time = 0.0; self.model = None; self.detail = ''


class Frame:
    __slots__ = ('fn', 'this', 'qname', 'depth', 'loop_ord', 'ret_ty', 'closure_env')

    def __init__(self, fn, this, qname, depth):
        self.fn = fn; self.this = this; self.qname = qname; self.depth = depth; self.loop_ord = None; self.ret_ty = None
        self.closure_env = None


class Engine:
    SHARED_UFS = {}
    SHARED_TAGS = {}
    def __init__(self, ast, specs=None, safety=()):
        self.ast = ast
        self.specs = specs            # registry (spec.Registry) or None
        self.safety = set(safety)     # enabled safety obligation kinds
        import smt as _smt
        _smt.AXIOMATIZER = self.structural_axioms
        self.obligations = []
        self.nfresh = itertools.count()
        self.base_arrays = {}
        self.axioms_done = set()
        # shared by every engine of the process (one per compile-time configuration): the prover adds the object-identity axioms of a query
        # through whichever engine was created last, so the numbering of the container kinds must not depend on the engine
        self.ufs = Engine.SHARED_UFS
        self.tags = Engine.SHARED_TAGS
        self.layout_cache = {}
        self.loop_ord_cache = {}
        self.models_used = set()
        self.fns_executed = set()
        self.alloc = itertools.count(1)
        self.qfacts = []              # global lazily-instantiated facts
        self.contracts_used = set()
        self._alias_cache = {}
        self.class_ids = {}
        self.global_cache = {}
        self.axiom_ids = set()        # ids of valid facts (UF inverse axioms, ghost lengths >= 0, definitional equations of fresh symbols)
        self.use_contracts = {}       # qname -> contract (set by the driver for the function under check)
        self.max_depth = 14
        self.unroll_limit = 8
        self.trace = False
        self.var_names = {}
        self.current_top = None
        self.stop_at_loop = None; self.stopped_states = []
        self.unroll_symbolic = 0      # >0: loops without contract may be unwound this many times with an unwinding obligation
        self.split_heap_ifs = False   # top-level function: do not merge branches that wrote different heap contents
        self.lazy_locals = False      # slice mode: unbound outer variables get arbitrary values on first use
        self.name_locals = 0          # depth up to which scalar locals become named symbols with a defining equation
        self.def_eqs = {}             # id of defining equation -> (symbol, expression, local name)
        import models
        self.models = models.Models(self)

    # ------------------------------------------------------------------ fresh things
    def fresh(self, name, sort):
        return z3.Const('%s!%d' % (name, next(self.nfresh)), sort)

    def sort_of(self, t):
        if t.kind == 'real': return R
        if t.kind == 'bool': return B
        if t.kind in ('int', 'enum', 'ptr', 'string'): return I
        raise Unsupported('no scalar sort for type %r' % (t,))

    def uf(self, name, *sorts):
        if name not in self.ufs:
            self.ufs[name] = z3.Function(name, *sorts)
        return self.ufs[name]

    def tag_of(self, name):
        if name not in self.tags: self.tags[name] = len(self.tags) + 1
        return self.tags[name]

    def structural_axioms(self, exprs, quantified=False):
        """the theory of object identity for the terms of a query: elem(v,i) and sub:key(r) are injective (inverse functions),
        positive, tagged by their kind, and belong to the same outermost object as their owner. Terms built while a quantified
        clause is instantiated get their axioms here (the state they were built in is gone by then)."""
        fv = self.uf('elem_v', I, I); fi = self.uf('elem_i', I, I); tg = self.uf('tag', I, I); elem = self.uf('elem', I, I, I)
        out = []
        if quantified:
            a, b = z3.Int('ax!v'), z3.Int('ax!i')
            t = elem(a, b)
            out.append(z3.ForAll([a, b], z3.And(fv(t) == a, fi(t) == b, t > 0, tg(t) == 1, self.uf('root', I, I)(t) == z3.If(a < 0, a, self.uf('root', I, I)(a))), patterns=[t]))
            if 'ekey' in self.ufs:
                t = self.ufs['ekey'](a, b)
                out.append(z3.ForAll([a, b], z3.And(self.uf('ekey_1', I, I)(t) == a, self.uf('ekey_2', I, I)(t) == b), patterns=[t]))
            for name, f in list(self.ufs.items()):
                if not name.startswith('sub:'): continue
                key = name[4:]
                finv = self.uf('subinv:' + key, I, I)
                t = f(a)
                out.append(z3.ForAll([a], z3.And(finv(t) == a, t > 0, tg(t) == self.tag_of(key) + 1, self.uf('root', I, I)(t) == z3.If(a < 0, a, self.uf('root', I, I)(a))), patterns=[t]))
            return out
        seen = set(); done = set()
        def walk(e):
            if e.get_id() in seen: return
            seen.add(e.get_id())
            if z3.is_quantifier(e):
                return
            if z3.is_app(e):
                for c in e.children(): walk(c)
                d = e.decl()
                if d.kind() == z3.Z3_OP_UNINTERPRETED and e.num_args() > 0:
                    nm = d.name()
                    if nm == 'elem' and e.get_id() not in done:
                        done.add(e.get_id())
                        out.append(z3.And(fv(e) == e.arg(0), fi(e) == e.arg(1), e > 0, tg(e) == 1, self.root_of(e) == self.root_of(e.arg(0))))
                    elif nm == 'ekey' and e.get_id() not in done:
                        done.add(e.get_id())
                        out.append(z3.And(self.uf('ekey_1', I, I)(e) == e.arg(0), self.uf('ekey_2', I, I)(e) == e.arg(1)))
                    elif nm.startswith('sub:') and e.get_id() not in done:
                        done.add(e.get_id())
                        key = nm[4:]
                        out.append(z3.And(self.uf('subinv:' + key, I, I)(e) == e.arg(0), e > 0, tg(e) == self.tag_of(key) + 1, self.root_of(e) == self.root_of(e.arg(0))))
        for e in exprs:
            if isinstance(e, z3.ExprRef): walk(e)
        return out

    def axiom_once(self, st, term, mk):
        """add axioms about a freshly built UF application once per state lineage (by term identity)"""
        k = term.get_id()
        ax = mk()
        if not isinstance(ax, (list, tuple)): ax = [ax]
        for a in ax:
            kk = (k, a.get_id())
            present = any(p is a or (is_z3(p) and p.get_id() == a.get_id()) for p in st.pc[-60:])
            self.axiom_ids.add(a.get_id())
            if not present: st.pc.append(a)

    def elem_ref(self, st, vref, idx):
        f = self.uf('elem', I, I, I); fv = self.uf('elem_v', I, I); fi = self.uf('elem_i', I, I); tg = self.uf('tag', I, I)
        t = f(vref, idx)
        self.axiom_once(st, t, lambda: [z3.And(fv(t) == vref, fi(t) == idx, t > 0, tg(t) == 1, self.root_of(t) == self.root_of(vref))])
        return t

    def root_of(self, ref):
        """the outermost object a (sub-)object belongs to: objects created by the function under analysis have negative
        roots, the objects passed in have positive roots; so parts of locals never alias parts of the inputs"""
        if z3.is_int_value(ref) and ref.as_long() < 0: return ref
        return self.uf('root', I, I)(ref)

    def sub_ref(self, st, key, ref):
        f = self.uf('sub:' + key, I, I); finv = self.uf('subinv:' + key, I, I); tg = self.uf('tag', I, I)
        t = f(ref)
        k = self.tag_of(key) + 1
        self.axiom_once(st, t, lambda: [z3.And(finv(t) == ref, t > 0, tg(t) == k, self.root_of(t) == self.root_of(ref))])
        return t

    @property
    def modular(self):
        # contract option (listed with the safety kinds): integer conversions and unsigned arithmetic are modulo 2^N
        return 'modular' in self.safety

    def new_object(self):
        return z3.IntVal(-next(self.alloc))

    # ------------------------------------------------------------------ class layout
    def is_value_class(self, name):
        return name in VALUE_CLASSES

    def record(self, name):
        r = self.ast.records.get(name)
        if r is None:
            base = name.split('<')[0]
            for s in self.ast.specializations.get(base, []):
                if self.ast.record_display_name(s).replace(' ', '') == name.replace(' ', ''):
                    return s
            raise Unsupported('unknown record type %s' % name)
        return r

    def layout(self, name):
        """[(field name, T, declaring class name, FieldDecl)] including inherited fields (bases first)"""
        if name in self.layout_cache: return self.layout_cache[name]
        r = self.record(name)
        out = []
        for b in self.ast.bases_of(r):
            bt = TY.parse(b)
            if bt.kind == 'record' and bt.name and not bt.name.startswith('std::'):
                try: out += self.layout(bt.name)
                except Unsupported: pass
        for f in self.ast.fields_of(r):
            ft = TY.of_node(f)
            if ft.kind == 'record' and ft.name in ('omp_lock_t', 'omp_nest_lock_t'): continue     # no state any property reads
            if ft.kind == 'lambda': continue      # std::function members: their targets are resolved at the call sites that use them
            out.append((f['name'], ft, name, f))
        self.layout_cache[name] = out
        return out

    def bases_closure(self, name):
        out = [name]
        try: r = self.record(name)
        except Unsupported: return out
        for b in self.ast.bases_of(r):
            bt = TY.parse(b)
            if bt.kind == 'record' and bt.name:
                out += self.bases_closure(bt.name)
        return out

    def field_decl_class(self, field_id):
        p = self.ast.parent.get(field_id)
        if p is None: raise Unsupported('field without parent record')
        return self.ast.record_display_name(p)

    # ------------------------------------------------------------------ heap
    def base_array(self, key, sort=None):
        if key not in self.base_arrays:
            if sort is None:
                try: sort = z3.ArraySort(I, self.key_sort(key))
                except Exception: raise Unsupported('heap key %s used before its sort is known' % key)
            self.base_arrays[key] = z3.Const(key + '!0', sort)
        return self.base_arrays[key]

    def base_for(self, key, st):
        ep = st.ghost.get('epoch', 0)
        name = key if not ep else '%s@%d' % (key, ep)
        if name not in self.base_arrays:
            if key not in self.base_arrays: raise Unsupported('heap key %s used before its sort is known' % key)
            self.base_arrays[name] = z3.Const(name + '!0', self.base_arrays[key].sort())
        return self.base_arrays[name]

    def harr(self, st, key, sort=None):
        a = st.heap.get(key)
        if a is None:
            self.base_array(key, sort)
            a = self.base_for(key, st); st.heap[key] = a
        return a

    def havoc_all(self, st):
        """the callee may have written anything reachable: every heap array becomes unknown"""
        st.ghost['epoch'] = next(self.nfresh) + 1
        for key in list(st.heap):
            st.heap[key] = self.base_for(key, st)

    def hread(self, st, key, ref, rng):
        a = self.harr(st, key, z3.ArraySort(I, rng))
        return self.read_array(st, a, ref)

    # read-over-write simplification: select(store(A,i,v), j) is resolved when i,j are identical or provably distinct under
    # the path condition (small solver query, non-linear products abstracted); otherwise the select is left symbolic
    def read_array(self, st, a, idx, depth=0):
        if depth > 40 or not z3.is_app(a): return z3.Select(a, idx)
        k = a.decl().kind()
        if k == z3.Z3_OP_STORE:
            i = a.arg(1)
            if i.eq(idx): return a.arg(2)
            if self.provably_distinct(st, i, idx): return self.read_array(st, a.arg(0), idx, depth + 1)
            if self.provably_equal(st, i, idx): return a.arg(2)
            return z3.Select(a, idx)
        if k == z3.Z3_OP_ITE:
            return z3.If(a.arg(0), self.read_array(st, a.arg(1), idx, depth + 1), self.read_array(st, a.arg(2), idx, depth + 1))
        return z3.Select(a, idx)

    def alias_solver(self, st):
        ids = [p.get_id() for p in st.pc if is_z3(p)]
        c = self._alias_cache
        import smt
        have = c.get('ids')
        if have is not None and len(ids) >= len(have) and ids[:len(have)] == have:
            new = [p for p in st.pc if is_z3(p)][len(have):]
            if new:
                try: ab = smt.abstract_nl(new)
                except Exception: ab = new
                for h in ab: c['solver'].add(h)
                c['ids'] = ids
                c['memo'] = {k: v for k, v in c['memo'].items() if v}      # facts proved stay proved when hypotheses are added
            return c['solver'], c['memo']
        s = z3.Solver(); s.set('timeout', 400)
        hy = [p for p in st.pc if is_z3(p)]
        try:
            for h in smt.abstract_nl(hy): s.add(h)
        except Exception:
            for h in hy: s.add(h)
        c.clear(); c['ids'] = ids; c['solver'] = s; c['memo'] = {}
        return c['solver'], c['memo']

    def provably_distinct(self, st, i, j):
        if z3.is_int_value(i) and z3.is_int_value(j): return i.as_long() != j.as_long()
        s, memo = self.alias_solver(st)
        k = ('d', i.get_id(), j.get_id())
        if k not in memo:
            s.push(); s.add(i == j); r = s.check(); s.pop()
            memo[k] = (r == z3.unsat)
        return memo[k]

    def provably_equal(self, st, i, j):
        s, memo = self.alias_solver(st)
        k = ('e', i.get_id(), j.get_id())
        if k not in memo:
            s.push(); s.add(i != j); r = s.check(); s.pop()
            memo[k] = (r == z3.unsat)
        return memo[k]

    def hwrite(self, st, key, ref, val):
        a = self.harr(st, key, z3.ArraySort(I, val.sort()))
        rs = a.sort().range()
        if rs == R and z3.is_int(val): val = z3.ToReal(val)
        st.heap[key] = z3.Store(a, ref, val)

    def leaves(self, t, prefix=()):
        """leaf scalar paths of a value type: [(path, T)]"""
        if t.is_scalar(): return [(prefix, t)]
        if t.kind == 'record' and self.is_value_class(t.name):
            out = []
            for (fn, ft, _, _) in self.layout(t.name): out += self.leaves(ft.noref(), prefix + (fn,))
            return out
        if t.kind == 'array':
            out = []
            for i in range(t.args[1]): out += self.leaves(t.args[0], prefix + (str(i),))
            return out
        if t.kind == 'pair':
            return self.leaves(t.args[0], prefix + ('first',)) + self.leaves(t.args[1], prefix + ('second',))
        if t.kind == 'optional':
            return [(prefix + ('has',), TY.parse('bool'))] + self.leaves(t.args[0], prefix + ('value',))
        raise Unsupported('type %r has no value layout' % (t,))

    def is_value_type(self, t):
        if t.is_scalar(): return True
        if t.kind == 'record': return self.is_value_class(t.name)
        if t.kind in ('array',): return self.is_value_type(t.args[0])
        if t.kind in ('pair',): return self.is_value_type(t.args[0]) and self.is_value_type(t.args[1])
        if t.kind == 'optional': return self.is_value_type(t.args[0])
        if t.kind == 'tuple': return all(self.is_value_type(a) for a in t.args)
        return False

    def build_value(self, t, leaf_fn, prefix=()):
        """construct a value of value-type t, calling leaf_fn(path, T) for scalars"""
        if t.is_scalar():
            v = leaf_fn(prefix, t)
            return Ptr(v, self.ptr_cls(t)) if t.kind == 'ptr' else v
        if t.kind == 'record' and self.is_value_class(t.name):
            return Rec(t.name, {fn: self.build_value(ft.noref(), leaf_fn, prefix + (fn,)) for (fn, ft, _, _) in self.layout(t.name)})
        if t.kind == 'array':
            return Rec('array', {str(i): self.build_value(t.args[0], leaf_fn, prefix + (str(i),)) for i in range(t.args[1])})
        if t.kind == 'pair':
            return Rec('pair', {'first': self.build_value(t.args[0].noref(), leaf_fn, prefix + ('first',)),
                                'second': self.build_value(t.args[1].noref(), leaf_fn, prefix + ('second',))})
        if t.kind == 'optional':
            return Rec('optional', {'has': leaf_fn(prefix + ('has',), TY.parse('bool')),
                                    'value': self.build_value(t.args[0].noref(), leaf_fn, prefix + ('value',))})
        if t.kind == 'tuple':
            return Rec('tuple', {str(i): self.build_value(a.noref(), leaf_fn, prefix + (str(i),)) for i, a in enumerate(t.args)})
        raise Unsupported('cannot build a value of type %r' % (t,))

    @staticmethod
    def ptr_cls(t):
        return t.args[0].name if t.args and t.args[0].kind == 'record' else (repr(t.args[0]) if t.args else None)

    def fresh_value(self, t, name):
        return self.build_value(t, lambda path, lt: self.fresh(name + ''.join('.' + p for p in path), self.sort_of(lt)))

    def zero_value(self, t):
        def z(path, lt):
            s = self.sort_of(lt)
            return z3.RealVal(0) if s == R else (z3.BoolVal(False) if s == B else z3.IntVal(0))
        return self.build_value(t, z)

    @staticmethod
    def raw(v):
        return v.ref if isinstance(v, Ptr) else v

    def value_leaves(self, v, t, prefix=()):
        """[(path, z3 term)] for a value of value-type t"""
        if t.is_scalar(): return [(prefix, self.raw(v))]
        out = []
        if isinstance(v, Rec):
            if t.kind == 'record': sub = [(fn, ft.noref()) for (fn, ft, _, _) in self.layout(t.name)]
            elif t.kind == 'array': sub = [(str(i), t.args[0]) for i in range(t.args[1])]
            elif t.kind == 'pair': sub = [('first', t.args[0].noref()), ('second', t.args[1].noref())]
            elif t.kind == 'optional': sub = [('has', TY.parse('bool')), ('value', t.args[0].noref())]
            elif t.kind == 'tuple': sub = [(str(i), a.noref()) for i, a in enumerate(t.args)]
            else: raise Unsupported('value_leaves %r' % (t,))
            for fn, ft in sub: out += self.value_leaves(v.f[fn], ft, prefix + (fn,))
            return out
        raise Unsupported('value_leaves of %r for %r' % (type(v), t))

    # sequence containers: ghost length + content
    def vec_len(self, st, vref):
        l = self.hread(st, 'vec.len', vref, I)
        self.axiom_once(st, l, lambda: l >= 0)
        return l

    def vec_data_key(self, ety, path=()):
        if ety.is_scalar():
            s = {'real': 'real', 'bool': 'bool'}.get(ety.kind, 'int')
            return 'vec.data.' + s
        return 'vec.data.' + (ety.name or ety.kind) + ''.join('.' + p for p in path)

    def vec_read(self, st, vref, idx, ety):
        """element value (value types) or element object (heap classes / containers)"""
        if self.is_value_type(ety):
            def leaf(path, lt):
                key = self.vec_data_key(ety if ety.is_scalar() else ety, path) if not ety.is_scalar() else self.vec_data_key(ety)
                arr = self.harr(st, key, z3.ArraySort(I, z3.ArraySort(I, self.sort_of(lt))))
                v = z3.Select(z3.Select(arr, vref), idx)
                if self.modular and lt.kind == 'int':
                    lo, hi = TY.INT_RANGES[lt.name]
                    self.axiom_once(st, v, lambda: [z3.And(v >= lo, v <= hi)])     # an element of type T holds a value of T
                return v
            return self.build_value(ety, leaf)
        return ObjLV(self.elem_ref(st, vref, idx), ety)

    def vec_write(self, st, vref, idx, ety, val):
        if not self.is_value_type(ety): raise Unsupported('element assignment of heap-class type %r' % (ety,))
        for path, term in self.value_leaves(val, ety):
            lt = dict(self.leaves(ety))[path] if not ety.is_scalar() else ety
            key = self.vec_data_key(ety, path) if not ety.is_scalar() else self.vec_data_key(ety)
            srt = self.sort_of(lt)
            if srt == R and z3.is_int(term): term = z3.ToReal(term)
            arr = self.harr(st, key, z3.ArraySort(I, z3.ArraySort(I, srt)))
            st.heap[key] = z3.Store(arr, vref, z3.Store(z3.Select(arr, vref), idx, term))

    # ------------------------------------------------------------------ l-values
    def load(self, st, lv, t=None):
        if isinstance(lv, LocalLV):
            if lv.var not in st.env: raise Unsupported('read of a variable that is not available on this path (%s)' % self.var_names.get(lv.var, lv.var))
            v = st.env[lv.var]
            if isinstance(v, LVS): return self.load(st, v, t) if not lv.path else self.load(st, self.member_lv_path(st, v, lv.path), t)
            return v.get(lv.path) if lv.path else v
        if isinstance(lv, FieldLV):
            def leaf(path, lt):
                key = lv.key + ''.join('.' + p for p in lv.path + path)
                return self.hread(st, key, lv.ref, self.sort_of(lt))
            return self.build_value(lv.ty, leaf)
        if isinstance(lv, ElemLV):
            v = self.vec_read(st, lv.vref, lv.idx, lv.ety)
            return v.get(lv.path) if lv.path else v
        if isinstance(lv, ObjLV):
            return lv
        raise Unsupported('load from %r' % (lv,))

    def store(self, st, lv, val):
        if isinstance(lv, LocalLV):
            cur = st.env.get(lv.var)
            if isinstance(cur, LVS) and not isinstance(cur, ObjLV):
                return self.store(st, cur if not lv.path else self.member_lv_path(st, cur, lv.path), val)
            if lv.path:
                st.env[lv.var] = cur.set(lv.path, val)
            else:
                st.env[lv.var] = val
            return
        if isinstance(lv, FieldLV):
            for path, term in self.value_leaves(val, lv.ty):
                key = lv.key + ''.join('.' + p for p in lv.path + path)
                lt = lv.ty if lv.ty.is_scalar() else dict(self.leaves(lv.ty))[path]
                srt = self.sort_of(lt)
                if srt == R and z3.is_int(term): term = z3.ToReal(term)
                if srt == I and z3.is_real(term): term = z3.ToInt(term)
                a = self.harr(st, key, z3.ArraySort(I, srt))
                st.heap[key] = z3.Store(a, lv.ref, term)
            return
        if isinstance(lv, ElemLV):
            if lv.path:
                cur = self.vec_read(st, lv.vref, lv.idx, lv.ety)
                val = cur.set(lv.path, val)
            self.vec_write(st, lv.vref, lv.idx, lv.ety, val)
            return
        raise Unsupported('store to %r' % (lv,))

    def member_lv_path(self, st, lv, path):
        for p in path: lv = self.member_lv(st, lv, p, None)
        return lv

    def sub_type(self, t, name):
        if t.kind == 'record':
            for (fn, ft, dc, fd) in self.layout(t.name):
                if fn == name: return ft.noref(), dc
            raise Unsupported('no field %s in %s' % (name, t.name))
        if t.kind == 'pair': return (t.args[0] if name == 'first' else t.args[1]).noref(), 'pair'
        if t.kind == 'array': return t.args[0], 'array'
        if t.kind == 'optional': return (TY.parse('bool') if name == 'has' else t.args[0].noref()), 'optional'
        if t.kind == 'tuple': return t.args[int(name)].noref(), 'tuple'
        raise Unsupported('sub_type %r.%s' % (t, name))

    def member_lv(self, st, base, name, decl_cls, base_t=None):
        """l-value of member `name` of the object designated by l-value `base`"""
        if isinstance(base, LocalLV):
            return LocalLV(base.var, base.path + (name,))
        if isinstance(base, FieldLV):
            ft, _ = self.sub_type(base.ty, name)
            return FieldLV(base.ref, base.key, base.path + (name,), ft) if False else FieldLV(base.ref, base.key + ''.join('.' + p for p in ()), base.path + (name,), ft)
        if isinstance(base, ElemLV):
            return ElemLV(base.vref, base.idx, base.ety, base.path + (name,))
        if isinstance(base, ObjLV):
            t = base.ty
            if t.kind != 'record': raise Unsupported('member %s of non-record object %r' % (name, t))
            ft, dc = self.sub_type(t, name)
            if decl_cls: dc = decl_cls
            key = dc + '.' + name
            if self.is_value_type(ft):
                return FieldLV(base.ref, key, (), ft)
            return ObjLV(self.sub_ref(st, key, base.ref), ft)
        raise Unsupported('member of %r' % (base,))

    # FieldLV with nested path: the type stored is that of the addressed sub-value
    # ------------------------------------------------------------------ obligations
    def oblige(self, st, name, goal, kind='safety', where=None, info=None):
        self.obligations.append(Obligation(name, st.pc, goal, kind, where, info=info))

    def safety_on(self, kind):
        return kind in self.safety

    def where(self, n, fr):
        return '%s:%s (%s)' % ((n.get('_file') or '?').replace(self.ast.repo + '/', ''), n.get('_line', '?'), fr.qname if fr else '')

    # ------------------------------------------------------------------ expressions
    def ev(self, n, st, fr):
        """evaluate expression; glvalues yield an l-value object, prvalues a value"""
        k = n['kind']
        m = getattr(self, 'ev_' + k, None)
        if m is None: raise Unsupported('expression kind %s at %s' % (k, self.where(n, fr)))
        return m(n, st, fr)

    def rv(self, n, st, fr):
        v = self.ev(n, st, fr)
        if isinstance(v, LVS) and not isinstance(v, ObjLV):
            return self.load(st, v, TY.of_node(n))
        return v

    def lv(self, n, st, fr):
        v = self.ev(n, st, fr)
        if isinstance(v, LVS): return v
        # a prvalue used where an l-value is needed: materialise
        return self.materialize(st, v, n)

    def materialize(self, st, v, n):
        if isinstance(v, LVS): return v
        key = 'tmp!%d' % next(self.nfresh)
        st.env[key] = v
        return LocalLV(key)

    def passthrough(self, n, st, fr):
        return self.ev(n['inner'][0], st, fr)

    ev_ParenExpr = passthrough
    ev_ExprWithCleanups = passthrough
    ev_CXXBindTemporaryExpr = passthrough
    ev_ConstantExpr = passthrough
    ev_SubstNonTypeTemplateParmExpr = passthrough
    ev_CXXDefaultArgExpr = lambda self, n, st, fr: self.ev(n['inner'][0], st, fr) if n.get('inner') else self.default_arg(n, st, fr)

    def default_arg(self, n, st, fr):
        t = TY.of_node(n)
        if t.kind == 'ptr': return Ptr(z3.IntVal(0), self.ptr_cls(t))
        raise Unsupported('default argument without expression (%r) at %s' % (t, self.where(n, fr)))

    def ev_CXXDefaultInitExpr(self, n, st, fr):
        if n.get('inner'): return self.ev(n['inner'][0], st, fr)
        raise Unsupported('CXXDefaultInitExpr without inner')

    def ev_MaterializeTemporaryExpr(self, n, st, fr):
        v = self.ev(n['inner'][0], st, fr)
        return self.materialize(st, v, n)

    def ev_FloatingLiteral(self, n, st, fr):
        s = n['value']
        try:
            fr_ = fractions.Fraction(float(s))
        except (ValueError, OverflowError):
            raise Unsupported('floating literal %s' % s)
        if float(s) in (float('inf'), float('-inf')): raise Unsupported('infinite literal')
        return z3.RealVal(fr_)

    def ev_IntegerLiteral(self, n, st, fr):
        return z3.IntVal(int(n['value']))

    def ev_CXXBoolLiteralExpr(self, n, st, fr):
        return z3.BoolVal(bool(n['value']))

    def ev_CXXNullPtrLiteralExpr(self, n, st, fr):
        return Ptr(z3.IntVal(0), None)

    def ev_CharacterLiteral(self, n, st, fr):
        return z3.IntVal(int(n['value']))

    def ev_StringLiteral(self, n, st, fr):
        return self.models.str_id(n.get('value'))

    def ev_GNUNullExpr(self, n, st, fr):
        return Ptr(z3.IntVal(0), None)

    def ev_CXXThisExpr(self, n, st, fr):
        if fr.this is None: raise Unsupported('this in a static context')
        return Ptr(fr.this.ref, fr.this.ty.name) if isinstance(fr.this, ObjLV) else Opaque('this', fr.this)

    def ev_DeclRefExpr(self, n, st, fr):
        rd = n['referencedDecl']
        kind = rd.get('kind')
        if kind in ('VarDecl', 'ParmVarDecl', 'BindingDecl', 'DecompositionDecl'):
            vid = rd['id']
            if vid in st.env:
                v = st.env[vid]
                if isinstance(v, LVS):
                    if ('refbind!%s' % vid) in st.ghost: self.check_reference(st, vid, n, fr)
                    return v
                return LocalLV(vid)
            if kind == 'BindingDecl':
                if self.lazy_locals:
                    t = TY.parse(rd['type'].get('desugaredQualType') or rd['type']['qualType']).noref()
                    if self.is_value_type(t):
                        self.var_names[vid] = rd.get('name')
                        st.env[vid] = self.fresh_value(t, 'any.' + rd.get('name', 'b'))
                        return LocalLV(vid)
                raise Unsupported('binding %s not bound' % rd.get('name'))
            if self.lazy_locals and kind in ('VarDecl', 'ParmVarDecl') and rd['id'] in self.ast.by_id and self.is_function_local(rd['id']):
                t = TY.parse(rd['type'].get('desugaredQualType') or rd['type']['qualType'])
                bt = t.noref()
                self.var_names[vid] = rd.get('name')
                if self.is_value_type(bt):
                    st.env[vid] = self.fresh_value(bt, 'any.' + rd.get('name', 'v'))
                    return LocalLV(vid)
                if bt.kind == 'iter' and bt.args and bt.args[0].kind == 'set' and not t.ref:
                    # an arbitrary iterator of a std::set<edge>: any set, any key, end or not (the contract's requires clauses say more)
                    nm_ = 'any.' + rd.get('name', 'it')
                    st.env[vid] = Rec('setiter', {'ref': self.fresh(nm_ + '.set', I), 'key': self.fresh(nm_ + '.key', I), 'end': self.fresh(nm_ + '.end', B)})
                    return LocalLV(vid)
                if not t.ref:
                    # a local variable that is an object of its own: created by this function, hence distinct from every object
                    # reachable from the inputs (fresh objects carry negative references); its contents are arbitrary
                    st.env[vid] = ObjLV(self.new_object(), bt)
                    return st.env[vid]
                r = self.fresh('anyobj.' + rd.get('name', 'v'), I); st.pc.append(r > 0)
                st.env[vid] = ObjLV(r, bt)
                return st.env[vid]
            # global / static / constexpr variable
            return self.global_var(rd, st, fr, n)
        if kind == 'EnumConstantDecl':
            d = self.ast.by_id.get(rd['id'])
            raise Unsupported('enum constant %s' % rd.get('name'))
        if kind in FN_KINDS:
            return Opaque('fnref', rd)
        raise Unsupported('DeclRefExpr to %s %s at %s' % (kind, rd.get('name'), self.where(n, fr)))

    def enclosing_function(self, vid):
        p = self.ast.parent.get(vid)
        while p is not None and p.get('kind') not in FN_KINDS:
            p = self.ast.parent.get(p['id']) if 'id' in p else None
        return p

    def is_function_local(self, vid):
        p = self.ast.parent.get(vid)
        while p is not None and p.get('kind') in ('CapturedDecl', 'DecompositionDecl'):
            p = self.ast.parent.get(p['id'])
        return (p or {}).get('kind') in FN_KINDS

    def global_var(self, rd, st, fr, n):
        d = self.ast.by_id.get(rd['id'])
        name = rd.get('name')
        if d is not None:
            init = [c for c in d.get('inner', []) if c.get('kind', '').endswith(('Expr', 'Literal', 'Operator'))]
            if init and ('const' in d['type']['qualType'] or d.get('constexpr')):
                key = 'glob!' + rd['id']
                if key not in self.global_cache:
                    self.global_cache[key] = self.rv(init[0], st, fr)      # constants: evaluated once, the same term on every path
                st.env[key] = self.global_cache[key]
                return LocalLV(key)
        v = self.models.global_var(name, rd, st)
        if v is not None:
            key = 'glob!' + rd['id']
            st.env[key] = v
            return LocalLV(key)
        raise Unsupported('global variable %s at %s' % (name, self.where(n, fr)))

    def ev_MemberExpr(self, n, st, fr):
        base_n = n['inner'][0]
        name = n['name']
        fid = n.get('referencedMemberDecl')
        fd = self.ast.by_id.get(fid)
        if fd is not None and fd.get('kind') in FN_KINDS:
            raise Unsupported('bound member function used as a value')
        if fd is not None and fd.get('kind') == 'VarDecl':
            return self.global_var({'id': fid, 'name': name}, st, fr, n)
        decl_cls = self.field_decl_class(fid) if fd is not None else None
        if n.get('isArrow'):
            p = self.rv(base_n, st, fr)
            base = self.deref(st, p, n, fr)
        else:
            base = self.ev(base_n, st, fr)
        if isinstance(base, Rec):
            return base.f[name]
        if isinstance(base, LVS):
            return self.member_lv(st, base, name, decl_cls)
        if isinstance(base, Opaque):
            return self.models.opaque_member(base, name, st)
        raise Unsupported('member %s of %r at %s' % (name, base, self.where(n, fr)))

    def deref(self, st, p, n, fr):
        if isinstance(p, Ptr):
            if self.safety_on('null-deref'):
                self.oblige(st, 'safety:null-deref', p.ref != 0, where=self.where(n, fr))
            t = TY.of_node(n['inner'][0]) if n.get('kind') in ('MemberExpr',) else None
            cls = p.cls
            if t is not None and t.kind == 'ptr' and t.args and t.args[0].kind != 'void':
                pt = t.args[0]
            else:
                pt = TY.parse(cls) if cls else None
            if pt is None: raise Unsupported('dereference of untyped pointer')
            if pt.is_scalar() or self.is_value_type(pt):
                raise Unsupported('pointer to value type %r' % (pt,))
            return ObjLV(p.ref, pt)
        if isinstance(p, Iter):
            return self.models.iter_deref(st, p)
        if isinstance(p, Opaque) and p.what == 'this':
            return p.data
        if isinstance(p, Rec) and p.t == 'optional':
            return p.f['value']
        if isinstance(p, Rec) and p.t == 'setiter':
            return self.models.setiter_deref(st, p, n, fr)
        if isinstance(p, Rec) and p.t == 'smapiter':
            return self.models.smapiter_deref(st, p, n, fr)
        raise Unsupported('dereference of %r at %s' % (p, self.where(n, fr)))

    def ev_ImplicitCastExpr(self, n, st, fr):
        ck = n.get('castKind')
        sub = n['inner'][0]
        if ck == 'LValueToRValue':
            v = self.ev(sub, st, fr)
            if isinstance(v, ObjLV):
                return self.copy_object(st, v)
            if isinstance(v, LVS): return self.load(st, v, TY.of_node(n))
            return v
        if ck in ('NoOp', 'ConstructorConversion', 'UserDefinedConversion', 'FunctionToPointerDecay', 'ArrayToPointerDecay',
                  'DerivedToBase', 'UncheckedDerivedToBase', 'BaseToDerived', 'BitCast', 'LValueBitCast'):
            v = self.ev(sub, st, fr)
            if ck in ('DerivedToBase', 'UncheckedDerivedToBase') and isinstance(v, Ptr):
                return v
            return v
        if ck == 'IntegralToFloating':
            v = self.rv(sub, st, fr)
            if z3.is_bool(v): v = z3.If(v, z3.IntVal(1), z3.IntVal(0))
            return z3.ToReal(v) if z3.is_int(v) else v
        if ck == 'FloatingToIntegral':
            v = self.rv(sub, st, fr)
            return self.float_to_int(st, v, TY.of_node(n), n, fr)
        if ck == 'FloatingCast':
            v = self.rv(sub, st, fr)
            return self.float_narrow(st, v, TY.of_node(n), TY.of_node(sub))
        if ck == 'IntegralCast':
            v = self.rv(sub, st, fr)
            if z3.is_bool(v): v = z3.If(v, z3.IntVal(1), z3.IntVal(0))
            return self.int_convert(st, v, TY.of_node(n), n, fr)
        if ck == 'IntegralToBoolean':
            v = self.rv(sub, st, fr)
            return v != 0
        if ck == 'FloatingToBoolean':
            v = self.rv(sub, st, fr)
            return v != 0
        if ck == 'PointerToBoolean':
            v = self.rv(sub, st, fr)
            if isinstance(v, Ptr): return v.ref != 0
            raise Unsupported('PointerToBoolean of %r' % (v,))
        if ck == 'NullToPointer':
            return Ptr(z3.IntVal(0), self.ptr_cls(TY.of_node(n)))
        if ck == 'BooleanToSignedIntegral' or ck == 'BooleanToIntegral':
            v = self.rv(sub, st, fr)
            return z3.If(v, z3.IntVal(1), z3.IntVal(0))
        raise Unsupported('cast kind %s at %s' % (ck, self.where(n, fr)))

    FLOAT_RANK = {'float': 0, 'double': 1, 'long double': 2}

    def float_narrow(self, st, v, t, src):
        """double -> float (or long double -> double) rounds: the result is the image of the value under a rounding function that moves it by
        at most a relative 2^-24 (2^-53); widening conversions and values exactly representable in the target are unchanged.
        (normal range only: overflow to infinity and the subnormal range are not modelled)"""
        if not is_z3(v) or not z3.is_real(v): return v
        if t.kind != 'real' or src is None or src.kind != 'real': return v
        if self.FLOAT_RANK.get(t.name, 1) >= self.FLOAT_RANK.get(src.name, 1): return v
        import fractions, struct
        sv = z3.simplify(v)
        if z3.is_rational_value(sv):
            fr_ = fractions.Fraction(sv.numerator_as_long(), sv.denominator_as_long())
            if t.name == 'float':
                try: back = fractions.Fraction(struct.unpack('f', struct.pack('f', float(fr_)))[0])
                except OverflowError: back = None
            else:
                back = fractions.Fraction(float(fr_))
            if back is not None and back == fr_: return v
        eps = z3.RealVal(fractions.Fraction(1, 2 ** 24 if t.name == 'float' else 2 ** 53))
        rnd = self.uf('round_to_' + t.name.replace(' ', '_'), R, R)
        r = rnd(v)
        absv = z3.If(v >= 0, v, -v)
        st.pc.append(z3.And(r - v <= absv * eps, v - r <= absv * eps))
        return r

    def float_to_int(self, st, v, t, n, fr):
        if z3.is_int(v): return v
        # C++ truncates toward zero; out-of-range conversion is undefined behaviour
        r = z3.If(v >= 0, z3.ToInt(v), -z3.ToInt(-v))
        if self.safety_on('narrowing') and t.kind == 'int':
            lo, hi = TY.INT_RANGES[t.name]
            self.oblige(st, 'safety:float-to-int-in-range', z3.And(v > lo - 1, v < hi + 1), where=self.where(n, fr))
        return r

    def int_convert(self, st, v, t, n, fr):
        if t.kind != 'int' or not z3.is_int(v): return v
        src = TY.of_node(n['inner'][0]) if n.get('inner') else None
        lo, hi = TY.INT_RANGES[t.name]
        if src is not None and src.kind == 'int':
            slo, shi = TY.INT_RANGES[src.name]
            if slo >= lo and shi <= hi: return v
        if src is not None and src.kind == 'bool': return v
        if z3.is_int_value(v) and lo <= v.as_long() <= hi: return v
        if self.modular:
            # C++20 / every supported ABI: conversion to an integer type is modulo 2^N
            w = hi - lo + 1
            if src is not None and src.kind == 'int':
                slo, shi = TY.INT_RANGES[src.name]
                if slo >= lo - w and shi <= hi + w:
                    return z3.If(v < lo, v + w, z3.If(v > hi, v - w, v))
            return (v - lo) % w + lo
        if self.safety_on('narrowing'):
            self.oblige(st, 'safety:int-conversion-in-range', z3.And(v >= lo, v <= hi), where=self.where(n, fr))
        return v

    def explicit_cast(self, n, st, fr):
        t = TY.of_node(n)
        sub = n['inner'][0]
        if t.kind == 'void':
            self.ev(sub, st, fr); return None
        ck = n.get('castKind')
        if ck in ('NoOp', 'ConstructorConversion', 'UserDefinedConversion', 'DerivedToBase', 'BaseToDerived', 'LValueToRValue', 'Dependent'):
            v = self.ev(sub, st, fr)
            if ck == 'NoOp' and t.ref == '' and isinstance(v, LVS) and not isinstance(v, ObjLV) and n.get('valueCategory') == 'prvalue':
                return self.load(st, v, t)
            return v
        fake = dict(n); fake['kind'] = 'ImplicitCastExpr'
        return self.ev_ImplicitCastExpr(fake, st, fr)

    ev_CXXStaticCastExpr = explicit_cast
    ev_CStyleCastExpr = explicit_cast
    ev_CXXFunctionalCastExpr = explicit_cast
    ev_CXXConstCastExpr = explicit_cast
    ev_CXXReinterpretCastExpr = explicit_cast

    def ev_UnaryOperator(self, n, st, fr):
        op = n['opcode']; sub = n['inner'][0]
        if op in ('++', '--'):
            lv = self.lv(sub, st, fr)
            old = self.load(st, lv, TY.of_node(sub))
            if isinstance(old, Iter):
                new = Iter(old.vref, old.idx + (1 if op == '++' else -1), old.cty)
            else:
                new = old + (1 if op == '++' else -1)
                tn = TY.of_node(n)
                if self.modular and tn.kind == 'int' and TY.INT_RANGES[tn.name][0] == 0:
                    new = new % (TY.INT_RANGES[tn.name][1] + 1)
                else:
                    self.range_check(st, new, tn, n, fr)
            self.store(st, lv, new)
            return old if n.get('isPostfix') else lv
        if op == '-':
            v = self.rv(sub, st, fr); return -v
        if op == '+':
            return self.rv(sub, st, fr)
        if op == '!':
            v = self.rv(sub, st, fr)
            if isinstance(v, Ptr): return v.ref == 0
            return z3.Not(v)
        if op == '*':
            p = self.rv(sub, st, fr)
            return self.deref(st, p, n, fr)
        if op == '&':
            lv = self.ev(sub, st, fr)
            if isinstance(lv, ObjLV): return Ptr(lv.ref, lv.ty.name)
            raise Unsupported('address-of a non-object l-value at %s' % self.where(n, fr))
        raise Unsupported('unary operator %s' % op)

    def range_check(self, st, v, t, n, fr):
        if t.kind == 'int' and self.safety_on('wrap') and z3.is_int(v):
            lo, hi = TY.INT_RANGES[t.name]
            if z3.is_int_value(v) and lo <= v.as_long() <= hi: return
            nm = 'safety:no-wrap' if lo == 0 else 'safety:no-overflow'
            self.oblige(st, nm, z3.And(v >= lo, v <= hi), where=self.where(n, fr))

    def arith(self, op, a, b, t, st, n, fr):
        if isinstance(a, Ptr) or isinstance(b, Ptr):
            ar = a.ref if isinstance(a, Ptr) else a; br = b.ref if isinstance(b, Ptr) else b
            if op == '==': return ar == br
            if op == '!=': return ar != br
            raise Unsupported('pointer arithmetic %s' % op)
        if isinstance(a, Iter) or isinstance(b, Iter):
            return self.models.iter_arith(st, op, a, b)
        if isinstance(a, Rec) and a.t == 'optional' and isinstance(b, Rec):
            raise Unsupported('optional comparison')
        if z3.is_bool(a) and not z3.is_bool(b): a = z3.If(a, z3.IntVal(1), z3.IntVal(0))
        if z3.is_bool(b) and not z3.is_bool(a): b = z3.If(b, z3.IntVal(1), z3.IntVal(0))
        if z3.is_int(a) and z3.is_real(b): a = z3.ToReal(a)
        if z3.is_int(b) and z3.is_real(a): b = z3.ToReal(b)
        if op == '+': r = a + b
        elif op == '-': r = a - b
        elif op == '*': r = a * b
        elif op == '/':
            if z3.is_int(a):
                if self.safety_on('div-zero'): self.oblige(st, 'safety:int-div-by-zero', b != 0, where=self.where(n, fr))
                q = a / b   # z3 integer division (floor for positive divisor)
                r = z3.If(z3.And(a >= 0, b > 0), q, z3.If(z3.And(a < 0, b > 0), -((-a) / b), z3.If(z3.And(a >= 0, b < 0), -(a / (-b)), (-a) / (-b))))
                if t.kind == 'int' and TY.INT_RANGES[t.name][0] == 0: r = q
            else:
                if self.safety_on('fdiv-zero'): self.oblige(st, 'safety:div-by-zero', b != 0, where=self.where(n, fr))
                r = a / b
        elif op == '%':
            if self.safety_on('div-zero'): self.oblige(st, 'safety:int-div-by-zero', b != 0, where=self.where(n, fr))
            r = a % b
            if not (t.kind == 'int' and TY.INT_RANGES[t.name][0] == 0):
                r = z3.If(a >= 0, a % z3.If(b >= 0, b, -b), -((-a) % z3.If(b >= 0, b, -b)))
        elif op == '<': return a < b
        elif op == '<=': return a <= b
        elif op == '>': return a > b
        elif op == '>=': return a >= b
        elif op == '==': return a == b
        elif op == '!=': return a != b
        else: raise Unsupported('binary operator %s' % op)
        if t.kind == 'int' and op in ('+', '-', '*'):
            if self.modular and TY.INT_RANGES[t.name][0] == 0:
                hi = TY.INT_RANGES[t.name][1]
                rs = z3.simplify(r)
                if not (z3.is_int_value(rs) and 0 <= rs.as_long() <= hi):
                    r = r % (hi + 1)       # unsigned arithmetic is modulo 2^N
                return r
            self.range_check(st, r, t, n, fr)
        return r

    def ev_BinaryOperator(self, n, st, fr):
        op = n['opcode']; a_n, b_n = n['inner']
        if op == '=':
            lv = self.lv(a_n, st, fr)
            t = TY.of_node(a_n)
            if isinstance(lv, ObjLV):
                src = self.ev(b_n, st, fr)
                self.assign_object(st, lv, src, fr)
                return lv
            v = self.rv(b_n, st, fr)
            self.store(st, lv, v)
            return lv
        if op in ('&&', '||'):
            a = self.rv(a_n, st, fr)
            a = self.as_bool(a)
            s2 = st.clone()
            s2.pc.append(a if op == '&&' else z3.Not(a))
            b = self.as_bool(self.rv(b_n, s2, fr))
            self.absorb_pure(st, s2, a if op == '&&' else z3.Not(a))
            return z3.And(a, b) if op == '&&' else z3.Or(a, b)
        if op == ',':
            self.ev(a_n, st, fr)
            return self.ev(b_n, st, fr)
        a = self.rv(a_n, st, fr); b = self.rv(b_n, st, fr)
        return self.arith(op, a, b, TY.of_node(n), st, n, fr)

    def as_bool(self, v):
        if isinstance(v, Ptr): return v.ref != 0
        if z3.is_bool(v): return v
        if z3.is_int(v) or z3.is_real(v): return v != 0
        if isinstance(v, Rec) and v.t == 'optional': return v.f['has']
        raise Unsupported('not a boolean: %r' % (v,))

    def absorb_pure(self, st, s2, cond):
        """s2 was forked from st under `cond` to evaluate a sub-expression; fold its effects back"""
        extra = s2.pc[len(st.pc) + 1:]
        for e in extra:
            if is_z3(e) and e.get_id() in self.axiom_ids: st.pc.append(e)
            else: st.pc.append(e.guarded(cond) if isinstance(e, QForall) else z3.Implies(cond, e))
        for t_ in s2.throws:
            st.throws.append(t_)
        if s2.ghost.get('epoch', 0) != st.ghost.get('epoch', 0):
            for key in [k for k in self.base_arrays if '@' not in k]:
                for s_ in (st, s2):
                    if key not in s_.heap: s_.heap[key] = self.base_for(key, s_)
            newep = next(self.nfresh) + 1
            st.ghost['epoch'] = newep; s2.ghost['epoch'] = newep
        if s2.heap is not st.heap:
            for k, v in s2.heap.items():
                o = st.heap.get(k)
                if o is None:
                    o = self.base_for(k, st)
                if not (o is v or o.eq(v)):
                    st.heap[k] = z3.If(cond, v, o)
                elif k not in st.heap: st.heap[k] = v
        for k, v in s2.env.items():
            o = st.env.get(k)
            if o is None:
                if isinstance(k, str) and (k.startswith('tmp!') or k.startswith('glob!')): st.env[k] = v
                continue
            if o is v: continue
            try:
                st.env[k] = merge_vals([cond, z3.BoolVal(True)], [v, o])
            except Unsupported:
                st.env.pop(k, None)
        for k, v in s2.ghost.items():
            o = st.ghost.get(k)
            if k == 'epoch' and o != v: raise Unsupported('a call with unknown effects inside a conditional expression')
            if o is not None and o is not v:
                st.ghost[k] = merge_vals([cond, z3.Not(cond)], [v, o]) if isinstance(v, GuardedLog) else merge_vals([cond, z3.BoolVal(True)], [v, o])
            elif o is None and isinstance(v, GuardedLog):
                st.ghost[k] = v.guarded(cond)
            elif o is None and k != 'epoch':
                st.ghost[k] = v

    def ev_CompoundAssignOperator(self, n, st, fr):
        op = n['opcode'][:-1]; a_n, b_n = n['inner']
        lv = self.lv(a_n, st, fr)
        b = self.rv(b_n, st, fr)
        a = self.load(st, lv, TY.of_node(a_n))
        ct = TY.parse(n.get('computeResultType', {}).get('qualType', n['type']['qualType']))
        if ct.kind == 'real' and z3.is_int(a): a = z3.ToReal(a)
        r = self.arith(op, a, b, ct, st, n, fr)
        lt = TY.of_node(a_n)
        if lt.kind == 'int' and z3.is_real(r): r = self.float_to_int(st, r, lt, n, fr)
        if lt.kind == 'real' and ct.kind == 'real': r = self.float_narrow(st, r, lt, ct)
        self.store(st, lv, r)
        return lv

    def ev_ConditionalOperator(self, n, st, fr):
        c_n, a_n, b_n = n['inner']
        c = self.as_bool(self.rv(c_n, st, fr))
        s1 = st.clone(); s1.pc.append(c)
        s2 = st.clone(); s2.pc.append(z3.Not(c))
        lval = n.get('valueCategory') == 'lvalue'
        a = self.ev(a_n, s1, fr) if lval else self.rv(a_n, s1, fr)
        b = self.ev(b_n, s2, fr) if lval else self.rv(b_n, s2, fr)
        if lval and not (isinstance(a, LVS) and isinstance(b, LVS)):
            raise Unsupported('conditional l-value')
        self.absorb_pure(st, s1, c); self.absorb_pure(st, s2, z3.Not(c))
        # temporaries created in the arms must be visible
        if isinstance(a, LocalLV) and a.var not in st.env and a.var in s1.env: st.env[a.var] = s1.env[a.var]
        if isinstance(b, LocalLV) and b.var not in st.env and b.var in s2.env: st.env[b.var] = s2.env[b.var]
        if z3.is_true(z3.simplify(c)): return a
        if z3.is_false(z3.simplify(c)): return b
        if lval and isinstance(a, LVS) and isinstance(b, LVS) and not isinstance(a, ObjLV) and not isinstance(b, ObjLV):
            try:
                return merge_vals([c, z3.BoolVal(True)], [a, b])
            except Unsupported:
                # two different variables: the conditional is read, not assigned (an assignment through it would need an l-value merge);
                # the value read is the conditional of the two values
                if n.get('_assigned_through'): raise
                return merge_vals([c, z3.BoolVal(True)], [self.load(s1, a), self.load(s2, b)])
        return merge_vals([c, z3.BoolVal(True)], [a, b])

    def ev_ArraySubscriptExpr(self, n, st, fr):
        base = self.ev(n['inner'][0], st, fr); idx = self.rv(n['inner'][1], st, fr)
        return self.models.subscript(st, base, idx, n, fr)

    def ev_InitListExpr(self, n, st, fr):
        t = TY.of_node(n)
        items = [self.rv(c, st, fr) for c in n.get('inner', [])]
        if (n['type'].get('desugaredQualType') or n['type']['qualType']).rstrip().endswith(']'):
            return Rec('carray', {str(i): v for i, v in enumerate(items)})
        if t.kind == 'array':
            # std::array<T,N>{{...}} has one nested InitListExpr for the C array
            if len(items) == 1 and isinstance(items[0], Rec) and items[0].t in ('carray', 'array'): items = [items[0].f[str(i)] for i in range(len(items[0].f))]
            zero = self.zero_value(t.args[0])
            return Rec('array', {str(i): (items[i] if i < len(items) else zero) for i in range(t.args[1])})
        if t.kind == 'record' and self.is_value_class(t.name):
            lay = self.layout(t.name)
            return Rec(t.name, {fn: (items[i] if i < len(items) else self.zero_value(ft.noref())) for i, (fn, ft, _, _) in enumerate(lay)})
        if t.kind == 'pair':
            return Rec('pair', {'first': items[0], 'second': items[1]})
        raw = n['type']['qualType']
        if '[' in raw:
            return Rec('carray', {str(i): v for i, v in enumerate(items)})
        if t.kind == 'record':
            # aggregate of a heap class: build as temp object
            return self.models.aggregate_init(st, t, items, n, fr)
        raise Unsupported('InitListExpr of type %r at %s' % (t, self.where(n, fr)))

    def ev_CXXStdInitializerListExpr(self, n, st, fr):
        v = self.ev(n['inner'][0], st, fr)
        if isinstance(v, LVS): v = self.load(st, v)
        return Rec('initlist', dict(v.f))

    def ev_ImplicitValueInitExpr(self, n, st, fr):
        return self.zero_value(TY.of_node(n))

    def ev_CXXScalarValueInitExpr(self, n, st, fr):
        return self.zero_value(TY.of_node(n))

    def ev_LambdaExpr(self, n, st, fr):
        rec = n['inner'][0]
        call_op = next((c for c in rec['inner'] if c.get('kind') == 'CXXMethodDecl' and c.get('name') == 'operator()'), None)
        if call_op is None:
            # generic lambda: the call operator is a template; take its instantiation (the specialisation that has a body)
            for c in rec['inner']:
                if c.get('kind') == 'FunctionTemplateDecl' and c.get('name') == 'operator()':
                    cands = [x for x in c.get('inner', []) if x.get('kind') == 'CXXMethodDecl' and self.ast.body_of(x) is not None]
                    if cands: call_op = cands[-1]
        if call_op is None: raise Unsupported('lambda without an instantiated call operator at %s' % self.where(n, fr))
        return Closure(n, dict(st.env), fr.this, call_op)

    def ev_CXXThrowExpr(self, n, st, fr):
        cls = None; val = None
        if n.get('inner'):
            t = TY.of_node(n['inner'][0]); cls = t.name if t.kind == 'record' else repr(t)
            try: val = self.ev(n['inner'][0], st, fr)
            except Unsupported: val = None
        s2 = st.clone()
        st.throws.append((s2, cls or 'rethrow', n))
        raise PathEnd()

    def ev_CXXConstructExpr(self, n, st, fr):
        return self.models.construct(n, st, fr)

    ev_CXXTemporaryObjectExpr = ev_CXXConstructExpr

    def ev_CXXMemberCallExpr(self, n, st, fr):
        me = n['inner'][0]
        while me['kind'] in ('ParenExpr', 'ImplicitCastExpr'): me = me['inner'][0]
        if me['kind'] != 'MemberExpr': raise Unsupported('member call through %s' % me['kind'])
        mid = me.get('referencedMemberDecl')
        base_n = me['inner'][0]
        if me.get('isArrow'):
            p = self.rv(base_n, st, fr)
            bt = TY.of_node(base_n)
            if bt.kind in ('ptr',) and bt.name in ('std::shared_ptr', 'std::unique_ptr') and mid not in self.ast.by_id and me['name'] in ('get', 'reset', 'use_count', 'operator bool', 'swap'):
                return self.models.smart_ptr_method(st, p, me['name'], n, fr)
            obj = self.deref(st, p, me, fr)
        else:
            obj = self.ev(base_n, st, fr)
            bt = TY.of_node(base_n)
            if bt.kind == 'ptr' and bt.name in ('std::shared_ptr', 'std::unique_ptr'):
                pv = self.load(st, obj) if isinstance(obj, LVS) else obj
                return self.models.smart_ptr_method(st, pv, me['name'], n, fr, lv=obj)
        d = self.ast.fn_def.get(mid) or self.ast.by_id.get(mid)
        args = n['inner'][1:]
        if d is None or self.ast.body_of(d) is None and not self.is_repo_decl(d):
            return self.models.member_call(st, obj, TY.of_node(base_n), me['name'], args, n, fr)
        return self.call(d, obj, args, st, fr, n, virtual=(self.ast.by_id.get(mid, {}).get('virtual', False) or d.get('virtual', False)), base_type=TY.of_node(base_n))

    def is_repo_decl(self, d):
        return d.get('id') in self.ast.by_id

    def ev_CXXOperatorCallExpr(self, n, st, fr):
        callee = n['inner'][0]
        while callee['kind'] != 'DeclRefExpr': callee = callee['inner'][0]
        rd = callee['referencedDecl']
        d = self.ast.fn_def.get(rd['id']) or self.ast.by_id.get(rd['id'])
        args = n['inner'][1:]
        if d is not None and (self.ast.body_of(d) is not None or d.get('explicitlyDefaulted') or d.get('isImplicit')):
            if d['kind'] == 'CXXMethodDecl':
                obj = self.ev(args[0], st, fr)
                if self.ast.body_of(d) is None or (d.get('name') == 'operator=' and (d.get('explicitlyDefaulted') or d.get('isImplicit'))):
                    # defaulted / implicit assignment operator (member-wise, whether or not clang synthesised a body)
                    return self.models.default_assign(st, obj, args[1], n, fr)
                if isinstance(obj, Closure):
                    return self.call_closure(obj, args[1:], st, fr, n)
                return self.call(d, obj, args[1:], st, fr, n)
            return self.call(d, None, args, st, fr, n)
        if d is not None and d['kind'] == 'CXXMethodDecl' and d.get('name') == 'operator()':
            obj = self.ev(args[0], st, fr)
            if isinstance(obj, LVS): obj = self.load(st, obj)
            if isinstance(obj, Closure): return self.call_closure(obj, args[1:], st, fr, n)
        return self.models.operator_call(st, rd, args, n, fr)

    def ev_CallExpr(self, n, st, fr):
        callee = n['inner'][0]
        c = callee
        while c['kind'] in ('ImplicitCastExpr', 'ParenExpr'): c = c['inner'][0]
        args = n['inner'][1:]
        if c['kind'] == 'DeclRefExpr':
            rd = c['referencedDecl']
            d = self.ast.fn_def.get(rd['id'])
            if d is not None:
                return self.call(d, None, args, st, fr, n)
            return self.models.free_call(st, rd, args, n, fr)
        if c['kind'] == 'UnresolvedLookupExpr':
            raise Unsupported('unresolved call at %s' % self.where(n, fr))
        v = self.rv(c, st, fr)
        if isinstance(v, Closure): return self.call_closure(v, args, st, fr, n)
        raise Unsupported('call through %s at %s' % (c['kind'], self.where(n, fr)))

    # ------------------------------------------------------------------ calls
    def bind_args(self, params, arg_nodes, st, fr, callee_env):
        for p, a in zip(params, arg_nodes):
            pt = TY.of_node(p)
            if a.get('kind') == 'CXXDefaultArgExpr' and not a.get('inner'):
                init = [c for c in p.get('inner', []) if 'kind' in c]
                if not init: raise Unsupported('default argument of %s is not in the AST' % p.get('name'))
                a = init[0]
            if pt.ref:
                v = self.ev(a, st, fr)
                if not isinstance(v, LVS): v = self.materialize(st, v, a)
                callee_env[p['id']] = v
            else:
                v = self.rv(a, st, fr)
                if isinstance(v, ObjLV) and a.get('valueCategory') != 'prvalue':
                    v = self.copy_object(st, v)
                callee_env[p['id']] = v
            self.var_names[p['id']] = p.get('name')
        if len(params) > len(arg_nodes):
            for p in params[len(arg_nodes):]:
                init = [c for c in p.get('inner', []) if 'kind' in c]
                if not init: raise Unsupported('missing argument without default')
                callee_env[p['id']] = self.rv(init[0], st, fr)

    def call(self, d, this, arg_nodes, st, fr, n, virtual=False, base_type=None):
        """call of a repo function with AST body (or use its contract)"""
        qn = self.ast.qname.get(d['id']) or self.ast.qualified_name(d)
        contract = self.use_contracts.lookup(qn, d, self) if hasattr(self.use_contracts, 'lookup') else self.use_contracts.get(qn)
        if contract is not None and contract.applies(d, self):
            return contract.apply_at_call(self, d, this, arg_nodes, st, fr, n)
        if virtual and isinstance(this, ObjLV) and this.ty.kind == 'record':
            targets = self.virtual_targets(d, this.ty.name)
            if len(targets) > 1 or (len(targets) == 1 and targets[0][1] is not d and self.ast.fn_def.get(targets[0][1]['id'], targets[0][1]) is not d):
                return self.dispatch_virtual(targets, this, arg_nodes, st, fr, n)
            if len(targets) == 1:
                d = self.ast.fn_def.get(targets[0][1]['id'], targets[0][1])
                qn = self.ast.qname.get(d['id']) or self.ast.qualified_name(d)
        return self.call_static(d, qn, this, arg_nodes, st, fr, n)

    def call_static(self, d, qn, this, arg_nodes, st, fr, n):
        contract = self.use_contracts.lookup(qn, d, self) if hasattr(self.use_contracts, 'lookup') else self.use_contracts.get(qn)
        if contract is not None and contract.applies(d, self):
            return contract.apply_at_call(self, d, this, arg_nodes, st, fr, n)
        mdl = self.models.repo_override(qn)
        if mdl is not None:
            return mdl(st, this, arg_nodes, n, fr)
        body = self.ast.body_of(d)
        if body is None:
            raise Unsupported('call of %s which has no body in the AST (at %s)' % (qn, self.where(n, fr)))
        if fr.depth >= self.max_depth: raise Unsupported('inlining depth exceeded at %s' % qn)
        params = self.ast.params_of(d)
        env2 = {}
        self.bind_args(params, arg_nodes, st, fr, env2)
        return self.run_inlined(d, qn, this, env2, st, fr, n)

    # ---- virtual dispatch: the dynamic type of an object is unknown unless the path says otherwise (closed world of the AST)
    def class_id(self, name):
        if name not in self.class_ids: self.class_ids[name] = len(self.class_ids) + 1
        return self.class_ids[name]

    def subclasses(self, name):
        out = []
        for cn in self.ast.records:
            try:
                if name in self.bases_closure(cn): out.append(cn)
            except Unsupported:
                pass
        return sorted(set(out))

    def final_overrider(self, cls, mname, mtype):
        """the method decl that a call of (mname, mtype) on an object of dynamic type cls executes"""
        seen = [cls]
        while seen:
            c = seen.pop(0)
            try: r = self.record(c)
            except Unsupported: continue
            for m in r.get('inner', []):
                if m.get('kind') == 'CXXMethodDecl' and m.get('name') == mname and self.norm_sig(m['type']['qualType']) == self.norm_sig(mtype):
                    return m
            for b in self.ast.bases_of(r):
                bt = TY.parse(b)
                if bt.kind == 'record' and bt.name: seen.append(bt.name)
        return None

    @staticmethod
    def norm_sig(t):
        return t.replace(' override', '').replace(' final', '').replace('noexcept(true)', 'noexcept').replace(' ', '')

    def virtual_targets(self, d, static_cls):
        """[(classes, method decl)]: the possible callees, grouped by final overrider; abstract classes cannot be dynamic types"""
        groups = {}
        for cn in self.subclasses(static_cls):
            m = self.final_overrider(cn, d.get('name'), d['type']['qualType'])
            if m is None: continue
            if m.get('pure'): continue
            # a class with a pure virtual member cannot be the dynamic type
            try:
                if any(x.get('pure') and self.final_overrider(cn, x.get('name'), x['type']['qualType']) is x for x in self.record(cn).get('inner', []) if x.get('kind') == 'CXXMethodDecl'): continue
            except Unsupported:
                pass
            groups.setdefault(m['id'], ([], m))[0].append(cn)
        return list(groups.values())

    def dispatch_virtual(self, targets, this, arg_nodes, st, fr, n):
        dyn = self.uf('dyntype', I, I)(this.ref)
        all_ids = [self.class_id(c) for (cls, m) in targets for c in cls]
        st.pc.append(z3.Or(*[dyn == i for i in all_ids]))
        states = []; rets = []
        for (cls, m) in targets:
            d2 = self.ast.fn_def.get(m['id'], m)
            qn2 = self.ast.qname.get(d2['id']) or self.ast.qualified_name(d2)
            s2 = st.clone()
            s2.pc.append(z3.Or(*[dyn == self.class_id(c) for c in cls]))
            obj = ObjLV(this.ref, TY.parse(self.ast.record_display_name(self.ast.owner_record(d2))))
            try:
                r = self.call_static(d2, qn2, obj, arg_nodes, s2, fr, n)
            except PathEnd:
                st.throws += s2.throws; continue
            st.throws += s2.throws; s2.throws = []
            states.append(s2); rets.append(r)
        if not states: raise PathEnd()
        if len(states) == 1:
            st.assign_from(states[0]); return rets[0]
        if any(r is None for r in rets) and not all(r is None for r in rets): raise Unsupported('virtual call with mixed results')
        m_, r_ = merge_states(states, None if all(r is None for r in rets) else rets, base=self.base_for)
        env_keep = st.env
        st.assign_from(m_)
        for k, v in env_keep.items(): st.env.setdefault(k, v)
        return r_

    def resolve_virtual(self, d, this, st, fr, n):
        return None

    def run_inlined(self, d, qn, this, env2, st, fr, n, closure_env=None):
        self.fns_executed.add(qn)
        saved_env = st.env
        new_env = dict(closure_env) if closure_env is not None else {}
        # keep temporaries / globals of the caller reachable (references may point to them)
        for k, v in saved_env.items():
            if isinstance(k, str): new_env.setdefault(k, v)
        new_env.update(env2)
        # references into the caller's locals stay valid because LocalLV keys are globally unique decl ids:
        for k, v in saved_env.items():
            new_env.setdefault(k, v)
        st.env = new_env
        fr2 = Frame(d, this, qn, fr.depth + 1)
        fr2.ret_ty = TY.parse(d['type']['qualType'].split('(')[0].strip()) if d.get('kind') != 'CXXConstructorDecl' else None
        if d['kind'] == 'CXXConstructorDecl':
            self.run_ctor_inits(d, this, st, fr2)
        outs = self.exec_stmt(self.ast.body_of(d), st, fr2)
        normal = []; rets = []
        for (s, o) in outs:
            if o is None or o[0] == 'ret':
                normal.append(s); rets.append(o[1] if o else None)
            elif o[0] == 'throw':
                st.throws.append((s, o[1], o[2]))
            else:
                raise Unsupported('break/continue escaping a function')
        if not normal:
            # propagate pending throws recorded on st itself
            raise PathEnd()
        if len(normal) == 1:
            m, r = normal[0], rets[0]
        else:
            if any(x is None for x in rets) and not all(x is None for x in rets): raise Unsupported('mixed void/non-void returns')
            m, r = merge_states(normal, None if all(x is None for x in rets) else rets, base=self.base_for)
        # restore caller env, keeping updates to caller variables made through references
        out_env = dict(saved_env)
        for k in saved_env:
            if k in m.env: out_env[k] = m.env[k]
        for k, v in m.env.items():
            if isinstance(k, str) and k not in out_env: out_env[k] = v
        pend = st.throws
        st.assign_from(m)
        st.throws = pend + [t for t in m.throws if t not in pend]
        st.env = out_env
        # a returned LocalLV designating a callee local must be turned into a temporary
        if isinstance(r, LocalLV) and r.var not in out_env:
            key = 'tmp!%d' % next(self.nfresh)
            st.env[key] = m.env[r.var]
            r = LocalLV(key, r.path)
        return r

    def call_closure(self, clo, arg_nodes, st, fr, n):
        d = clo.fn
        params = self.ast.params_of(d)
        env2 = {}
        self.bind_args(params, arg_nodes, st, fr, env2)
        return self.run_closure(clo, env2, st, fr, n)

    def run_closure(self, clo, env2, st, fr, n):
        # by-reference captures see the current caller env (same decl ids); by-copy captures are rare in the repo
        fr_this = clo.this
        qn = fr.qname + '::<lambda@%s>' % clo.node.get('_line')
        return self.run_inlined(clo.fn, qn, fr_this, env2, st, fr, n, closure_env=None)

    def call_closure_values(self, clo, vals, st, fr, n):
        """call a closure with already-evaluated arguments (values or l-values)"""
        params = self.ast.params_of(clo.fn)
        env2 = {}
        for p, v in zip(params, vals):
            pt = TY.of_node(p)
            if pt.ref:
                if not isinstance(v, LVS): v = self.materialize(st, v, n)
            else:
                if isinstance(v, LVS) and not isinstance(v, ObjLV): v = self.load(st, v)
                elif isinstance(v, ObjLV): v = self.copy_object(st, v)
            env2[p['id']] = v
            self.var_names[p['id']] = p.get('name')
        return self.run_closure(clo, env2, st, fr, n)

    def run_ctor_inits(self, d, this, st, fr2):
        inits = [c for c in d.get('inner', []) if c.get('kind') == 'CXXCtorInitializer']
        done = set()
        for c in inits:
            if 'anyInit' in c:
                fname = c['anyInit']['name']
                done.add(fname)
                ft0 = TY.parse(c['anyInit'].get('type', {}).get('desugaredQualType') or c['anyInit'].get('type', {}).get('qualType', 'int'))
                if ft0.kind == 'lambda' or (ft0.kind == 'record' and ft0.name in ('omp_lock_t', 'omp_nest_lock_t')): continue
                flv = self.member_lv(st, this, fname, self.field_decl_class(c['anyInit']['id']) if c['anyInit']['id'] in self.ast.by_id else None) if isinstance(this, ObjLV) else LocalLV(this.var, this.path + (fname,))
                e = c['inner'][0]
                if e.get('kind') == 'CXXDefaultInitExpr' and not e.get('inner'):
                    fd = self.ast.by_id.get(c['anyInit']['id'], {})
                    init = [x for x in fd.get('inner', []) if 'kind' in x and x['kind'] != 'FullComment']
                    if not init: raise Unsupported('default member initialiser of %s not in the AST' % fname)
                    e = init[0]
                if isinstance(flv, ObjLV):
                    src = self.ev(e, st, fr2)
                    self.init_object_from(st, flv, src, e, fr2)
                else:
                    self.store(st, flv, self.rv(e, st, fr2))
            elif 'baseInit' in c:
                e = c['inner'][0]
                self.models.base_init(st, this, c, e, fr2)
            else:
                raise Unsupported('ctor initializer form')

    # objects of heap classes -------------------------------------------------------
    def object_leaf_keys(self, t):
        """[(heap key, leaf T)] of all scalar leaves of heap class t (value members flattened) + [(key, T)] of sub-objects"""
        leaves = []; subs = []
        for (fn, ft, dc, fd) in self.layout(t.name):
            ft = ft.noref()
            key = dc + '.' + fn
            if self.is_value_type(ft):
                for path, lt in self.leaves(ft):
                    leaves.append((key + ''.join('.' + p for p in path), lt))
            else:
                subs.append((key, ft))
        return leaves, subs

    def copy_object(self, st, src):
        t = src.ty
        if t.kind == 'record':
            dst = ObjLV(self.new_object(), t)
            self.copy_fields(st, dst, src)
            return dst
        if t.kind in ('vector', 'flist', 'list', 'set', 'string', 'map'):
            dst = ObjLV(self.new_object(), t)
            self.models.copy_container(st, dst, src)
            return dst
        raise Unsupported('copy of object of type %r' % (t,))

    def copy_fields(self, st, dst, src):
        leaves, subs = self.object_leaf_keys(src.ty)
        for key, lt in leaves:
            self.hwrite(st, key, dst.ref, self.hread(st, key, src.ref, self.sort_of(lt)))
        for key, ft in subs:
            self.models.copy_container(st, ObjLV(self.sub_ref(st, key, dst.ref), ft), ObjLV(self.sub_ref(st, key, src.ref), ft))

    def assign_object(self, st, dst, src, fr):
        if isinstance(src, ObjLV):
            if dst.ty.kind == 'record': self.copy_fields(st, dst, src)
            else: self.models.copy_container(st, dst, src)
            return
        if isinstance(src, Rec) and src.t == 'initlist':
            return self.models.assign_initlist(st, dst, src)
        raise Unsupported('object assignment from %r' % (src,))

    def init_object_from(self, st, dst, src, e, fr):
        if isinstance(src, ObjLV):
            return self.assign_object(st, dst, src, fr)
        if isinstance(src, Rec) and src.t == 'initlist':
            return self.models.assign_initlist(st, dst, src)
        raise Unsupported('member object initialisation from %r' % (src,))

    def init_default_object(self, st, obj, fr):
        """default member initialisers of a heap-class object; members without initialiser stay unconstrained"""
        t = obj.ty
        for (fn, ft, dc, fd) in self.layout(t.name):
            ft = ft.noref()
            init = [c for c in fd.get('inner', []) if 'kind' in c and c['kind'] not in ('FullComment',)]
            flv = self.member_lv(st, obj, fn, dc)
            if init:
                if isinstance(flv, ObjLV):
                    self.init_object_from(st, flv, self.ev(init[0], st, fr), init[0], fr)
                else:
                    self.store(st, flv, self.rv(init[0], st, fr))
            elif isinstance(flv, ObjLV):
                self.models.init_empty_container(st, flv)
            elif ft.kind == 'record' and self.is_value_class(ft.name):
                self.store(st, flv, self.default_value_class(st, ft, fr))
            elif ft.kind == 'ptr' and ft.name in ('std::shared_ptr', 'std::unique_ptr'):
                self.store(st, flv, Ptr(z3.IntVal(0), self.ptr_cls(ft)))
            else:
                self.store(st, flv, self.fresh_value(ft, 'uninit.' + fn))

    def default_value_class(self, st, t, fr):
        """default-constructed value of a value class: default member initialisers, else unconstrained"""
        f = {}
        for (fn, ft, dc, fd) in self.layout(t.name):
            ft = ft.noref()
            init = [c for c in fd.get('inner', []) if 'kind' in c and c['kind'] not in ('FullComment',)]
            if init: f[fn] = self.rv(init[0], st, fr)
            elif ft.kind == 'record' and self.is_value_class(ft.name): f[fn] = self.default_value_class(st, ft, fr)
            elif ft.kind == 'optional': f[fn] = Rec('optional', {'has': z3.BoolVal(False), 'value': self.fresh_value(ft.args[0].noref(), 'novalue')})
            else: f[fn] = self.fresh_value(ft, 'uninit.' + fn)
        return Rec(t.name, f)

    # ------------------------------------------------------------------ statements
    def exec_stmt(self, n, st, fr):
        """returns list of (state, outcome); outcome None | ('ret', v) | ('break',) | ('continue',) | ('throw', cls, node)"""
        k = n['kind']
        m = getattr(self, 'st_' + k, None)
        try:
            if m is not None:
                outs = m(n, st, fr)
            else:
                self.ev(n, st, fr)
                outs = [(st, None)]
        except PathEnd:
            outs = []
        # pending throws recorded during expression evaluation
        res = []
        for (s, o) in outs:
            res.append((s, o))
            if s.throws:
                for (ts, cls, tn) in s.throws: res.append((ts, ('throw', cls, tn)))
                s.throws = []
        if st.throws:
            for (ts, cls, tn) in st.throws: res.append((ts, ('throw', cls, tn)))
            st.throws = []
        return res

    def st_CompoundStmt(self, n, st, fr):
        states = [(st, None)]
        for c in n.get('inner', []):
            nxt = []
            for (s, o) in states:
                if o is not None: nxt.append((s, o)); continue
                nxt.extend(self.exec_stmt(c, s, fr))
            states = nxt
        return states

    def st_NullStmt(self, n, st, fr):
        return [(st, None)]

    def st_DeclStmt(self, n, st, fr):
        for d in n.get('inner', []):
            self.declare(d, st, fr)
        return [(st, None)]

    # references into vector storage: C++ invalidates them when the vector reallocates. A reference variable bound to an element
    # remembers the storage epoch of its vector; every later use of the variable must find the same epoch ('dangling-ref' safety)
    def element_owner(self, v):
        r = None
        if isinstance(v, ObjLV): r = v.ref
        elif isinstance(v, ElemLV): return v.vref
        if r is not None and z3.is_app(r) and r.decl().kind() == z3.Z3_OP_UNINTERPRETED and r.decl().name() == 'elem' and r.num_args() == 2:
            return r.arg(0)
        return None

    def note_reference(self, st, vid, v):
        if not self.safety_on('dangling-ref'): return
        owner = self.element_owner(v)
        if owner is None: return
        st.ghost['refbind!%s' % vid] = Rec('refbind', {'vec': owner, 'epoch': self.hread(st, 'vec.epoch', owner, I)})

    def check_reference(self, st, vid, n, fr):
        rb = st.ghost.get('refbind!%s' % vid)
        if rb is None: return
        now = self.hread(st, 'vec.epoch', rb.f['vec'], I)
        if now.eq(rb.f['epoch']): return
        self.oblige(st, 'safety:reference-into-a-vector-is-still-valid(%s)' % self.var_names.get(vid, '?'), now == rb.f['epoch'], where=self.where(n, fr))

    def declare(self, d, st, fr):
        k = d['kind']
        if k == 'VarDecl':
            self.var_names[d['id']] = d.get('name')
            t = TY.of_node(d)
            init = [c for c in d.get('inner', []) if 'kind' in c and c['kind'] != 'FullComment']
            if d.get('storageClass') == 'static' and not init:
                raise Unsupported('static local without initialiser')
            if t.ref:
                v = self.ev(init[0], st, fr)
                if not isinstance(v, LVS): v = self.materialize(st, v, init[0])
                st.env[d['id']] = v
                self.note_reference(st, d['id'], v)
                return
            if not init:
                if self.is_value_type(t):
                    if t.kind == 'record': st.env[d['id']] = self.default_value_class(st, t, fr)
                    else: st.env[d['id']] = self.fresh_value(t, 'uninit.' + d.get('name', 'v'))
                else:
                    obj = ObjLV(self.new_object(), t)
                    self.models.default_construct(st, obj, d, fr)
                    st.env[d['id']] = obj
                return
            v = self.ev(init[0], st, fr)
            if isinstance(v, ObjLV):
                if init[0].get('valueCategory') != 'prvalue' and not self.is_temp_obj(v): v = self.copy_object(st, v)
                st.env[d['id']] = v
                return
            if isinstance(v, LVS): v = self.load(st, v, t)
            if t.kind == 'int' and z3.is_real(v): v = self.float_to_int(st, v, t, d, fr)
            if t.kind == 'real' and z3.is_int(v): v = z3.ToReal(v)
            if self.name_locals and fr.depth <= self.name_locals and is_z3(v) and (z3.is_real(v) or z3.is_int(v)) and not (z3.is_const(v) or z3.is_rational_value(v) or z3.is_int_value(v)):
                sym = self.fresh('L.' + d.get('name', 'v'), v.sort())
                eq = sym == v
                st.pc.append(eq)
                self.axiom_ids.add(eq.get_id())
                self.def_eqs[eq.get_id()] = (sym, v, d.get('name'))
                v = sym
            st.env[d['id']] = v
            return
        if k == 'DecompositionDecl':
            t = TY.of_node(d)
            init = [c for c in d.get('inner', []) if c.get('kind') not in ('BindingDecl',)]
            binds = [c for c in d.get('inner', []) if c.get('kind') == 'BindingDecl']
            v = self.ev(init[0], st, fr)
            if t.ref:
                if not isinstance(v, LVS): v = self.materialize(st, v, init[0])
                base = v
            else:
                if isinstance(v, LVS) and not isinstance(v, ObjLV): v = self.load(st, v)
                st.env[d['id']] = v
                base = LocalLV(d['id'])
            for i, b in enumerate(binds):
                self.var_names[b['id']] = b.get('name')
                names = self.decomp_names(st, base, t, len(binds))
                st.env[b['id']] = self.member_lv(st, base, names[i], None)
            return
        if k in ('TypedefDecl', 'TypeAliasDecl', 'UsingDecl', 'StaticAssertDecl', 'EmptyDecl', 'CXXRecordDecl', 'UsingDirectiveDecl'):
            return
        raise Unsupported('declaration kind %s' % k)

    def is_temp_obj(self, v):
        return z3.is_int_value(v.ref) and v.ref.as_long() < 0

    def decomp_names(self, st, base, t, nb):
        t = t.noref()
        if t.kind == 'array': return [str(i) for i in range(nb)]
        if t.kind == 'pair': return ['first', 'second']
        if t.kind == 'tuple': return [str(i) for i in range(nb)]
        if t.kind == 'record': return [fn for (fn, _, _, _) in self.layout(t.name)][:nb]
        raise Unsupported('structured binding of %r' % (t,))

    def st_ReturnStmt(self, n, st, fr):
        if not n.get('inner'): return [(st, ('ret', None, n))]
        e = n['inner'][0]
        rt = fr.ret_ty
        if rt is not None and rt.ref:
            v = self.ev(e, st, fr)
            if not isinstance(v, LVS): raise Unsupported('returning a prvalue by reference')
            return [(st, ('ret', v, n))]
        v = self.ev(e, st, fr)
        if isinstance(v, ObjLV):
            if e.get('valueCategory') != 'prvalue' and not self.is_temp_obj(v): v = self.copy_object(st, v)
        elif isinstance(v, LVS):
            v = self.load(st, v)
        return [(st, ('ret', v, n))]

    def st_IfStmt(self, n, st, fr):
        inner = [c for c in n['inner']]
        if n.get('hasInit') or n.get('hasVar'): raise Unsupported('if with init/var')
        c = self.as_bool(self.rv(inner[0], st, fr))
        cs = z3.simplify(c)
        outs = []
        if z3.is_true(cs): return self.exec_stmt(inner[1], st, fr)
        if z3.is_false(cs):
            return self.exec_stmt(inner[2], st, fr) if len(inner) > 2 else [(st, None)]
        s1 = st.clone(); s1.pc.append(c)
        s2 = st.clone(); s2.pc.append(z3.Not(c))
        o1 = self.exec_stmt(inner[1], s1, fr)
        o2 = self.exec_stmt(inner[2], s2, fr) if len(inner) > 2 else [(s2, None)]
        allo = o1 + o2
        normal = [s for (s, o) in allo if o is None]
        other = [(s, o) for (s, o) in allo if o is not None]
        if len(normal) > 1:
            if self.split_heap_ifs and fr.depth <= 1 and not self.same_heaps(normal):
                return [(s, None) for s in normal] + other      # keep paths that wrote different things to the heap apart
            m, _ = merge_states(normal, base=self.base_for)
            normal = [m]
        return [(s, None) for s in normal] + other

    def same_heaps(self, states):
        h0 = states[0].heap
        for s in states[1:]:
            if set(s.heap) != set(h0): return False
            for k, v in s.heap.items():
                if not (v is h0[k] or v.eq(h0[k])): return False
        return True

    def st_SwitchStmt(self, n, st, fr):
        """switch over an integer: one path per label (fall-through honoured), 'break' leaves the switch"""
        if n.get('hasInit') or n.get('hasVar'): raise Unsupported('switch with init/var')
        v = self.rv(n['inner'][0], st, fr)
        body = n['inner'][1]
        if body.get('kind') != 'CompoundStmt': raise Unsupported('switch body is not a block')
        flat = []            # [(label value | 'default' | None, stmt)]
        def add(x, labels):
            k = x.get('kind')
            if k == 'CaseStmt':
                val = self.rv(x['inner'][0], st, fr)
                add(x['inner'][-1], labels + [val])
            elif k == 'DefaultStmt':
                add(x['inner'][-1], labels + ['default'])
            else:
                flat.append((labels, x))
        for c in body.get('inner', []):
            if isinstance(c, dict) and 'kind' in c: add(c, [])
        case_vals = [l for (labels, _) in flat for l in labels if not isinstance(l, str)]
        has_default = any(isinstance(l, str) for (labels, _) in flat for l in labels)
        results = []; normal = []
        def run_from(pos, s):
            cur = [s]
            for (_, stmt) in flat[pos:]:
                nxt = []
                for s_ in cur:
                    for (s2, o) in self.exec_stmt(stmt, s_, fr):
                        if o is None: nxt.append(s2)
                        elif o[0] == 'break': normal.append(s2)
                        else: results.append((s2, o))
                cur = nxt
                if not cur: break
            normal.extend(cur)
        for pos, (labels, stmt) in enumerate(flat):
            for l in labels:
                s1 = st.clone()
                if isinstance(l, str): s1.pc.append(z3.And(*[v != c for c in case_vals]) if case_vals else z3.BoolVal(True))
                else: s1.pc.append(v == l)
                if z3.is_false(z3.simplify(s1.pc[-1])): continue
                run_from(pos, s1)
        if not has_default:
            s1 = st.clone(); s1.pc.append(z3.And(*[v != c for c in case_vals]) if case_vals else z3.BoolVal(True)); normal.append(s1)
        if len(normal) > 1:
            m, _ = merge_states(normal, base=self.base_for); normal = [m]
        return [(s_, None) for s_ in normal] + results

    def st_BreakStmt(self, n, st, fr): return [(st, ('break',))]
    def st_ContinueStmt(self, n, st, fr): return [(st, ('continue',))]

    def st_CXXTryStmt(self, n, st, fr):
        body = n['inner'][0]; handlers = n['inner'][1:]
        outs = self.exec_stmt(body, st, fr)
        res = []
        for (s, o) in outs:
            if o is not None and o[0] == 'throw':
                handled = False
                for h in handlers:
                    decl = h['inner'][0] if len(h['inner']) > 1 else None
                    hb = h['inner'][-1]
                    if decl is None or decl.get('kind') != 'VarDecl':
                        catches = True
                    else:
                        ct = TY.of_node(decl).noref()
                        catches = self.models.exception_derives(o[1], ct.name)
                        self.var_names[decl['id']] = decl.get('name')
                        if catches: s.env[decl['id']] = Opaque('exception', o[1])
                    if catches:
                        res.extend(self.exec_stmt(hb, s, fr)); handled = True; break
                if not handled: res.append((s, o))
            else:
                res.append((s, o))
        return res

    # OpenMP: sequential semantics (DESIGN 4.3-2)
    def st_omp(self, n, st, fr):
        for c in n.get('inner', []):
            if c.get('kind') == 'CapturedStmt':
                cd = next(x for x in c['inner'] if x.get('kind') in ('CapturedDecl',) or 'Stmt' in x.get('kind', ''))
                if cd.get('kind') == 'CapturedDecl':
                    body = next(x for x in cd['inner'] if 'Stmt' in x.get('kind', '') or x.get('kind', '').endswith('Operator') or x.get('kind', '').endswith('Expr'))
                    return self.exec_stmt(body, st, fr)
                return self.exec_stmt(cd, st, fr)
            if 'Stmt' in c.get('kind', '') or c.get('kind', '').endswith(('Operator', 'Expr')):
                return self.exec_stmt(c, st, fr)
        return [(st, None)]

    st_OMPParallelForDirective = st_omp
    st_OMPCriticalDirective = st_omp
    st_OMPAtomicDirective = st_omp
    st_OMPParallelDirective = st_omp
    st_OMPForDirective = st_omp
    st_CapturedStmt = st_omp

    # loops --------------------------------------------------------------------------
    def loop_ordinal(self, n, fr):
        fid = fr.fn['id']
        if fid not in self.loop_ord_cache:
            m = {}; cnt = [0]
            def visit(x):
                if not isinstance(x, dict): return
                if x.get('kind') in ('ForStmt', 'WhileStmt', 'DoStmt', 'CXXForRangeStmt'):
                    m[x['id']] = cnt[0]; cnt[0] += 1
                if x.get('kind') == 'LambdaExpr':
                    # the lambda body appears twice in the dump (inside the closure class and as last child)
                    for c in x.get('inner', [])[1:]: visit(c)
                    return
                for c in x.get('inner', []): visit(c)
            visit(self.ast.body_of(fr.fn))
            self.loop_ord_cache[fid] = m
        return self.loop_ord_cache[fid].get(n['id'])

    def st_ForStmt(self, n, st, fr):
        init, condvar, cond, inc, body = n['inner']
        if init and init.get('kind'):
            outs = self.exec_stmt(init, st, fr)
            assert len(outs) == 1 and outs[0][1] is None
        return self.run_loop(n, st, fr, cond if cond.get('kind') else None, inc if inc.get('kind') else None, body, pre_test=True)

    def st_WhileStmt(self, n, st, fr):
        inner = n['inner']
        cond, body = inner[-2], inner[-1]
        return self.run_loop(n, st, fr, cond, None, body, pre_test=True)

    def st_DoStmt(self, n, st, fr):
        body, cond = n['inner']
        return self.run_loop(n, st, fr, cond, None, body, pre_test=False)

    def st_CXXForRangeStmt(self, n, st, fr):
        return self.models.range_for(n, st, fr)

    def run_loop(self, n, st, fr, cond, inc, body, pre_test=True, bind=None, range_info=None, use_contract=True):
        """generic loop: contract if the spec has one, else bounded unrolling that must terminate syntactically"""
        ordn = self.loop_ordinal(n, fr)
        if self.stop_at_loop is not None and self.stop_at_loop == (fr.fn['id'], ordn):
            self.stopped_states.append(st)        # prefix contracts: the state on entry to the loop is what is specified
            return []
        lc = self.specs.loop_contract(fr.qname, ordn) if (self.specs and use_contract) else None
        if lc is not None:
            return lc.apply(self, n, st, fr, cond, inc, body, pre_test, bind, range_info)
        results = []
        cur = [st]
        first = True
        for it in range(self.unroll_limit + 1):
            nxt = []
            for s in cur:
                if pre_test or not first:
                    if cond is not None:
                        c = self.as_bool(self.rv(cond, s, fr))
                        cs = z3.simplify(c)
                        if z3.is_false(cs):
                            results.append((s, None)); continue
                        if not z3.is_true(cs):
                            if not self.unroll_symbolic:
                                raise Unsupported('loop #%s of %s has no contract and a symbolic guard (at %s)' % (ordn, fr.qname, self.where(n, fr)))
                            if it == self.unroll_symbolic:
                                # complete unwinding: after N iterations the guard must be false (an obligation, not an assumption)
                                self.obligations.append(Obligation('unwinding[%s]:at-most-%d-iterations' % (ordn, self.unroll_symbolic), s.pc, z3.Not(c), 'loop', self.where(n, fr), info={'fn': fr.qname}))
                                s.pc.append(z3.Not(c)); results.append((s, None)); continue
                            sx = s.clone(); sx.pc.append(z3.Not(c)); results.append((sx, None))
                            s.pc.append(c)
                if it == self.unroll_limit:
                    raise Unsupported('loop #%s of %s exceeds the unroll limit without a contract (at %s)' % (ordn, fr.qname, self.where(n, fr)))
                if bind is not None:
                    if not bind(s, it):
                        results.append((s, None)); continue
                for (s2, o) in self.exec_stmt(body, s, fr):
                    if o is None or o[0] == 'continue':
                        if inc is not None: self.ev(inc, s2, fr)
                        nxt.append(s2)
                    elif o[0] == 'break': results.append((s2, None))
                    else: results.append((s2, o))
            first = False
            cur = nxt
            if not cur: break
        normal = [s for (s, o) in results if o is None]
        other = [(s, o) for (s, o) in results if o is not None]
        if len(normal) > 1:
            m, _ = merge_states(normal, base=self.base_for); normal = [m]
        return [(s, None) for s in normal] + other

    def path_decides_unused(self, s, c):
        """for unrolling small loops whose bound is a small symbolic quantity (e.g. 0..2): allow forks"""
        return False
