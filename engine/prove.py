"""Proof orchestration: per obligation  (1) abstraction proof ("via") if the spec gives one, (2) direct portfolio,
(3) falsification by partial pinning.  All z3 API calls happen in the main thread; solver processes run 16-wide."""
import os, z3, random, time, tempfile, shutil, concurrent.futures, fractions
import smt
from symex import Obligation
from values import QForall
from values import is_z3


class Lemma:
    """a universally valid fact proved on its own: hyps = 'ghost' (ghost definitions only), 'pre' (+ the function's
    requires) or 'full' (+ the whole path condition).  `subst` instantiates generic symbols after the proof."""
    def __init__(self, name, goal, hyps='pre', subst=()):
        self.name = name; self.goal = goal; self.hyps = hyps; self.subst = list(subst)

    def instance(self):
        return z3.substitute(self.goal, *self.subst) if self.subst else self.goal


class Via:
    """Abstraction certificate supplied by a spec for one obligation.
    ghosts:     {name: concrete term over the inputs}
    build(G):   G = {name: fresh Real symbol}; returns dict with
                  'candidates': [abstract terms over G]  -- matched against the code's named locals (lemma per match)
                  'lemmas':     [Lemma]                  -- each proved separately; instances free of input symbols
                                                            enter the abstract world, all instances enter the link step
                  'goal':       abstract formula         -- proved from input-free hypotheses only
    The obligation is discharged when: every lemma holds, abstract hypotheses |- goal, and lemma instances + goal |- the
    concrete goal (link)."""
    def __init__(self, ghosts, build):
        self.ghosts = ghosts; self.build = build


def consts_of(e, memo=None):
    out = set(); seen = set()

    def walk(x):
        if x.get_id() in seen: return
        seen.add(x.get_id())
        if z3.is_const(x) and x.decl().kind() == z3.Z3_OP_UNINTERPRETED: out.add(x.get_id())
        for c in x.children(): walk(c)
    walk(e)
    return out


def heap_inputs(exprs, limit=80):
    """reads of the initial heap, select(<base array>, index) with a scalar result: the heap part of a function's input"""
    out = []; seen = set(); ids = set()

    def is_base(a):
        return z3.is_const(a) and a.decl().kind() == z3.Z3_OP_UNINTERPRETED and str(a).endswith('!0')

    def walk(x):
        if x.get_id() in seen: return
        seen.add(x.get_id())
        if z3.is_app(x) and x.decl().kind() == z3.Z3_OP_SELECT and not z3.is_array(x):
            a = x.arg(0)
            if is_base(a) or (z3.is_app(a) and a.decl().kind() == z3.Z3_OP_SELECT and is_base(a.arg(0))):
                if x.get_id() not in ids: ids.add(x.get_id()); out.append(x)
        for c in x.children(): walk(c)
    for e in exprs:
        if is_z3(e): walk(e)
    return out[:limit]


def eval_chain(defs, assign):
    """defs: ordered [(sym, expr)]; assign: {sym: numeral}; returns {sym id: value term} for all evaluable symbols"""
    sub = list(assign.items())
    vals = {k.get_id(): v for k, v in assign.items()}
    for sym, expr in defs:
        v = z3.simplify(z3.substitute(expr, *sub))
        if z3.is_rational_value(v) or z3.is_int_value(v):
            sub.append((sym, v)); vals[sym.get_id()] = v
    return sub, vals


class Task:
    def __init__(self, ob, label, hyps, goal, plan, values=()):
        self.ob = ob; self.label = label; self.plan = plan
        self.status = None; self.backend = None; self.detail = ''; self.time = 0.0; self.model = {}
        t0 = time.time()
        try:
            gs = z3.simplify(goal)
            if z3.is_true(gs):
                self.smt2 = None; self.status = 'unsat'; self.backend = 'simplifier'
            else:
                self.smt2 = smt.to_smt2(hyps, goal, values)
        except Exception as ex:
            self.smt2 = None; self.status = 'error'; self.detail = repr(ex)
        self.has_values = bool(values)
        self.time = time.time() - t0

    def run(self, wd):
        if self.smt2 is None: return self
        t0 = time.time(); tried = []
        for (name, tmo) in self.plan:
            r, out, dt = smt.run_solver(name, self.smt2, tmo, wd)
            tried.append('%s:%s:%.2fs' % (name, r, dt))
            if r in ('sat', 'unsat'):
                self.status = r; self.backend = name
                if r == 'sat' and self.has_values: self.model = smt.parse_values(out)
                self.model_text = out
                break
        else:
            self.status = 'unknown'
        self.detail = ' '.join(tried); self.time += time.time() - t0
        return self


def run_tasks(tasks, jobs=16):
    wd = tempfile.mkdtemp(prefix='verif_smt_')
    try:
        with concurrent.futures.ThreadPoolExecutor(max_workers=jobs) as ex:
            list(ex.map(lambda t: t.run(wd), tasks))
    finally:
        shutil.rmtree(wd, ignore_errors=True)
    return tasks


FAST = [('z3-5.1.0', 3), ('cvc5-1.0.3', 4)]
QUICK = [('z3-5.1.0', 10), ('cvc5-1.0.3', 15), ('z3-4.8.12', 15)]
LONG_QUICK = [('z3-5.1.0', 60)]
THOROUGH = [('z3-5.1.0', 60), ('cvc5-1.0.3', 60), ('z3-4.8.12', 60), ('z3-5.1.0', 900)]


class Prover:
    def __init__(self, eng, tier='quick', seed=0, log=None):
        self.e = eng; self.tier = tier; self.rnd = random.Random(seed); self.log = log or (lambda *a: None)
        self.records = []      # every solver call that counts as a (sub-)obligation: dict for the evidence

    # ------------------------------------------------------------------
    def prove_all(self, obs, inputs_of):
        """obs: list of Obligation; inputs_of(ob) -> list of input leaf symbols (for pinning / replay values)"""
        # stage 0: trivial ones
        pending = []
        only_ = os.environ.get('VERIF_ONLY_OB')
        for ob in obs:
            ob.steps = []
            if only_ and only_ not in ob.name:
                ob.status = 'skipped'; ob.time = 0.0; ob.detail = 'skipped (VERIF_ONLY_OB)'; continue
            pending.append(ob)
        # stage 0.5: cuts -- intermediate facts named by the spec; each is itself proved from the path condition (as a
        # separate, counted obligation) and only then added to the hypotheses of the clause it belongs to
        ncuts = max([len(ob.info.get('cuts', [])) for ob in pending] + [0])
        for ci in range(ncuts):            # cuts are proved in order; cut k may use cuts 0..k-1
            cut_obs = []
            for ob in pending:
                cuts = ob.info.get('cuts', [])
                if ci < len(cuts):
                    co = Obligation(ob.name + '/cut%d' % ci, ob.pc, cuts[ci], 'cut', ob.where, hyps=list(ob.hyps), info=dict(ob.info, cuts=[], via=None))
                    co.parent = ob; co.steps = []
                    cut_obs.append(co)
            if cut_obs:
                self.prove_all(cut_obs, inputs_of)
                for co in cut_obs:
                    if co.status == 'unsat': co.parent.hyps.append(co.goal)
                self.cut_obligations = getattr(self, 'cut_obligations', []) + cut_obs
        # stage 1: abstraction proofs
        with_via = [ob for ob in pending if ob.info.get('via') is not None]
        self.via_stage(with_via, inputs_of)
        pending = [ob for ob in pending if ob.status != 'unsat']
        # stage 2: direct, short budget
        # stage 1b: cone-of-influence pass (hypotheses unrelated to the goal dropped: a weakening, only 'unsat' is kept)
        if pending:
            # stage 1a: identities need no hypotheses at all; clauses with cuts often follow from the cuts alone
            tasks = []
            for ob in pending:
                try:
                    if not isinstance(ob.goal, QForall):
                        tasks.append(Task(ob, 'goal-alone', [], ob.goal, [('z3-5.1.0', 3)]))
                        if ob.hyps:
                            hc = [h for h in ob.hyps if is_z3(h)]
                            tasks.append(Task(ob, 'from-the-cuts-alone', hc, ob.goal, [('z3-5.1.0', 5), ('cvc5-1.0.3', 5)]))
                            gen = smt.generalize(hc + [ob.goal])
                            tasks.append(Task(ob, 'from-the-cuts-generalised', gen[:-1], gen[-1], [('z3-5.1.0', 5), ('cvc5-1.0.3', 5)]))
                except Exception:
                    pass
            run_tasks(tasks)
            for t in tasks:
                if t.status == 'unsat':
                    t.ob.status = 'unsat'; t.ob.backend = t.backend; t.ob.smt2 = t.smt2
                    t.ob.steps.append(self.rec(t.ob, t))
            pending = [ob for ob in pending if ob.status != 'unsat']
            # quantified facts handed to the solvers as quantifiers (E-matching): list / permutation reasoning needs chains of
            # instances that one round of term instantiation does not produce; only 'unsat' is kept
            tasks = []
            for ob in pending:
                try:
                    hy, gl, nq = smt.expand_native(ob)
                    if nq:
                        tasks.append(Task(ob, 'native-quantifiers', hy, gl, [('z3-5.1.0', 8), ('cvc5-1.0.3', 8)]))
                        ob._native = (hy, gl)
                        import os as _os
                        if _os.environ.get('VERIF_DUMP_NATIVE') and _os.environ['VERIF_DUMP_NATIVE'] in ob.name:
                            open('/tmp/native_%d.smt2' % len(tasks), 'w').write(tasks[-1].smt2 or '')
                except Exception:
                    pass
            run_tasks(tasks)
            for t in tasks:
                if t.status == 'unsat':
                    t.ob.status = 'unsat'; t.ob.backend = t.backend + '+quantifiers'; t.ob.smt2 = t.smt2
                    t.ob.steps.append(self.rec(t.ob, t))
            pending = [ob for ob in pending if ob.status != 'unsat']
            tasks = []
            for ob in pending:
                try:
                    hy, gl = smt.expand(ob, relevant=True)
                    tasks.append(Task(ob, 'direct-relevant', hy, gl, FAST + [('z3-4.8.12', 10)]))
                except Exception:
                    pass
            run_tasks(tasks)
            for t in tasks:
                if t.status == 'unsat':
                    t.ob.status = 'unsat'; t.ob.backend = t.backend; t.ob.smt2 = t.smt2
                    t.ob.steps.append(self.rec(t.ob, t))
            pending = [ob for ob in pending if ob.status != 'unsat']
            # second, longer attempt with solver-level quantifiers for what the instantiated problem did not settle
            tasks = [Task(ob, 'native-quantifiers-long', ob._native[0], ob._native[1], [('z3-5.1.0', 25), ('cvc5-1.0.3', 20)]) for ob in pending if getattr(ob, '_native', None)]
            run_tasks(tasks)
            for t in tasks:
                if t.status == 'unsat':
                    t.ob.status = 'unsat'; t.ob.backend = t.backend + '+quantifiers'; t.ob.smt2 = t.smt2
                    t.ob.steps.append(self.rec(t.ob, t))
            pending = [ob for ob in pending if ob.status != 'unsat']
            # equational back end: polynomial identities modulo the hypothesis equalities (sympy, exact)
            for ob in pending:
                if isinstance(ob.goal, QForall): continue
                t0 = time.time()
                try:
                    ok = self.poly_stage(ob)
                except Exception:
                    ok = False
                if ok:
                    ob.status = 'unsat'; ob.backend = 'sympy-1.14(groebner)'
                    r = {'obligation': ob.name, 'label': 'ideal-membership', 'status': 'unsat', 'backend': ob.backend, 'time': round(time.time() - t0, 3), 'detail': ''}
                    self.records.append(r); ob.steps.append(r)
            pending = [ob for ob in pending if ob.status != 'unsat']
            # hypotheses that speak only about symbols of the goal (sign facts, ranges): small non-linear problems
            tasks = []
            for ob in pending:
                try:
                    if isinstance(ob.goal, QForall): continue
                    gs = smt.const_ids(ob.goal, smt._cid_memo)
                    hy0, _ = smt.expand(ob, relevant=True)
                    hy = [h for h in hy0 if is_z3(h) and smt.const_ids(h, smt._cid_memo) and smt.const_ids(h, smt._cid_memo) <= gs]
                    tasks.append(Task(ob, 'goal-closed-hypotheses', hy, ob.goal, [('z3-5.1.0', 5), ('cvc5-1.0.3', 5), ('z3-4.8.12', 5)]))
                except Exception:
                    pass
            run_tasks(tasks)
            for t in tasks:
                if t.status == 'unsat':
                    t.ob.status = 'unsat'; t.ob.backend = t.backend; t.ob.smt2 = t.smt2
                    t.ob.steps.append(self.rec(t.ob, t))
            pending = [ob for ob in pending if ob.status != 'unsat']
            # same, with non-linear products replaced by uninterpreted functions (frame / bookkeeping goals need no algebra)
            tasks = []
            for ob in pending:
                try:
                    hy, gl = smt.expand(ob, relevant=True)
                    ab = smt.abstract_nl(hy + [gl])
                    tasks.append(Task(ob, 'relevant-nl-abstracted', ab[:-1], ab[-1], FAST + [('z3-4.8.12', 10)]))
                except Exception:
                    pass
            run_tasks(tasks)
            for t in tasks:
                if t.status == 'unsat':
                    t.ob.status = 'unsat'; t.ob.backend = t.backend + '+nl-abstraction'; t.ob.smt2 = t.smt2
                    t.ob.steps.append(self.rec(t.ob, t))
            pending = [ob for ob in pending if ob.status != 'unsat']
        for ob in pending:
            # the stages from here on may accept 'sat': universal facts get a second round of instances
            hyps, goal = smt.expand(ob, rounds=2)
            ob._hyps, ob._goal = hyps, goal
            base = list(ob.info.get('inputs', []))
            have = set(t.get_id() for t in base)
            ob.info['inputs'] = base + [t for t in heap_inputs(hyps + [goal]) if t.get_id() not in have]
        self.direct(pending, FAST, 'direct-fast', inputs_of)
        if os.environ.get('VERIF_FAST'):
            # development mode: no falsification / long attempts; what is not proved quickly stays undecided
            for ob in obs:
                ob.time = sum(s_['time'] for s_ in ob.steps)
                ob.detail = '; '.join('%s=%s(%s %.2fs)' % (s_['label'], s_['status'], s_['backend'], s_['time']) for s_ in ob.steps[-6:])
            return obs
        # stage 3: falsification by (full / partial) pinning of the inputs for the undecided ones
        unk = [ob for ob in pending if ob.status == 'unknown']
        if unk:
            tasks = []
            for ob in unk:
                ins = inputs_of(ob)
                for k in range(48 if self.tier == 'quick' else 256):
                    if k % 3 == 2:
                        nfree = [0, 3, max(3, len(ins) // 4), max(3, len(ins) // 2)][(k // 3) % 4]
                        pins = self.pins(ins, keep=nfree, ints=(k % 2 == 0))
                    else:
                        pins = self.group_pins(ins)
                    tasks.append(Task(ob, 'pin%d' % k, ob._hyps + pins, ob._goal, [('z3-5.1.0', 8)], ins))
            run_tasks(tasks)
            for t in tasks:
                if t.status == 'sat' and t.ob.status == 'unknown':
                    t.ob.status = 'sat'; t.ob.backend = t.backend + '+pinning'; t.ob.model = t.model
                    t.ob.model_text = getattr(t, 'model_text', ''); t.ob.smt2 = t.smt2
                    t.ob.steps.append(self.rec(t.ob, t))
        # stage 3a': model of the hypotheses first, then evaluate the goal in it (finds violations of identities: any generic
        # point of the path refutes them, while 'hyps and not goal' in one query is too hard for the non-linear solver)
        for ob in [o for o in pending if o.status == 'unknown']:
            self.model_then_eval(ob, inputs_of(ob))
        # stage 3b: non-linear integer products abstracted to an uninterpreted function (a weakening; only 'unsat' is kept)
        unk = [ob for ob in pending if ob.status == 'unknown']
        if unk:
            tasks = []
            for ob in unk:
                try:
                    ab = smt.abstract_nl(ob._hyps + [ob._goal])
                    tasks.append(Task(ob, 'direct-nl-abstracted', ab[:-1], ab[-1], [('z3-5.1.0', 30), ('cvc5-1.0.3', 30)]))
                except Exception:
                    pass
            run_tasks(tasks)
            for t in tasks:
                t.ob.steps.append(self.rec(t.ob, t))
                if t.status == 'unsat':
                    t.ob.status = 'unsat'; t.ob.backend = t.backend + '+nl-abstraction'; t.ob.smt2 = t.smt2
        self.direct([ob for ob in pending if ob.status == 'unknown'], (QUICK if self.tier == 'quick' else THOROUGH[:3]), 'direct', inputs_of)
        # stage 4: long attempt for what is still unknown
        unk = [ob for ob in pending if ob.status == 'unknown']
        if unk:
            plan = LONG_QUICK if self.tier == 'quick' else THOROUGH[3:]
            tasks = [Task(ob, 'direct-long', ob._hyps, ob._goal, plan, inputs_of(ob)) for ob in unk]
            run_tasks(tasks)
            for t in tasks:
                t.ob.steps.append(self.rec(t.ob, t))
                if t.status in ('sat', 'unsat'):
                    t.ob.status = t.status; t.ob.backend = t.backend; t.ob.model = t.model
                    t.ob.model_text = getattr(t, 'model_text', '')
        for ob in obs:
            ob.time = sum(s['time'] for s in ob.steps)
            ob.detail = '; '.join('%s=%s(%s %.2fs)' % (s['label'], s['status'], s['backend'], s['time']) for s in ob.steps[-6:])
        return obs

    def poly_stage(self, ob):
        import polyprove
        hy, gl = smt.expand(ob, relevant=True)
        conds = []; seen = set()

        def walk(x):
            if x.get_id() in seen: return
            seen.add(x.get_id())
            if z3.is_app(x) and x.decl().kind() == z3.Z3_OP_ITE and not z3.is_bool(x):
                c = x.arg(0)
                if all(not c.eq(d) for d in conds): conds.append(c)
            for ch in x.children(): walk(ch)
        walk(gl)
        if len(conds) > 3: return False
        import itertools
        for vals in itertools.product([True, False], repeat=len(conds)):
            sub = [(c, z3.BoolVal(v)) for c, v in zip(conds, vals)]
            lits = [c if v else z3.Not(c) for c, v in zip(conds, vals)]
            g2 = z3.simplify(z3.substitute(gl, *sub)) if sub else gl
            if z3.is_true(g2): continue
            hy2 = [z3.simplify(z3.substitute(h, *sub)) if sub else h for h in hy] + lits
            if any(z3.is_false(h) for h in hy2): continue
            if polyprove.prove_equalities(hy2, g2, budget=15): continue
            # the case may be infeasible
            s = z3.Solver(); s.set('timeout', 2000)
            for h in hy2: s.add(h)
            if s.check() == z3.unsat: continue
            return False
        return True

    def model_then_eval(self, ob, ins, tries=6):
        t0 = time.time()
        reals = [s for s in ins if z3.is_real(s)]
        for k in range(tries):
            s = z3.Solver(); s.set('timeout', 4000)
            for h in ob._hyps: s.add(h)
            self.rnd.shuffle(reals)
            for x in reals[:max(0, int(len(reals) * [0.8, 0.6, 0.4, 0.25, 0.5, 0.7][k % 6]))]:
                s.add(x == z3.RealVal(fractions.Fraction(self.rnd.randint(-12, 12), self.rnd.choice([1, 2, 4]))))
            try:
                if s.check() != z3.sat: continue
                m = s.model()
                v = m.eval(ob._goal, model_completion=True)
                if z3.is_false(v):
                    ob.status = 'sat'; ob.backend = 'z3-5.1.0(api)+model-of-path-then-evaluate'
                    ob.model = {}
                    for x in ins:
                        try:
                            val = m.eval(x, model_completion=True)
                            if z3.is_rational_value(val): ob.model[x.sexpr()] = fractions.Fraction(val.numerator_as_long(), val.denominator_as_long())
                            elif z3.is_int_value(val): ob.model[x.sexpr()] = fractions.Fraction(val.as_long())
                            elif z3.is_true(val) or z3.is_false(val): ob.model[x.sexpr()] = z3.is_true(val)
                        except Exception:
                            pass
                    ob.model_text = 'model of the path condition in which the goal evaluates to false:\n' + str(m)[:3000]
                    r = {'obligation': ob.name, 'label': 'model-then-eval', 'status': 'sat', 'backend': ob.backend, 'time': round(time.time() - t0, 3), 'detail': 'try %d' % k}
                    self.records.append(r); ob.steps.append(r)
                    return
            except z3.Z3Exception:
                continue

    def direct(self, obs, plan, label, inputs_of):
        tasks = [Task(ob, label, ob._hyps, ob._goal, plan, inputs_of(ob)) for ob in obs]
        run_tasks(tasks)
        for t in tasks:
            ob = t.ob
            ob.steps.append(self.rec(ob, t))
            ob.smt2 = t.smt2
            if t.status in ('sat', 'unsat'):
                ob.status = t.status; ob.backend = t.backend; ob.model = t.model; ob.model_text = getattr(t, 'model_text', '')
            else:
                ob.status = 'unknown'
        # a model of the instantiated problem is only a candidate when universal facts were instantiated lazily: before it counts as a
        # refutation the solvers get a long attempt on the quantified problem (guards against a slow machine turning a proof that
        # needs quantifier reasoning into an alarm)
        again = [ob for ob in obs if ob.status == 'sat' and getattr(ob, '_native', None) and not getattr(ob, '_native_long_done', False)]
        if again and not os.environ.get('VERIF_FAST'):
            tasks2 = [Task(ob, 'native-quantifiers-before-accepting-a-model', ob._native[0], ob._native[1], [('z3-5.1.0', 90), ('cvc5-1.0.3', 60)]) for ob in again]
            run_tasks(tasks2)
            for t in tasks2:
                t.ob._native_long_done = True
                t.ob.steps.append(self.rec(t.ob, t))
                if t.status == 'unsat':
                    t.ob.status = 'unsat'; t.ob.backend = t.backend + '+quantifiers'; t.ob.smt2 = t.smt2; t.ob.model = None

    def rec(self, ob, t):
        r = {'obligation': ob.name, 'label': t.label, 'status': t.status, 'backend': t.backend, 'time': round(t.time, 3), 'detail': t.detail}
        self.records.append(r)
        return r

    def group_pins(self, ins):
        """pin whole groups of inputs (all reads of one vec3 field / one scalar field), each group with probability 1/2"""
        groups = {}
        for s in ins:
            if not z3.is_real(s): continue
            nm = str(s.arg(0)) if (z3.is_app(s) and s.num_args() > 0) else str(s)
            nm = nm.split('!')[0]
            key = nm.rsplit('.', 1)[0] if nm.endswith(('.dx_', '.dy_', '.dz_')) else nm
            groups.setdefault(key, []).append(s)
        out = []
        for key, members in sorted(groups.items()):
            if self.rnd.random() < 0.5: continue
            positive = self.rnd.random() < 0.5
            for s in members:
                v = fractions.Fraction(self.rnd.randint(1, 12) if positive else self.rnd.randint(-8, 8), self.rnd.choice([1, 2, 4]))
                out.append(s == z3.RealVal(v))
        return out

    def pins(self, ins, keep=3, ints=True):
        ins = list(ins)
        self.rnd.shuffle(ins)
        out = []
        for s in ins[keep:]:
            if z3.is_real(s):
                out.append(s == z3.RealVal(fractions.Fraction(self.rnd.randint(-12, 12), self.rnd.choice([1, 2, 4]))))
            elif z3.is_int(s) and ints:
                out.append(s == self.rnd.randint(0, 6))
        return out

    # ------------------------------------------------------------------
    def via_stage(self, obs, inputs_of):
        e = self.e
        plan = QUICK if self.tier == 'quick' else THOROUGH[:3]
        ctxs = []
        match_tasks = []
        for ob in obs:
            via = ob.info['via']
            G = {k: e.fresh('G.' + k, z3.RealSort()) for k in via.ghosts}
            gdefs = [G[k] == v for k, v in via.ghosts.items()]
            spec = via.build(G)
            hyps = [p for p in ob.pc if not isinstance(p, QForall)]
            defs = [(e.def_eqs[p.get_id()][0], e.def_eqs[p.get_id()][1], e.def_eqs[p.get_id()][2], p) for p in hyps if is_z3(p) and p.get_id() in e.def_eqs]
            ins = list(inputs_of(ob))
            # numeric pre-filter: two random evaluations of all definitions
            cand_ok = {}
            for trial in range(2):
                assign = {s: (z3.RealVal(fractions.Fraction(self.rnd.randint(-50, 50), self.rnd.randint(1, 9))) if z3.is_real(s) else z3.IntVal(self.rnd.randint(0, 9))) for s in ins}
                chain = [(G[k], v) for k, v in via.ghosts.items()] + [(s, x) for (s, x, _, _) in defs]
                sub, vals = eval_chain(chain, assign)
                for (s, x, nm, p) in defs:
                    if not z3.is_real(s) or s.get_id() not in vals: continue
                    for ci, c in enumerate(spec.get('candidates', [])):
                        cv = z3.simplify(z3.substitute(c, *sub))
                        ok = z3.is_rational_value(cv) and z3.is_true(z3.simplify(cv == vals[s.get_id()]))
                        key = (s.get_id(), ci)
                        cand_ok[key] = cand_ok.get(key, True) and ok
            cx = {'ob': ob, 'G': G, 'gdefs': gdefs, 'spec': spec, 'hyps': hyps, 'defs': defs, 'match': {}, 'ins': ins}
            ctxs.append(cx)
            for (s, x, nm, p) in defs:
                if not z3.is_real(s): continue
                for ci, c in enumerate(spec.get('candidates', [])):
                    if cand_ok.get((s.get_id(), ci)):
                        t = Task(ob, 'lemma:match:%s' % nm, [pp for (_, _, _, pp) in defs] + gdefs, s == c, FAST + plan)
                        t.cx = cx; t.sym = s; t.cand = c
                        match_tasks.append(t)
                        break
        run_tasks(match_tasks)
        for t in match_tasks:
            t.ob.steps.append(self.rec(t.ob, t))
            if t.status == 'unsat': t.cx['match'][t.sym.get_id()] = (t.sym, t.cand)
        # optional hints: facts of the abstract world that are tried and, when proved, added as cuts
        hint_tasks = []
        for cx in ctxs:
            ob = cx['ob']; spec = cx['spec']
            inset = set(s.get_id() for s in cx['ins'])
            lemmas = spec.get('lemmas', [])
            cx['insts'] = [lm.instance() for lm in lemmas]
            abst = [h for h in cx['hyps'] if not (consts_of(h) & inset)]
            abst += [s == c for (s, c) in cx['match'].values()]
            abst += [i for i in cx['insts'] if not (consts_of(i) & inset)]
            cx['abst'] = abst; cx['cuts'] = []
            # identities need no case analysis: first try with the equational hypotheses and the lemma facts only
            eqs = [h for h in abst if (z3.is_eq(h) or any(h is i for i in cx['insts']))]
            cx['eqs'] = eqs
            for hi, h in enumerate(spec.get('hints', [])):
                t = Task(ob, 'hint%d' % hi, eqs, h, FAST); t.cx = cx; t.hint = h; hint_tasks.append(t)
        run_tasks(hint_tasks)
        retry = []
        for t in hint_tasks:
            if t.status == 'unsat':
                t.cx['cuts'].append(t.hint); t.ob.steps.append(self.rec(t.ob, t))
            else:
                t2 = Task(t.ob, t.label + '-full', t.cx['abst'], t.hint, [('z3-5.1.0', 10)]); t2.cx = t.cx; t2.hint = t.hint; retry.append(t2)
        run_tasks(retry)
        for t in retry:
            if t.status == 'unsat':
                t.cx['cuts'].append(t.hint); t.ob.steps.append(self.rec(t.ob, t))
        # lemmas, abstract goal, link
        tasks = []
        for cx in ctxs:
            ob = cx['ob']; spec = cx['spec']
            reqs = list(ob.info.get('requires', []))
            for lm in spec.get('lemmas', []):
                hy = list(cx['gdefs'])
                if lm.hyps in ('pre', 'full'): hy += reqs
                if lm.hyps == 'full': hy = cx['hyps'] + cx['gdefs']
                t = Task(ob, 'lemma:%s' % lm.name, hy, lm.goal, FAST + plan); t.cx = cx; tasks.append(t)
            goal = spec.get('goal', ob.goal)
            t = Task(ob, 'abstract-goal', cx['abst'] + cx['cuts'], goal, FAST + plan + (LONG_QUICK if self.tier == 'quick' else THOROUGH[3:])); t.cx = cx; tasks.append(t)
            if 'goal' in spec:
                t = Task(ob, 'link', cx['insts'] + [spec['goal']], ob.goal, FAST + plan); t.cx = cx; tasks.append(t)
        run_tasks(tasks)
        for t in tasks:
            t.ob.steps.append(self.rec(t.ob, t))
            t.cx.setdefault('res', []).append(t)
        for cx in ctxs:
            ob = cx['ob']
            if all(t.status == 'unsat' for t in cx.get('res', [])):
                ob.status = 'unsat'; ob.backend = 'via:' + '+'.join(sorted(set(t.backend for t in cx['res'])))
            else:
                ob.status = None
                ob.via_failed = [(t.label, t.status) for t in cx['res'] if t.status != 'unsat']
