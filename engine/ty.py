"""Tiny parser for clang qualType strings -> normalised type descriptions."""
import re

INT_RANGES = {
    'bool': (0, 1),
    'char': (-128, 127), 'signed char': (-128, 127), 'unsigned char': (0, 255),
    'short': (-2**15, 2**15 - 1), 'unsigned short': (0, 2**16 - 1),
    'int': (-2**31, 2**31 - 1), 'unsigned int': (0, 2**32 - 1),
    'long': (-2**63, 2**63 - 1), 'unsigned long': (0, 2**64 - 1),
    'long long': (-2**63, 2**63 - 1), 'unsigned long long': (0, 2**64 - 1),
}
ALIASES = {'size_t': 'unsigned long', 'std::size_t': 'unsigned long', 'unsigned': 'unsigned int', 'uint': 'unsigned int',
           'std::vector::size_type': 'unsigned long', 'ptrdiff_t': 'long', 'std::ptrdiff_t': 'long',
           'unsigned short int': 'unsigned short', 'short int': 'short', 'long int': 'long', 'unsigned long int': 'unsigned long',
           'difference_type': 'long', 'size_type': 'unsigned long', 'uint8_t': 'unsigned char', 'uint16_t': 'unsigned short',
           'uint32_t': 'unsigned int', 'uint64_t': 'unsigned long', 'int32_t': 'int', 'int64_t': 'long'}
REALS = ('double', 'float', 'long double')


class T:
    __slots__ = ('kind', 'name', 'args', 'ref', 'const', 'raw')
    # kind: 'void','bool','int','real','record','ptr','vector','array','pair','optional','flist','list','set','map',
    #       'string','iter','lambda','tuple','other','initlist','enum','function'

    def __init__(self, kind, name=None, args=(), ref='', const=False, raw=''):
        self.kind = kind; self.name = name; self.args = tuple(args); self.ref = ref; self.const = const; self.raw = raw

    def __repr__(self):
        a = '<' + ','.join(map(repr, self.args)) + '>' if self.args else ''
        return '%s%s%s%s' % (self.kind if self.name is None else self.name, a, self.ref, '')

    def noref(self):
        return T(self.kind, self.name, self.args, '', self.const, self.raw)

    def is_scalar(self):
        return self.kind in ('bool', 'int', 'real', 'ptr', 'enum', 'string')


def split_targs(s):
    """split 'a, b<c, d>, e' at top-level commas"""
    out = []; depth = 0; cur = ''
    for ch in s:
        if ch in '<([': depth += 1
        if ch in '>)]': depth -= 1
        if ch == ',' and depth == 0:
            out.append(cur.strip()); cur = ''
        else:
            cur += ch
    if cur.strip(): out.append(cur.strip())
    return out


_cache = {}


def parse(q):
    if q in _cache: return _cache[q]
    r = _parse(q)
    _cache[q] = r
    return r


def strip_cv(s):
    s = s.strip()
    changed = True; const = False
    while changed:
        changed = False
        for pre in ('const ', 'volatile ', 'struct ', 'class ', 'typename '):
            if s.startswith(pre): s = s[len(pre):].strip(); changed = True; const = const or pre == 'const '
        for suf in (' const', ' volatile', '*const', '*volatile'):
            if s.endswith(suf):
                keep = '*' if suf.startswith('*') else ''
                s = (s[:-len(suf)] + keep).strip(); changed = True; const = const or 'const' in suf
    return s, const


def _parse(q):
    raw = q
    s = q.strip()
    ref = ''
    if s.endswith('&&'): ref = '&&'; s = s[:-2]
    elif s.endswith('&'): ref = '&'; s = s[:-1]
    s, const = strip_cv(s)
    if s.endswith('*'):
        inner = parse(s[:-1])
        return T('ptr', None, (inner.noref(),), ref, const, raw)
    if s.endswith(')') and '(' in s and not s.startswith('(lambda'):
        return T('function', None, (), ref, const, raw)
    if s in ALIASES: s = ALIASES[s]
    if s == 'void': return T('void', raw=raw)
    if s in ('bool', '_Bool'): return T('bool', 'bool', (), ref, const, raw)
    if s in INT_RANGES: return T('int', s, (), ref, const, raw)
    if s in REALS: return T('real', s, (), ref, const, raw)
    if s.startswith('(lambda'): return T('lambda', s, (), ref, const, raw)
    m = re.match(r'^([A-Za-z_:0-9]+)<(.*)>(::[A-Za-z_]+)?$', s)
    if m:
        base, args, suffix = m.group(1), split_targs(m.group(2)), m.group(3)
        base = base.replace('std::__cxx11::', 'std::').replace('std::__1::', 'std::')
        if base in ('shared_ptr', 'unique_ptr', 'weak_ptr', 'vector', 'array', 'pair', 'tuple', 'optional', 'forward_list', 'list', 'set', 'map',
                    'unordered_set', 'unordered_map', 'basic_string', 'initializer_list', 'function'):
            base = 'std::' + base          # clang prints template arguments of instantiations without the namespace
        if suffix in ('::iterator', '::const_iterator', '::reverse_iterator'):
            cont = parse(s[:-len(suffix)])
            return T('iter', None, (cont,), ref, const, raw)
        if suffix in ('::element_type',) and base.startswith(('std::__shared_ptr', 'std::shared_ptr', 'std::unique_ptr')):
            it = parse(args[0]); return T(it.kind, it.name, it.args, ref, const, raw)
        if suffix in ('::size_type',): return T('int', 'unsigned long', (), ref, const, raw)
        if suffix in ('::difference_type',): return T('int', 'long', (), ref, const, raw)
        if suffix in ('::value_type', '::reference', '::const_reference'):
            cont = parse(s[:-len(suffix)])
            if cont.args: return T(cont.args[0].kind, cont.args[0].name, cont.args[0].args, ref, const, raw)
        if base == '__gnu_cxx::__normal_iterator':
            cont = parse(args[1])
            return T('iter', None, (cont,), ref, const, raw)
        if base in ('std::_Fwd_list_iterator', 'std::_Fwd_list_const_iterator'):
            return T('iter', None, (T('flist', None, (parse(args[0]),)),), ref, const, raw)
        if base in ('std::_List_iterator', 'std::_List_const_iterator'):
            return T('iter', None, (T('list', None, (parse(args[0]),)),), ref, const, raw)
        if base in ('std::_Rb_tree_const_iterator', 'std::_Rb_tree_iterator'):
            return T('iter', None, (T('set', None, (parse(args[0]),)),), ref, const, raw)
        if base == 'std::vector': return T('vector', None, (parse(args[0]),), ref, const, raw)
        if base == 'std::array': return T('array', None, (parse(args[0]), int(args[1].rstrip('UL'))), ref, const, raw)
        if base == 'std::pair': return T('pair', None, (parse(args[0]), parse(args[1])), ref, const, raw)
        if base == 'std::tuple': return T('tuple', None, tuple(parse(a) for a in args), ref, const, raw)
        if base == 'std::optional': return T('optional', None, (parse(args[0]),), ref, const, raw)
        if base in ('std::shared_ptr', 'std::unique_ptr', 'std::weak_ptr', 'std::__shared_ptr', 'std::__shared_ptr_access'):
            return T('ptr', 'std::unique_ptr' if base == 'std::unique_ptr' else 'std::shared_ptr', (parse(args[0]).noref(),), ref, const, raw)
        if base == 'std::forward_list': return T('flist', None, (parse(args[0]),), ref, const, raw)
        if base == 'std::list': return T('list', None, (parse(args[0]),), ref, const, raw)
        if base in ('std::set', 'std::unordered_set'): return T('set', base, (parse(args[0]),), ref, const, raw)
        if base in ('std::map', 'std::unordered_map'): return T('map', base, (parse(args[0]), parse(args[1])), ref, const, raw)
        if base == 'std::basic_string': return T('string', None, (), ref, const, raw)
        if base == 'std::initializer_list': return T('initlist', None, (parse(args[0]),), ref, const, raw)
        if base == 'std::function': return T('lambda', s, (), ref, const, raw)
        if base == 'std::enable_shared_from_this': return T('record', s, (), ref, const, raw)
        # repo templates: keep the canonical spelling (without spaces after commas)
        return T('record', base + '<' + ','.join(a for a in args) + '>', (), ref, const, raw)
    if s in ('std::string', 'std::__cxx11::string', 'string'): return T('string', None, (), ref, const, raw)
    if s == 'edge_set': return T('set', 'std::set', (parse('edge'),), ref, const, raw)
    if s == 'cell_ptr': return T('ptr', 'std::shared_ptr', (parse('cell'),), ref, const, raw)
    if s == 'cell_type_param_ptr': return T('ptr', 'std::shared_ptr', (parse('cell_type_parameters'),), ref, const, raw)
    if s == 'std::nullptr_t' or s == 'nullptr_t': return T('ptr', None, (T('void'),), ref, const, raw)
    return T('record', s, (), ref, const, raw)


def of_node(n):
    """type of an AST node (desugared when available)"""
    t = n.get('type', {})
    return parse(t.get('desugaredQualType') or t.get('qualType') or 'void')


def of_node_sugared(n):
    t = n.get('type', {})
    return parse(t.get('qualType') or 'void')
