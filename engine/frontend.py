"""Front end: /repo working tree -> one unity translation unit -> clang JSON AST -> declaration tables.

Every run re-derives the AST from the *current* contents of /repo.  A content-addressed cache
(/verif/.cache, key = sha256 over every file under /repo/src, /repo/include, /repo/lib/*/ headers, the
flags and the clang version) only avoids re-running clang on byte-identical input.
"""
import hashlib, json, os, subprocess, sys, time, gzip, pickle

REPO = os.environ.get('VERIF_REPO', '/repo')
HERE = os.path.dirname(os.path.abspath(__file__))
CACHE = os.path.join(os.path.dirname(HERE), '.cache')

INC_DIRS = ['include', 'include/automatic_polarization', 'include/contact_models', 'include/io',
            'include/math_modules', 'include/mesh', 'include/mesh/cell_types', 'include/time_integration',
            'include/triangulation_modules', 'include/uspg', 'lib/delaunator/include', 'lib/tinyxml2']

# clang diagnostics that are known and harmless (GCC accepts std::cos/std::sqrt in constexpr initialisers)
WHITELIST_ERR = ['must be initialized by a constant expression']


class ExtractionFailure(Exception):
    pass


def source_files(repo):
    out = []
    for sub in ('src', 'include', 'lib/delaunator/include', 'lib/tinyxml2'):
        for root, _, files in os.walk(os.path.join(repo, sub)):
            for f in sorted(files):
                if f.endswith(('.cpp', '.hpp', '.h')):
                    out.append(os.path.join(root, f))
    if os.path.exists(os.path.join(repo, 'main.cpp')): out.append(os.path.join(repo, 'main.cpp'))
    return sorted(out)


def unity_list(repo):
    l = []
    for root, _, files in os.walk(os.path.join(repo, 'src')):
        if 'python_bindings' in root:
            continue
        for f in sorted(files):
            if f.endswith('.cpp'):
                l.append(os.path.join(root, f))
    return sorted(l)


def flags(repo, defines):
    fl = ['-std=gnu++17', '-fopenmp', '-DNDEBUG', '-DPROJECT_SOURCE_DIR="%s"' % repo, '-DSIMUCELL3D_VERIF']
    fl += ['-D%s=%s' % kv for kv in sorted(defines.items())]
    fl += ['-I' + os.path.join(repo, d) for d in INC_DIRS]
    return fl


def tree_hash(repo, defines):
    h = hashlib.sha256()
    h.update(subprocess.run(['clang++', '--version'], capture_output=True, text=True).stdout.encode())
    h.update(repr(flags(repo, defines)).encode())
    h.update(open(os.path.join(HERE, 'astfilter.c'), 'rb').read())
    h.update(b'v7')
    for f in source_files(repo):
        h.update(f.encode()); h.update(b'\0'); h.update(open(f, 'rb').read()); h.update(b'\0')
    return h.hexdigest()[:24]


def run_clang(repo, defines, workdir):
    unity = os.path.join(workdir, 'unity.cpp')
    with open(unity, 'w') as f:
        for s in unity_list(repo):
            f.write('#include "%s"\n' % s)
        # the program entry point (AST only; the native replay library is built from unity_list alone)
        if os.path.exists(os.path.join(repo, 'main.cpp')): f.write('#include "%s"\n' % os.path.join(repo, 'main.cpp'))
        # verification harness text (not repository code): explicit instantiation definitions make clang instantiate
        # every member of the class templates for the element types the repository uses, so that each member's body
        # (taken from the repository's headers) is present in the AST
        f.write('template class uspg_4d<face*>;\ntemplate class uspg_4d<oriented_point>;\ntemplate class uspg_3d<unsigned short>;\n')
        f.write('template void remove_index<cell_ptr, unsigned>(std::vector<cell_ptr>&, std::vector<unsigned>&);\n')
    filt = os.path.join(HERE, 'astfilter')
    if not os.path.exists(filt):
        subprocess.check_call(['gcc', '-O2', '-o', filt, os.path.join(HERE, 'astfilter.c')])
    out = os.path.join(workdir, 'repo_ast.json')
    err = os.path.join(workdir, 'clang.err')
    cmd = ['clang++'] + flags(repo, defines) + ['-fsyntax-only', '-Xclang', '-ast-dump=json', unity]
    with open(out, 'wb') as fo, open(err, 'wb') as fe:
        p1 = subprocess.Popen(cmd, stdout=subprocess.PIPE, stderr=fe)
        p2 = subprocess.Popen([filt, os.path.join(repo, 'src'), os.path.join(repo, 'include'), unity, os.path.join(repo, 'main.cpp')],
                              stdin=p1.stdout, stdout=fo, stderr=subprocess.DEVNULL)
        p1.stdout.close()
        p2.wait(); p1.wait()
    diags = []
    for line in open(err, errors='replace'):
        if ': error:' in line or 'fatal error' in line:
            diags.append(line.strip())
    bad = [d for d in diags if not any(w in d for w in WHITELIST_ERR)]
    if bad:
        raise ExtractionFailure('clang reported errors outside the white-list:\n' + '\n'.join(bad[:10]))
    return out, diags


class AST:
    """Declaration tables over the filtered AST of one clang run."""

    def __init__(self, decls, repo, defines, diags):
        self.repo = repo; self.defines = defines; self.diags = diags
        self.top = decls
        self.by_id = {}        # id -> decl node (any Decl kind)
        self.parent = {}       # decl id -> parent decl node (lexical)
        self.records = {}      # record name -> CXXRecordDecl (complete definition)
        self.record_by_id = {}
        self.fn_def = {}       # any redeclaration id -> defining decl (with body)
        self.fn_by_qname = {}  # qualified name -> [defining decls]
        self.qname = {}        # decl id -> qualified name
        self.node_loc = {}     # node id -> (file, line)
        self.specializations = {}  # template name -> [ClassTemplateSpecializationDecl]
        self._index()

    # -- location resolution: clang prints file/line only when they change, in print order
    def _resolve_locs(self):
        cur = {'file': '', 'line': 0}

        def visit_loc(l):
            if not isinstance(l, dict):
                return
            if 'spellingLoc' in l:
                visit_loc(l['spellingLoc']); visit_loc(l['expansionLoc']); return
            if 'file' in l: cur['file'] = l['file']
            if 'line' in l: cur['line'] = l['line']

        def visit(n):
            if not isinstance(n, dict):
                return
            for k, v in list(n.items()):
                if k == 'loc':
                    visit_loc(v)
                    if 'id' in n: self.node_loc[n['id']] = (cur['file'], cur['line'])
                elif k == 'range':
                    visit_loc(v.get('begin'));
                    if 'id' in n and n['id'] not in self.node_loc: self.node_loc[n['id']] = (cur['file'], cur['line'])
                    b = (cur['file'], cur['line'])
                    visit_loc(v.get('end'))
                    if 'id' in n: n['_line'] = b[1]; n['_file'] = b[0]; n['_endline'] = cur['line']
                elif k == 'inner':
                    for c in v: visit(c)
                elif isinstance(v, dict) and k in ('decl',):
                    pass
                elif isinstance(v, list):
                    for c in v:
                        if isinstance(c, dict) and ('kind' in c or 'inner' in c): visit(c)

        for d in self.top:
            if '__state' in d:
                cur['file'] = d['__state']['file']; cur['line'] = d['__state']['line']
            else:
                visit(d)

    def _index(self):
        self._resolve_locs()
        fn_kinds = ('CXXMethodDecl', 'CXXConstructorDecl', 'FunctionDecl', 'CXXDestructorDecl', 'CXXConversionDecl')

        def visit(n, parent, in_fn):
            k = n.get('kind')
            if k and k.endswith('Decl') and 'id' in n:
                self.by_id[n['id']] = n
                if parent is not None: self.parent[n['id']] = parent
            if k in ('CXXRecordDecl', 'ClassTemplateSpecializationDecl') and n.get('completeDefinition'):
                self.record_by_id[n['id']] = n
                if k == 'CXXRecordDecl' and n.get('name') and not in_fn:
                    if not (parent is not None and parent.get('kind') == 'ClassTemplateDecl'):
                        self.records[n['name']] = n
                if k == 'ClassTemplateSpecializationDecl':
                    self.specializations.setdefault(n.get('name'), []).append(n)
            for c in n.get('inner', []):
                if isinstance(c, dict):
                    visit(c, n if (k and k.endswith('Decl')) else parent, in_fn or k in fn_kinds)

        for d in self.top:
            if '__state' not in d: visit(d, None, False)
        # function definitions and redeclaration chains
        for i, d in self.by_id.items():
            if d.get('kind') in fn_kinds and self.body_of(d) is not None:
                self.fn_def[i] = d
        for i, d in list(self.fn_def.items()):
            p = d.get('previousDecl')
            while p:
                self.fn_def.setdefault(p, d)
                p = self.by_id.get(p, {}).get('previousDecl')
        for i, d in self.by_id.items():
            if d.get('kind') in fn_kinds:
                qn = self.qualified_name(d)
                self.qname[i] = qn
                if i in self.fn_def and self.fn_def[i] is d:
                    self.fn_by_qname.setdefault(qn, []).append(d)

    @staticmethod
    def body_of(fn):
        for c in fn.get('inner', []):
            if c.get('kind') in ('CompoundStmt', 'CXXTryStmt'):
                return c
        return None

    @staticmethod
    def params_of(fn):
        return [c for c in fn.get('inner', []) if c.get('kind') == 'ParmVarDecl']

    def owner_record(self, d):
        """the record a method belongs to (lexical parent or parentDeclContextId)"""
        pid = d.get('parentDeclContextId')
        if pid and pid in self.by_id:
            return self.by_id[pid]
        p = self.parent.get(d['id'])
        while p is not None and p.get('kind') not in ('CXXRecordDecl', 'ClassTemplateSpecializationDecl'):
            p = self.parent.get(p['id'])
        return p

    def record_display_name(self, r):
        if r.get('kind') == 'ClassTemplateSpecializationDecl':
            return r.get('name', '?') + '<' + self.spec_args(r) + '>'
        return r.get('name') or ('lambda@%s' % r.get('_line'))

    @staticmethod
    def spec_args(r):
        args = []
        for c in r.get('inner', []):
            if c.get('kind') == 'TemplateArgument':
                t = c.get('type', {}).get('qualType')
                args.append(t if t is not None else str(c.get('value', '?')))
        return ','.join(args)

    def qualified_name(self, d):
        r = self.owner_record(d)
        nm = d.get('name', '?')
        if r is not None:
            return self.record_display_name(r) + '::' + nm
        return nm

    def fields_of(self, rec):
        return [c for c in rec.get('inner', []) if c.get('kind') == 'FieldDecl']

    def bases_of(self, rec):
        out = []
        for b in rec.get('bases', []):
            t = b['type'].get('desugaredQualType', b['type']['qualType'])
            out.append(t)
        return out

    def public_bases_of(self, rec):
        """base classes reachable by an implicit conversion outside the class: public inheritance only"""
        out = []
        for b in rec.get('bases', []):
            if b.get('access', 'public') != 'public': continue
            out.append(b['type'].get('desugaredQualType', b['type']['qualType']))
        return out

    def find_functions(self, qname):
        return self.fn_by_qname.get(qname, [])


def load(defines=None, repo=None, verbose=False):
    """Returns AST for the current working tree of /repo under the given -D overrides."""
    repo = repo or REPO
    defines = dict(defines or {})
    t0 = time.time()
    key = tree_hash(repo, defines)
    os.makedirs(CACHE, exist_ok=True)
    cpath = os.path.join(CACHE, 'ast_%s.pkl.gz' % key)
    if os.path.exists(cpath):
        try:
            with gzip.open(cpath, 'rb') as f:
                decls, diags = pickle.load(f)
            ast = AST(decls, repo, defines, diags)
            ast.cache = 'hit'; ast.wall = time.time() - t0; ast.key = key
            return ast
        except Exception:
            pass
    import tempfile, shutil
    wd = tempfile.mkdtemp(prefix='verif_fe_')
    try:
        out, diags = run_clang(repo, defines, wd)
        with open(out) as f:
            decls = json.load(f)
    finally:
        shutil.rmtree(wd, ignore_errors=True)
    try:
        tmp = cpath + '.%d' % os.getpid()
        with gzip.open(tmp, 'wb', compresslevel=1) as f:
            pickle.dump((decls, diags), f, protocol=4)
        os.replace(tmp, cpath)
        # keep the cache small: newest 12 entries
        ents = sorted((os.path.getmtime(os.path.join(CACHE, x)), x) for x in os.listdir(CACHE) if x.startswith('ast_'))
        for _, x in ents[:-12]:
            os.remove(os.path.join(CACHE, x))
    except Exception:
        pass
    ast = AST(decls, repo, defines, diags)
    ast.cache = 'miss'; ast.wall = time.time() - t0; ast.key = key
    return ast


if __name__ == '__main__':
    a = load(verbose=True)
    print('cache', a.cache, 'wall %.1fs' % a.wall, 'decls', len(a.by_id), 'fn defs', len(set(id(x) for x in a.fn_def.values())),
          'records', len(a.records))
    for q in sorted(a.fn_by_qname)[:400]:
        print(q, len(a.fn_by_qname[q]))
