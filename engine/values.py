"""Values, l-values and symbolic state of engine R."""
import z3


class Unsupported(Exception):
    """The extraction reached something the engine has no semantics for -> EXTRACTION-FAILURE (exit 2)."""


class PathEnd(Exception):
    """raised inside expression evaluation when no normally-continuing state is left (all paths threw)"""


class Rec:
    """immutable record value (vec3, mat33, pair, array, optional, small PODs)"""
    __slots__ = ('t', 'f')

    def __init__(self, t, f):
        self.t = t; self.f = f

    def get(self, path):
        v = self
        for p in path: v = v.f[p]
        return v

    def set(self, path, val):
        if not path: return val
        nf = dict(self.f)
        sub = self.f[path[0]]
        nf[path[0]] = sub.set(path[1:], val) if len(path) > 1 else val
        return Rec(self.t, nf)

    def __repr__(self):
        return '%s{%s}' % (self.t, ', '.join('%s=%r' % kv for kv in self.f.items()))


class Ptr:
    """pointer-like scalar (raw pointer, shared_ptr, unique_ptr): integer object reference, 0 = null"""
    __slots__ = ('ref', 'cls')

    def __init__(self, ref, cls):
        self.ref = ref; self.cls = cls

    def __repr__(self):
        return 'Ptr<%s>(%s)' % (self.cls, self.ref)


class Iter:
    """iterator into a sequence container: (container object ref, index)"""
    __slots__ = ('vref', 'idx', 'cty')

    def __init__(self, vref, idx, cty):
        self.vref = vref; self.idx = idx; self.cty = cty


class Closure:
    __slots__ = ('node', 'env', 'this', 'fn')

    def __init__(self, node, env, this, fn):
        self.node = node; self.env = env; self.this = this; self.fn = fn


class Opaque:
    """a value the engine does not interpret (strings, streams, RNG engines ...)"""
    __slots__ = ('what', 'data')

    def __init__(self, what, data=None):
        self.what = what; self.data = data

    def __repr__(self):
        return 'Opaque(%s)' % self.what


# ---- l-values
class LocalLV:
    __slots__ = ('var', 'path')

    def __init__(self, var, path=()):
        self.var = var; self.path = tuple(path)


class FieldLV:
    """scalar / value-record member of a heap object: heap key prefix 'cls.field', nested value path"""
    __slots__ = ('ref', 'key', 'path', 'ty')

    def __init__(self, ref, key, path, ty):
        self.ref = ref; self.key = key; self.path = tuple(path); self.ty = ty


class ElemLV:
    """element (scalar, pointer or value record) of a sequence container object"""
    __slots__ = ('vref', 'idx', 'ety', 'path')

    def __init__(self, vref, idx, ety, path=()):
        self.vref = vref; self.idx = idx; self.ety = ety; self.path = tuple(path)


class ObjLV:
    """a heap object (instance of a heap class, or a container) designated by its reference"""
    __slots__ = ('ref', 'ty')

    def __init__(self, ref, ty):
        self.ref = ref; self.ty = ty

    def __repr__(self):
        return 'Obj<%r>(%s)' % (self.ty, self.ref)


LVS = (LocalLV, FieldLV, ElemLV, ObjLV)


class State:
    __slots__ = ('pc', 'env', 'heap', 'ghost', 'throws', 'dead')

    def __init__(self):
        self.pc = []; self.env = {}; self.heap = {}; self.ghost = {}; self.throws = []; self.dead = False

    def clone(self):
        s = State()
        s.pc = list(self.pc); s.env = dict(self.env); s.heap = dict(self.heap); s.ghost = dict(self.ghost)
        s.throws = []
        return s

    def assign_from(self, o):
        self.pc = o.pc; self.env = o.env; self.heap = o.heap; self.ghost = o.ghost


class GuardedLog:
    """ghost log of events: list of (guard, payload tuple); survives state merging (entries get the branch condition)"""
    def __init__(self, entries=()):
        self.entries = list(entries)

    def add(self, payload):
        return GuardedLog(self.entries + [(z3.BoolVal(True), tuple(payload))])

    def guarded(self, cond):
        return GuardedLog([(z3.And(cond, g) if not z3.is_true(g) else cond, p) for g, p in self.entries])

    @staticmethod
    def merge(conds, logs):
        # common prefix (identical entries) is kept unguarded
        k = 0
        n = min(len(l.entries) for l in logs)
        while k < n and all(l.entries[k] is logs[0].entries[k] for l in logs[1:]): k += 1
        out = list(logs[0].entries[:k])
        for c, l in zip(conds, logs):
            for g, p in l.entries[k:]:
                out.append((z3.And(c, g) if not z3.is_true(g) else c, p))
        return GuardedLog(out)


class QForall:
    """lazily instantiated universal fact / goal over one or more Int variables: fn(*terms) -> BoolRef"""
    def __init__(self, fn, arity=1, name='', syms=()):
        self.fn = fn; self.arity = arity; self.name = name; self.syms = list(syms)

    def eq(self, o):
        return self is o

    def guarded(self, cond):
        f = self.fn
        return QForall(lambda *a: z3.Implies(cond, f(*a)), self.arity, self.name, self.syms)


def is_z3(v):
    return isinstance(v, z3.ExprRef)


def common_prefix(pcs):
    if not pcs: return 0
    n = min(len(p) for p in pcs)
    k = 0
    while k < n and all(p[k] is pcs[0][k] or p[k].eq(pcs[0][k]) for p in pcs[1:]):
        k += 1
    return k


def mk_and(l):
    l = list(l)
    if not l: return z3.BoolVal(True)
    if len(l) == 1: return l[0]
    return z3.And(*l)


def merge_vals(conds, vals):
    """n-way ite merge; conds[i] guards vals[i]; last one is the default"""
    v0 = vals[0]
    if all(v is v0 for v in vals): return v0
    if isinstance(v0, GuardedLog): return GuardedLog.merge(conds, vals)
    if is_z3(v0):
        if all(is_z3(v) and v.eq(v0) for v in vals): return v0
        r = vals[-1]
        for c, v in zip(reversed(conds[:-1]), reversed(vals[:-1])):
            if z3.is_int(v) and z3.is_real(r): v = z3.ToReal(v)
            if z3.is_real(v) and z3.is_int(r): r = z3.ToReal(r)
            r = z3.If(c, v, r)
        return r
    if isinstance(v0, Rec):
        if not all(isinstance(v, Rec) and v.t == v0.t for v in vals): raise Unsupported('merge of different record types')
        return Rec(v0.t, {k: merge_vals(conds, [v.f[k] for v in vals]) for k in v0.f})
    if isinstance(v0, Ptr):
        return Ptr(merge_vals(conds, [v.ref for v in vals]), v0.cls)
    if isinstance(v0, ObjLV):
        return ObjLV(merge_vals(conds, [v.ref for v in vals]), v0.ty)
    if isinstance(v0, Iter):
        return Iter(merge_vals(conds, [v.vref for v in vals]), merge_vals(conds, [v.idx for v in vals]), v0.cty)
    if isinstance(v0, LocalLV):
        if all(isinstance(v, LocalLV) and v.var == v0.var and v.path == v0.path for v in vals): return v0
    if isinstance(v0, FieldLV):
        if all(isinstance(v, FieldLV) and v.key == v0.key and v.path == v0.path for v in vals):
            return FieldLV(merge_vals(conds, [v.ref for v in vals]), v0.key, v0.path, v0.ty)
    if isinstance(v0, ElemLV):
        if all(isinstance(v, ElemLV) and v.path == v0.path for v in vals):
            return ElemLV(merge_vals(conds, [v.vref for v in vals]), merge_vals(conds, [v.idx for v in vals]), v0.ety, v0.path)
    if v0 is None and all(v is None for v in vals): return None
    if isinstance(v0, (int, str, bool)) and all(v == v0 for v in vals): return v0
    if isinstance(v0, (Opaque, Closure)):
        return v0
    raise Unsupported('cannot merge values of kind %s' % type(v0).__name__)


def merge_states(states, rets=None, base=None):
    """merge normally-continuing states into one (ite on everything that differs).
    returns (state, merged_ret)"""
    if len(states) == 1:
        return states[0], (rets[0] if rets else None)
    pcs = [s.pc for s in states]
    k = common_prefix(pcs)
    # facts about uninterpreted functions / fresh definitional symbols are valid on every path: they are hoisted, not
    # folded into the branch conditions (keeps the ite conditions of merged values small)
    ax = getattr(base.__self__, 'axiom_ids', set()) if base is not None and hasattr(base, '__self__') else set()
    hoisted = []; seen_h = set()
    for p in pcs:
        for x in p[k:]:
            if is_z3(x) and x.get_id() in ax and x.get_id() not in seen_h:
                seen_h.add(x.get_id()); hoisted.append(x)
    conds = [mk_and([x for x in p[k:] if not isinstance(x, QForall) and not (is_z3(x) and x.get_id() in ax)]) for p in pcs]
    m = State()
    m.pc = list(pcs[0][:k]) + hoisted + [z3.Or(*conds)]
    for c_, p in zip(conds, pcs):
        for x in p[k:]:
            if isinstance(x, QForall): m.pc.append(x.guarded(c_))
    keys = set(states[0].env)
    for s in states[1:]: keys &= set(s.env)
    for key in keys:
        vals = [s.env[key] for s in states]
        try:
            m.env[key] = merge_vals(conds, vals)
        except Unsupported:
            pass   # variable becomes unavailable after the join; using it later raises
    eps = set(s.ghost.get('epoch', 0) for s in states)
    if len(eps) > 1:
        if base is None: raise Unsupported('merge of states with different heap epochs')
        eng = base.__self__
        for key in [k for k in eng.base_arrays if '@' not in k]:
            for s in states:
                if key not in s.heap: s.heap[key] = base(key, s)
        newep = next(eng.nfresh) + 1
        for s in states: s.ghost['epoch'] = newep
    hk = set()
    for s in states: hk |= set(s.heap)
    for key in hk:
        vals = [s.heap.get(key) for s in states]
        if any(v is None for v in vals):
            # a key first touched in only some branches: the others still hold the engine-wide base array
            if base is None: raise Unsupported('heap key %s missing in a branch at merge' % key)
            vals = [v if v is not None else base(key, st_) for v, st_ in zip(vals, states)]
        m.heap[key] = merge_vals(conds, vals)
    gk = set(states[0].ghost)
    for s in states[1:]: gk &= set(s.ghost)
    for s in states:
        for key, v in s.ghost.items():
            if isinstance(v, GuardedLog) and key not in gk:
                gk.add(key)
                for s2 in states: s2.ghost.setdefault(key, GuardedLog())
    # a ghost value set on some branches only is undefined (an arbitrary value) on the others
    for s in states:
        for key, v in s.ghost.items():
            if key not in gk and is_z3(v):
                gk.add(key)
                for s2 in states:
                    if key not in s2.ghost: s2.ghost[key] = z3.FreshConst(v.sort(), 'undefined_ghost')
    for key in gk:
        try:
            m.ghost[key] = merge_vals(conds, [s.ghost[key] for s in states])
        except Unsupported:
            pass
    r = None
    if rets is not None:
        r = merge_vals(conds, rets)
    return m, r
