#!/usr/bin/env python3
"""./check <ID> [--tier quick|thorough] [--replay FILE] [--update-lock]

Decides one property on /repo's current working tree: extracts the AST, symbolically executes the functions under
contract, discharges every obligation, guards against vacuity and spec drift, replays refuted obligations natively,
writes /verif/evidence/<ID>.json.  Exit 0 held / 1 violation (VIOLATION line) / 2 undecided, extraction failure, drift."""
import sys, os, json, time, importlib, argparse, traceback, re, hashlib

HERE = os.path.dirname(os.path.abspath(__file__))
ROOT = os.path.dirname(HERE)
sys.path.insert(0, HERE); sys.path.insert(0, os.path.join(ROOT, 'specs'))
import z3
import frontend, symex, spec as SP, smt, prove
from values import Unsupported

TRUSTED_COMMON = [
    "clang 14 parser/semantic analysis: the AST is what the program means (the shipped binary is compiled by g++ 12)",
    "engine R (this symbolic executor): semantics of the supported AST node kinds; guarded by native replay of refutations and by the seeded-defect runs recorded in DESIGN.md, not proved",
    "exact real arithmetic in place of IEEE-754 double/float (no rounding, no NaN/inf); integers mathematical with explicit range obligations where enabled",
    "SMT solvers z3 5.1.0, z3 4.8.12, cvc5 1.0.3 (an obligation counts as discharged when one returns unsat and none returns sat)",
]


def slug(s):
    return re.sub(r'[^A-Za-z0-9_.-]+', '_', s)[:120]


class Run:
    def __init__(self, prop, tier, seed):
        self.prop = prop; self.tier = tier; self.seed = seed
        self.t0 = time.time()
        self.obs = []            # all obligations (all configs)
        self.contracts = []      # (config, contract, result)
        self.functions = set()
        self.models_used = set()
        self.notes = []
        self.vacuity = {}
        self.front = []

    def log(self, *a):
        print(*a, flush=True)


def load_known():
    p = os.path.join(ROOT, 'known_findings.json')
    if not os.path.exists(p): return {'findings': [], 'fixed': []}
    return json.load(open(p))


def ob_fullname(prop, ob):
    return '%s/%s/%s' % (prop, ob.info.get('contract', '?'), ob.name)


def main():
    ap = argparse.ArgumentParser()
    ap.add_argument('prop')
    ap.add_argument('--tier', default=os.environ.get('VERIF_TIER', 'quick'), choices=['quick', 'thorough'])
    ap.add_argument('--replay')
    ap.add_argument('--update-lock', action='store_true')
    ap.add_argument('--only')
    ap.add_argument('--verbose', action='store_true')
    a = ap.parse_args()
    seed = int(os.environ.get('VERIF_SEED', '0') or 0)
    prop = a.prop
    try:
        mod = importlib.import_module(prop)
    except ImportError as ex:
        print('no spec for %s: %s' % (prop, ex)); return 2
    if a.replay:
        return replay_file(mod, a.replay)
    run = Run(prop, a.tier, seed)
    try:
        return check(mod, run, a)
    except Unsupported as ex:
        print('EXTRACTION-FAILURE property=%s: %s' % (prop, ex))
        write_evidence(mod, run, status='extraction-failure: %s' % ex)
        return 2
    except frontend.ExtractionFailure as ex:
        print('EXTRACTION-FAILURE property=%s: %s' % (prop, ex))
        write_evidence(mod, run, status='extraction-failure: %s' % ex)
        return 2
    except Exception as ex:
        # an internal error of the machinery is never a verdict about the code
        print('EXTRACTION-FAILURE property=%s: internal error %r\n%s' % (prop, ex, traceback.format_exc()[-1500:]))
        try: write_evidence(mod, run, status='internal error: %r' % (ex,))
        except Exception: pass
        return 2


def check(mod, run, a):
    prop = run.prop
    configs = getattr(mod, 'CONFIGS', [{}])
    inputs = {}
    engines = []
    for cfg in configs:
        t = time.time()
        ast = frontend.load(cfg)
        run.front.append({'defines': cfg, 'cache': ast.cache, 'wall_s': round(ast.wall, 2), 'tree_key': ast.key,
                          'clang_diagnostics_whitelisted': len(ast.diags)})
        reg = SP.Registry()
        mod.build(reg, cfg) if mod.build.__code__.co_argcount > 1 else mod.build(reg)
        eng = symex.Engine(ast, reg)
        engines.append(eng)
        cfgname = ','.join('%s=%s' % kv for kv in sorted(cfg.items())) or 'default'
        for c in reg.contracts:
            if a.only and a.only not in c.name: continue
            if getattr(c, 'tier', None) == 'thorough' and run.tier != 'thorough':
                run.has_thorough_only = True
                continue
            res = {}
            n0 = len(eng.obligations)
            t1 = time.time()
            try:
                SP.check_function(eng, c, res)
            except Unsupported as ex:
                raise Unsupported('%s [%s]: %s' % (c.name, cfgname, ex))
            for ob in eng.obligations[n0:]:
                ob.info['config'] = cfgname
                if len(configs) > 1: ob.info['contract'] = c.name + '[' + cfgname + ']'
            res['symex_s'] = round(time.time() - t1, 3)
            res['n_obligations'] = len(eng.obligations) - n0
            run.contracts.append((cfgname, c, res, eng))
        for lm in reg.lemmas:
            ob = symex.Obligation('lemma:' + lm['name'], lm['hyps'], lm['goal'], 'lemma', lm.get('note', ''), info={'contract': 'lemmas', 'fn': '-', 'inputs': lm.get('inputs', []), 'config': cfgname})
            eng.obligations.append(ob)
        for sf in reg.static:
            for (nm, holds, note) in sf(eng):
                eng.obligations.append(symex.Obligation('static:' + nm, [], z3.BoolVal(bool(holds)), 'lemma', note, info={'contract': 'static facts', 'fn': '-', 'inputs': [], 'config': cfgname}))
        run.obs += eng.obligations
        run.functions |= eng.fns_executed
        run.models_used |= eng.models.e.models_used
    # ---- vacuity: requires satisfiable, every reported path feasible or explicitly unreachable
    vac_tasks = []
    for (cfgname, c, res, eng) in run.contracts:
        t = prove.Task(None, 'requires-sat:%s' % c.name, [g for g in res.get('pre_pc', []) if not isinstance(g, SP.QForall)], z3.BoolVal(False), [('z3-5.1.0', 10), ('cvc5-1.0.3', 10)])
        t.kind = 'requires'; t.c = c; t.cfg = cfgname; vac_tasks.append(t)
        for i, (s, outcome, ret) in enumerate(res.get('paths', [])):
            t = prove.Task(None, 'path-feasible:%s#%d' % (c.name, i), [g for g in s.pc if not isinstance(g, SP.QForall)], z3.BoolVal(False), [('z3-5.1.0', 5), ('cvc5-1.0.3', 5)])
            t.kind = 'path'; t.c = c; t.cfg = cfgname; vac_tasks.append(t)
    prove.run_tasks(vac_tasks)
    vac = {'requires_sat': 0, 'requires_total': 0, 'paths_feasible': 0, 'paths_unknown': 0, 'paths_infeasible': 0}
    vacuous = []
    per_contract_feasible = {}
    for t in vac_tasks:
        if t.kind == 'requires':
            vac['requires_total'] += 1
            if t.status == 'sat': vac['requires_sat'] += 1
            elif t.status == 'unsat': vacuous.append('requires of %s [%s] is contradictory' % (t.c.name, t.cfg))
        else:
            k = (t.cfg, t.c.name)
            per_contract_feasible.setdefault(k, 0)
            if t.status == 'sat': vac['paths_feasible'] += 1; per_contract_feasible[k] += 1
            elif t.status == 'unsat': vac['paths_infeasible'] += 1
            else: vac['paths_unknown'] += 1
    run.vacuity = vac
    # ---- discharge
    P = prove.Prover(engines[0], run.tier, run.seed)
    P.prove_all(run.obs, lambda ob: ob.info.get('inputs', []))
    run.prover = P
    run.obs += getattr(P, 'cut_obligations', [])
    # ---- consistency audit: the hypothesis set a proof was found from (path condition + instantiated facts + object-identity axioms, exactly as
    # the prover built it) must itself be satisfiable for at least one discharged obligation of every contract, otherwise the 'proofs' of that
    # contract are vacuous (contradictory axioms or contracts); an individual infeasible path is legitimate
    audit = {}
    for ob in run.obs:
        if ob.status != 'unsat' or ob.backend in (None, 'simplifier') or ob.kind in ('cover', 'lemma'): continue
        k = (ob.info.get('config'), ob.info.get('contract', ob.info.get('fn')))
        audit.setdefault(k, []).append(ob)
    axiom_ids = set()
    for eng_ in engines: axiom_ids |= getattr(eng_, 'axiom_ids', set())
    a_tasks = []
    for k, obs_ in audit.items():
        step = max(1, len(obs_) // 12)
        for ob in obs_[::step]:
            # (1) the definitional part of the hypotheses (object-identity axioms recorded during execution + those the prover adds) must be
            #     satisfiable on its own, whatever the path
            try:
                hy, _gl = smt.expand(ob, relevant=False)
                ax = [h for h in hy if isinstance(h, z3.ExprRef) and h.get_id() in axiom_ids]
                if smt.AXIOMATIZER is not None: ax = ax + smt.AXIOMATIZER(hy + [_gl])
            except Exception:
                continue
            t_ = prove.Task(None, 'axioms-consistent:%s' % ob.name, ax, z3.BoolVal(False), [('z3-5.1.0', 6), ('cvc5-1.0.3', 6)])
            t_.k = k; t_.what = 'axioms'; a_tasks.append(t_)
        # (relational obligations pair the path conditions of two runs: most pairs are contradictory by design)
        obs2_ = [ob for ob in obs_ if not ob.name.startswith('relational:')]
        picks = obs2_[:2] + obs2_[-2:] + obs2_[len(obs2_) // 2: len(obs2_) // 2 + 1]
        seen_ = set()
        for ob in picks:
            if id(ob) in seen_: continue
            seen_.add(id(ob))
            q = getattr(ob, 'smt2', None)
            if not q or '(check-sat)' not in q: continue
            # (2) the exact query that was answered 'unsat', with its last assertion (the negated goal) removed
            head_, tail_ = q.rsplit('(check-sat)', 1)
            cut = head_.rfind('\n(assert')
            if cut < 0: continue
            t_ = prove.Task(None, 'hypotheses-consistent:%s' % ob.name, [], z3.BoolVal(False), [(ob.backend.split('+')[0] if ob.backend.split('+')[0] in ('z3-5.1.0', 'cvc5-1.0.3', 'z3-4.8.12') else 'z3-5.1.0', 8), ('cvc5-1.0.3', 6)])
            t_.smt2 = head_[:cut] + '\n(check-sat)\n'; t_.status = None; t_.backend = None
            t_.k = k; t_.what = 'hyps'; a_tasks.append(t_)
    prove.run_tasks(a_tasks)
    a_res = {}
    for i_, t_ in enumerate(a_tasks):
        if os.environ.get('VERIF_DUMP_AUDIT') and t_.what == 'hyps' and t_.status == 'unsat': open('/tmp/audit_%d.smt2' % i_, 'w').write('; %s\n%s' % (t_.label, t_.smt2))
    for t_ in a_tasks:
        if t_.what == 'hyps': a_res.setdefault(t_.k, []).append(t_.status)
        elif t_.status == 'unsat':
            msg_ = 'the object-identity axioms used for %s are contradictory (e.g. %s)' % (t_.k[1], t_.label)
            if not any(v.startswith(msg_.split(' (e.g.')[0]) for v in vacuous): vacuous.append(msg_)
    hy_ = [t_ for t_ in a_tasks if t_.what == 'hyps']; ax_ = [t_ for t_ in a_tasks if t_.what == 'axioms']
    run.vacuity['consistency_audit'] = {'contracts': len(audit), 'hypothesis_samples': len(hy_), 'satisfiable': sum(1 for t_ in hy_ if t_.status == 'sat'),
                                        'unknown': sum(1 for t_ in hy_ if t_.status not in ('sat', 'unsat')), 'contradictory': sum(1 for t_ in hy_ if t_.status == 'unsat'),
                                        'axiom_samples': len(ax_), 'axioms_satisfiable': sum(1 for t_ in ax_ if t_.status == 'sat'),
                                        'axioms_unknown': sum(1 for t_ in ax_ if t_.status not in ('sat', 'unsat'))}
    for k, sts in a_res.items():
        if sts and all(s == 'unsat' for s in sts):
            vacuous.append('every sampled hypothesis set of %s [%s] is contradictory' % (k[1], k[0]))
    # covers: 'not g' must be refutable (the situation g is reachable); a proved 'not g' means the contract is vacuous there
    covers = [ob for ob in run.obs if ob.kind == 'cover']
    run.obs = [ob for ob in run.obs if ob.kind != 'cover']
    run.vacuity['covers_reached'] = sum(1 for ob in covers if ob.status == 'sat')
    run.vacuity['covers_undecided'] = sum(1 for ob in covers if ob.status not in ('sat', 'unsat'))
    for ob in covers:
        if ob.status == 'unsat': vacuous.append('cover %s of %s is unreachable' % (ob.name, ob.info.get('contract', ob.info.get('fn'))))
    # extra (bounded / native) checks supplied by the spec
    run.bounded = []
    extra_viol = []
    if hasattr(mod, 'extra_checks'):
        for r in mod.extra_checks(run):
            run.bounded.append(r)
            if r.get('violation'): extra_viol.append(r)
    # ---- verdicts
    names = sorted(set(ob_fullname(prop, ob) for ob in run.obs))
    # contracts marked tier='thorough' are checked in the thorough tier only: that tier has its own lock file
    thorough_extra = any(getattr(c, 'tier', None) == 'thorough' for (_, c, _, _) in run.contracts)
    lockfile = os.path.join(ROOT, 'specs', 'locks', prop + ('.thorough' if thorough_extra else '') + '.lock')
    if a.update_lock:
        os.makedirs(os.path.dirname(lockfile), exist_ok=True)
        open(lockfile, 'w').write('\n'.join(names) + '\n')
    drift = None
    if not a.only:
        if os.path.exists(lockfile):
            locked = [l.strip() for l in open(lockfile) if l.strip()]
            if set(locked) != set(names):
                drift = {'missing': sorted(set(locked) - set(names)), 'new': sorted(set(names) - set(locked))}
        else:
            drift = {'missing': ['<no lock file>'], 'new': []}
    sat = [ob for ob in run.obs if ob.status == 'sat']
    unk = [ob for ob in run.obs if ob.status not in ('sat', 'unsat')]
    known = load_known()
    viol_lines = []; known_lines = []
    run.violations = []
    for ob in sat:
        fin = match_known(known, prop, ob)
        rp = do_replay(mod, run, ob)
        if fin is not None:
            known_lines.append('KNOWN-FINDING: property=%s %s' % (prop, fin['what_fails']))
            continue
        suffix = '' if rp.get('confirmed') else ' no-failing-input-found'
        viol_lines.append('VIOLATION property=%s replay=%s%s' % (prop, rp['path'], suffix))
        run.violations.append({'obligation': ob_fullname(prop, ob), 'site': ob.info.get('site'), 'replay': rp['path'], 'confirmed': bool(rp.get('confirmed'))})
    for r in extra_viol:
        fin = match_known_extra(known, prop, r)
        if fin is not None:
            known_lines.append('KNOWN-FINDING: property=%s %s' % (prop, fin['what_fails'])); continue
        viol_lines.append('VIOLATION property=%s replay=%s%s' % (prop, r['replay'], '' if r.get('confirmed') else ' no-failing-input-found'))
        run.violations.append({'obligation': r['name'], 'replay': r['replay'], 'confirmed': bool(r.get('confirmed'))})
    status = 'held'
    code = 0
    for l in sorted(set(known_lines)): print(l)
    if viol_lines:
        status = 'violation'; code = 1
        for l in viol_lines: print(l)
    elif vacuous:
        status = 'vacuous: ' + '; '.join(vacuous); code = 2
        print('VACUOUS property=%s %s' % (prop, status))
    elif any(v == 0 for v in per_contract_feasible.values()):
        bad = [k for k, v in per_contract_feasible.items() if v == 0]
        status = 'vacuous: no feasible path shown for %s' % bad; code = 2
        print('VACUOUS property=%s %s' % (prop, status))
    elif unk:
        status = 'undecided'; code = 2
        for ob in unk[:20]:
            print('UNDECIDED property=%s obligation=%s site=%s status=%s %s' % (prop, ob_fullname(prop, ob), ob.info.get('site'), ob.status, ob.detail[-300:]))
    elif drift:
        status = 'spec-drift'; code = 2
        print('SPEC-DRIFT property=%s missing=%s new=%s' % (prop, drift['missing'][:8], drift['new'][:8]))
    run.status = status; run.drift = drift; run.known_lines = sorted(set(known_lines))
    write_evidence(mod, run, status)
    n = len(run.obs); d = sum(1 for ob in run.obs if ob.status == 'unsat')
    print('%s %s: %d/%d obligations discharged, %d refuted, %d undecided, %d solver calls, %.1fs [%s]' % (
        prop, run.tier, d, n, len(sat), len(unk), len(P.records), time.time() - run.t0, status))
    if os.environ.get('VERIF_DUMP'):
        for i_, ob in enumerate(run.obs):
            if os.environ['VERIF_DUMP'] in ob_fullname(prop, ob) and getattr(ob, 'smt2', None):
                open('/tmp/dump_%d.smt2' % i_, 'w').write('; %s\n%s' % (ob_fullname(prop, ob), ob.smt2))
                print('dumped', ob_fullname(prop, ob), '/tmp/dump_%d.smt2' % i_)
    if a.verbose:
        for ob in run.obs:
            print('  ', ob.status, ob.backend, ob_fullname(prop, ob), ob.info.get('site', ''), '%.2fs' % ob.time, getattr(ob, 'via_failed', ''))
    return code


def match_known(known, prop, ob):
    for f in known.get('findings', []):
        if f.get('status', 'known') != 'known': continue
        if f['property'] == prop and f['obligation'] == ob_fullname(prop, ob) and f.get('site') in (None, ob.info.get('site')):
            return f
    return None


def match_known_extra(known, prop, r):
    for f in known.get('findings', []):
        if f.get('status', 'known') != 'known': continue
        if f['property'] == prop and f['obligation'] == r['name']:
            return f
    return None


def model_inputs(ob):
    """{input symbol name: Fraction} from the solver model"""
    out = {}
    m = ob.model or {}
    for s in ob.info.get('inputs', []):
        k = s.sexpr()
        if k in m: out[str(s)] = m[k]
    return out


def do_replay(mod, run, ob):
    prop = run.prop
    os.makedirs(os.path.join(ROOT, 'replays'), exist_ok=True)
    full = ob_fullname(prop, ob) + '|' + str(ob.info.get('site', '')) + '|' + str(ob.info.get('config', ''))
    path = os.path.join(ROOT, 'replays', '%s-%s-%s-%s.json' % (prop, slug(ob.info.get('contract', ''))[:60], slug(ob.name + '-' + str(ob.info.get('site', '')))[:60],
                                                                 hashlib.sha1(full.encode()).hexdigest()[:8]))
    ins = model_inputs(ob)
    data = {'property': prop, 'obligation': ob_fullname(prop, ob), 'function': ob.info.get('fn'), 'site': ob.info.get('site'),
            'where': ob.where, 'config': ob.info.get('config'), 'backend': ob.backend,
            'inputs': {k: (str(v)) for k, v in ins.items()},
            'solver_output': (getattr(ob, 'model_text', '') or '')[:4000],
            'smt2': (getattr(ob, 'smt2', '') or '')[:200000],
            'replay_cmd': './check %s --replay %s' % (prop, path)}
    confirmed = None
    if hasattr(mod, 'replay'):
        try:
            r = mod.replay(ob, ins, run)
            data['native'] = r
            confirmed = r.get('confirmed')
        except Exception as ex:
            data['native'] = {'error': repr(ex), 'trace': traceback.format_exc()[-2000:]}
    data['confirmed'] = bool(confirmed)
    if not confirmed:
        data['note'] = 'no-failing-input-found: the obligation is refuted in the real-arithmetic semantics; no native failing run was produced'
    json.dump(data, open(path, 'w'), indent=1, default=str)
    return {'path': path, 'confirmed': confirmed}


def replay_file(mod, path):
    data = json.load(open(path))
    if not hasattr(mod, 'replay_recorded'):
        print('replay: obligation %s; solver output:\n%s' % (data['obligation'], data.get('solver_output', '')[:2000]))
        print('no native replay for this property; re-run ./check %s to re-decide the obligation' % data['property'])
        return 1
    r = mod.replay_recorded(data)
    print(r.get('output', ''))
    print('replay: %s' % ('property violated by the recorded input on the current tree' if r.get('confirmed') else 'recorded input no longer violates the property'))
    return 1 if r.get('confirmed') else 0


def write_evidence(mod, run, status):
    prop = run.prop
    obs = run.obs
    P = getattr(run, 'prover', None)
    by_backend = {}
    for r in (P.records if P else []):
        if r['status'] in ('unsat', 'sat'):
            b = by_backend.setdefault(r['backend'] or '?', {'calls': 0, 'solver_s': 0.0})
            b['calls'] += 1; b['solver_s'] = round(b['solver_s'] + r['time'], 3)
    samples = []
    for ob in obs[:400]:
        if len(samples) >= 4: break
        if getattr(ob, 'smt2', None) and ob.status == 'unsat':
            samples.append({'obligation': ob_fullname(prop, ob), 'site': ob.info.get('site'), 'backend': ob.backend,
                            'smt2_head': ob.smt2[:1500]})
    if not samples:
        for ob in obs[:4]:
            samples.append({'obligation': ob_fullname(prop, ob), 'site': ob.info.get('site'), 'status': ob.status, 'backend': ob.backend})
    fcs = []
    for (cfgname, c, res, eng) in run.contracts:
        d = res.get('decl') or {}
        fcs.append({'function': c.qname, 'contract': c.name, 'config': cfgname, 'file': (d.get('_file') or '').replace(frontend.REPO + '/', ''), 'line': d.get('_line'),
                    'paths': len(res.get('paths', [])), 'obligations': res.get('n_obligations'), 'symex_s': res.get('symex_s'),
                    'requires': [nm for (nm, _) in res.get('requires', [])], 'safety_kinds': sorted(c.safety)})
    callee = {}
    for (cfgname, c, res, eng) in run.contracts:
        for u in c.use:
            kind = 'assumed contract (trusted here; see where it is proved in the explanation)' if u.assumed else ('havoc-all: the callee may write anything reachable and return anything (no assumption about it)' if (u.frame and not u.post and not u.assumed) else 'contract')
            callee[u.name] = {'callee': u.qname, 'used_by': c.name, 'kind': kind}
    n = len(obs); d = sum(1 for ob in obs if ob.status == 'unsat')
    agg = {}
    for ob in obs:
        k = ob_fullname(prop, ob)
        e = agg.setdefault(k, {'instances': 0, 'discharged': 0, 'refuted': 0, 'undecided': 0, 'solver_s': 0.0})
        e['instances'] += 1; e['solver_s'] = round(e['solver_s'] + ob.time, 3)
        e['discharged' if ob.status == 'unsat' else ('refuted' if ob.status == 'sat' else 'undecided')] += 1
    ev = {
        'property_id': prop, 'tier': run.tier, 'seed': run.seed, 'level': 'proof',
        'coverage': {
            'obligations': n, 'discharged': d,
            'checker_cmd': './check %s --tier %s' % (prop, run.tier),
            'trusted_base': TRUSTED_COMMON + list(getattr(mod, 'TRUSTED', [])) + sorted('library model: ' + m for m in run.models_used),
            'functions_under_contract': fcs,
            'functions_executed_symbolically': sorted(run.functions),
            'callee_contracts_used_at_call_sites': sorted(callee.values(), key=lambda x: x['callee']),
            'obligation_names': agg,
            'by_backend': by_backend,
            'solver_calls': len(P.records) if P else 0,
            'samples': samples,
            'vacuity': run.vacuity,
            'bounded_checks': getattr(run, 'bounded', []),
            'front_end': run.front,
            'spec_lock': 'matched' if not getattr(run, 'drift', None) else run.drift,
            'unverified_surroundings': list(getattr(mod, 'UNVERIFIED', [])),
            'known_findings_reported': getattr(run, 'known_lines', []),
            'violations_detail': getattr(run, 'violations', []),
            'status': status,
            'explanation': getattr(mod, 'EXPLANATION', ''),
        },
        'assumptions': list(getattr(mod, 'ASSUMPTIONS', [])),
        'wall_s': round(time.time() - run.t0, 2),
        'violations': len(getattr(run, 'violations', [])),
    }
    # VERIF_EVIDENCE_DIR: development only (self-tests on patched trees keep the committed evidence of the unchanged tree intact)
    evdir = os.environ.get('VERIF_EVIDENCE_DIR') or os.path.join(ROOT, 'evidence')
    os.makedirs(evdir, exist_ok=True)
    json.dump(ev, open(os.path.join(evdir, prop + '.json'), 'w'), indent=1, default=str)


if __name__ == '__main__':
    sys.exit(main())
