"""Contract DSL: function contracts, loop contracts, lemmas; and the driver that checks one function
against its contract."""
import z3, re
from values import *
import ty as TY
from symex import Engine, Frame, Obligation, I, R, B
from values import QForall


class V3:
    """helper: a triple of real terms with vector operations (for writing postconditions)"""
    def __init__(self, x, y, z): self.x, self.y, self.z = x, y, z
    @staticmethod
    def of(rec): return V3(rec.f['dx_'], rec.f['dy_'], rec.f['dz_'])
    @staticmethod
    def fresh(name): return V3(z3.Real(name + 'x'), z3.Real(name + 'y'), z3.Real(name + 'z'))
    def __add__(s, o): return V3(s.x + o.x, s.y + o.y, s.z + o.z)
    def __sub__(s, o): return V3(s.x - o.x, s.y - o.y, s.z - o.z)
    def __mul__(s, k): return V3(s.x * k, s.y * k, s.z * k)
    __rmul__ = __mul__
    def __neg__(s): return V3(-s.x, -s.y, -s.z)
    def __truediv__(s, k): return V3(s.x / k, s.y / k, s.z / k)
    def dot(s, o): return s.x * o.x + s.y * o.y + s.z * o.z
    def cross(s, o): return V3(s.y * o.z - s.z * o.y, s.z * o.x - s.x * o.z, s.x * o.y - s.y * o.x)
    def sq(s): return s.dot(s)
    def eq(s, o): return z3.And(s.x == o.x, s.y == o.y, s.z == o.z)
    def comps(s): return [s.x, s.y, s.z]


class View:
    """read access to a symbolic state for specifications"""
    def __init__(self, eng, st):
        self.e = eng; self.st = st

    def _ref(self, o):
        if isinstance(o, (ObjLV, Ptr)): return o.ref
        return o

    def f(self, obj, key):
        """scalar field, key = 'declaring_class.field[.leaf...]'"""
        e = self.e
        srt = e.key_sort(key)
        a = e.harr(self.st, key, z3.ArraySort(I, srt))
        if getattr(e.specs, 'plain_views', False):
            # specifications with many quantified clauses: leave read-over-write to the solvers (no in-process alias queries per instance)
            return z3.Select(a, self._ref(obj))
        return e.read_array(self.st, a, self._ref(obj))

    def v3(self, obj, key):
        return V3(self.f(obj, key + '.dx_'), self.f(obj, key + '.dy_'), self.f(obj, key + '.dz_'))

    def sub(self, obj, key):
        return self.e.sub_ref(self.st, key, self._ref(obj))

    def len(self, vref):
        return self.e.vec_len(self.st, self._ref(vref))

    def elem(self, vref, i):
        return self.e.elem_ref(self.st, self._ref(vref), i)

    def at(self, vref, i, kind):
        """scalar element of a vector: kind in 'real','int','bool'"""
        key = 'vec.data.' + kind
        srt = {'real': R, 'int': I, 'bool': B}[kind]
        a = self.e.harr(self.st, key, z3.ArraySort(I, z3.ArraySort(I, srt)))
        return z3.Select(z3.Select(a, self._ref(vref)), i)

    def arr(self, key):
        return self.e.harr(self.st, key, z3.ArraySort(I, self.e.key_sort(key)))

    def ghost(self, name):
        return self.st.ghost.get(name)


A = z3.ArraySort
CONTAINER_KEYS = {'flist.count': A(I, I), 'flist.copied_from': A(I, I), 'vec.data.int': A(I, I), 'vec.data.real': A(I, R), 'vec.data.bool': A(I, B),
                  'set.present': A(I, A(I, B)), 'set.has1': A(I, A(I, B)), 'set.has2': A(I, A(I, B)), 'set.f1': A(I, A(I, I)), 'set.f2': A(I, A(I, I)),
                  'sset.member': A(I, B), 'ghost.alloc': I}


def key_sort(self, key):
    if key in ('vec.len', 'vec.epoch', 'set.size', 'flist.len'): return I
    if key in CONTAINER_KEYS: return CONTAINER_KEYS[key]
    if key in self.base_arrays: return self.base_arrays[key].sort().range()
    if key.startswith('vec.data.'):
        # element store of a value class: 'vec.data.<class>.<leaf path>'
        rest = key[len('vec.data.'):].split('.')
        t = TY.parse(rest[0])
        for (path, lt) in self.leaves(t):
            if list(path) == rest[1:]: return z3.ArraySort(I, self.sort_of(lt))
        raise Unsupported('key_sort: %s is not an element leaf' % key)
    parts = key.split('.')
    # class names may contain dots? no. find the longest class prefix
    cls = parts[0]; rest = parts[1:]
    t = None
    for (fn, ft, dc, fd) in self.layout(cls):
        if fn == rest[0] and dc == cls: t = ft.noref(); break
    if t is None: raise Unsupported('key_sort: no field %s' % key)
    for (path, lt) in self.leaves(t):
        if list(path) == rest[1:]: return self.sort_of(lt)
    raise Unsupported('key_sort: %s is not a scalar leaf' % key)


Engine.key_sort = key_sort


class Ctx:
    """what a contract's pre/post functions see"""
    def __init__(self, eng, fn, args, this, pre_state, post_state=None, ret=None, outcome='ret'):
        self.e = eng; self.fn = fn; self.args = args; self.this = this
        self.old = View(eng, pre_state)
        self.new = View(eng, post_state) if post_state is not None else self.old
        self.ret = ret; self.outcome = outcome
        self.pre_state = pre_state; self.post_state = post_state

    def arg(self, name):
        return self.args[name]

    def local(self, name, state=None):
        """value of the function's local variable `name` in the post state (prefix / slice contracts)"""
        st = state or self.post_state or self.pre_state
        for vid, v in st.env.items():
            if self.e.var_names.get(vid) == name and not str(vid).startswith(('tmp!', 'glob!', 'param', 'rangeidx!')):
                if isinstance(v, LVS) and not isinstance(v, ObjLV): return self.e.load(st, v)
                return v
        raise Unsupported('contract refers to unknown local variable %s' % name)

    def val(self, name, view=None):
        """current value of a by-value / by-const-ref value-type parameter"""
        v = self.args[name]
        st = (view or self.old).st
        if isinstance(v, LVS) and not isinstance(v, ObjLV): return self.e.load(st, v)
        return v


class Contract:
    def __init__(self, qname, prop, pre=None, post=None, assigns=None, safety=(), use=(), signature=None, name=None,
                 canary=True, unroll=None, setup=None, max_depth=None, name_locals=0, safety_via=None, relational=(), frame=None, on_call=None, ret_model=None, assumed=False, lambda_ordinal=None, slice_loop=None, prefix_loop=None, split_heap_ifs=False, var_lambda=None, captures=None, throws=(), suffix_loop=None, suffix_back=0):
        self.suffix_back = suffix_back      # number of statements before the loop that belong to the tail (e.g. the declaration of an accumulator)
        self.suffix_loop = suffix_loop      # contract on the tail of the function: from loop #k (included) to the end, from an arbitrary state
        self.captures = captures
        self.throws = list(throws)        # used as a callee: classes of the exceptions the call may raise (after its frame effect)
        self.qname = qname; self.prop = prop; self.pre = pre; self.post = post; self.assigns = assigns
        self.safety = set(safety); self.use = list(use); self.signature = signature
        self.name = name or qname; self.name_locals = name_locals; self.safety_via = safety_via; self.relational = list(relational); self.frame = frame; self.on_call = on_call; self.ret_model = ret_model; self.assumed = assumed; self.lambda_ordinal = lambda_ordinal; self.slice_loop = slice_loop; self.prefix_loop = prefix_loop; self.split_heap_ifs = split_heap_ifs; self.var_lambda = var_lambda; self.canary = canary; self.unroll = unroll; self.setup = setup; self.max_depth = max_depth

    def applies(self, d, eng):
        return self.signature is None or self.signature in d['type']['qualType']

    def find_decl(self, eng):
        if self.var_lambda is not None:
            # the lambda that initialises the entry called `var_lambda` of the global table `qname` (a VarDecl)
            vds = [d for d in eng.ast.by_id.values() if d.get('kind') == 'VarDecl' and d.get('name') == self.qname and any('kind' in c for c in d.get('inner', []))]
            if len(vds) != 1: raise Unsupported('contract %s: %d definitions of the table %s' % (self.name, len(vds), self.qname))
            found = []
            def visit(x):
                if not isinstance(x, dict): return
                if x.get('kind') in ('CXXConstructExpr', 'CXXTemporaryObjectExpr', 'CXXFunctionalCastExpr'):
                    inner = x.get('inner', [])
                    def first_string(y):
                        if not isinstance(y, dict): return None
                        if y.get('kind') == 'StringLiteral': return y.get('value', '').strip('"')
                        for c in y.get('inner', []):
                            r = first_string(c)
                            if r is not None: return r
                        return None
                    def lam(y):
                        if not isinstance(y, dict): return None
                        if y.get('kind') == 'LambdaExpr': return y
                        for c in y.get('inner', []):
                            r = lam(c)
                            if r is not None: return r
                        return None
                    if inner and first_string(inner[0]) == self.var_lambda:
                        for a in inner[1:]:
                            l = lam(a)
                            if l is not None: found.append(l)
                for c in x.get('inner', []): visit(c)
            visit(vds[0])
            if len(found) < 1: raise Unsupported('contract %s: no entry named %s in %s' % (self.name, self.var_lambda, self.qname))
            rec = found[0]['inner'][0]
            return next(c for c in rec['inner'] if c.get('kind') == 'CXXMethodDecl' and c.get('name') == 'operator()')
        ds = [d for d in eng.ast.find_functions(self.qname) if self.applies(d, eng)]
        if len(ds) != 1:
            raise Unsupported('contract %s: %d matching definitions in the current tree' % (self.name, len(ds)))
        d = ds[0]
        self.outer_decl = d
        if self.lambda_ordinal is not None:
            lams = []
            def visit(x):
                if not isinstance(x, dict): return
                if x.get('kind') == 'LambdaExpr':
                    lams.append(x)
                    for c in x.get('inner', [])[1:]: visit(c)
                    return
                for c in x.get('inner', []): visit(c)
            visit(eng.ast.body_of(d))
            if self.lambda_ordinal >= len(lams): raise Unsupported('contract %s: function has only %d lambdas' % (self.name, len(lams)))
            rec = lams[self.lambda_ordinal]['inner'][0]
            return next(c for c in rec['inner'] if c.get('kind') == 'CXXMethodDecl' and c.get('name') == 'operator()')
        return d

    # -- used at a call site instead of the body (modular verification: the caller sees only this contract)
    def apply_at_call(self, eng, d, this, arg_nodes, st, fr, n):
        params = eng.ast.params_of(d)
        env2 = {}
        eng.bind_args(params, arg_nodes, st, fr, env2)
        args = {(p.get('name') or 'arg%d' % i): env2[p['id']] for i, p in enumerate(params) if p['id'] in env2}
        # by-reference value parameters are l-values into the caller's env: make them readable through Ctx.val
        pre_state = st.clone()
        C = Ctx(eng, d, args, this, pre_state)
        C.caller_this = fr.this.ref if isinstance(fr.this, ObjLV) else fr.this
        callee = self.name
        for item in (self.pre(C) if self.pre else []):
            eng.obligations.append(Obligation('call-requires:%s:%s' % (callee, item[0]), pre_state.pc, item[1], 'call', eng.where(n, fr), info={'fn': fr.qname}))
        if self.on_call: self.on_call(C, st)
        # frame
        if self.frame is None and self.assigns is None:
            raise Unsupported('contract %s is used at a call site but declares neither a frame nor an assigns clause' % self.name)
        fr_spec = self.frame(C) if self.frame else ([(k, None) for k in (self.assigns or [])])
        # 'cls.*' stands for every scalar leaf of class cls; 'vec.*' for the container arrays
        exp_ = []
        for item_ in fr_spec:
            k_ = item_[0]
            if k_ != '*' and k_.endswith('.*'):
                if k_ == 'vec.*':
                    for kk in ('vec.len', 'vec.epoch', 'vec.data.int', 'vec.data.real', 'vec.data.bool'): exp_.append((kk,) + tuple(item_[1:]))
                else:
                    lv_, _ = eng.object_leaf_keys(TY.parse(k_[:-2]))
                    for (kk, _lt) in lv_: exp_.append((kk,) + tuple(item_[1:]))
            else:
                exp_.append(item_)
        fr_spec = exp_
        for item_ in fr_spec:
            key, refs = item_[0], item_[1]
            if key == '*':
                kept = {k: eng.harr(st, k, z3.ArraySort(I, eng.key_sort(k))) for k in (refs or [])}      # ('*', [keys to keep])
                kept_at = []                                                                           # ('*', [...], [(key, [refs kept])])
                for (k_, rs_) in (item_[2] if len(item_) > 2 else []):
                    kept_at.append((k_, eng.harr(st, k_, z3.ArraySort(I, eng.key_sort(k_))), list(rs_)))
                eng.havoc_all(st)
                for k, a_ in kept.items(): st.heap[k] = a_
                for (k_, old_, rs_) in kept_at:
                    arr_ = eng.harr(st, k_, old_.sort())
                    for r_ in rs_: arr_ = z3.Store(arr_, r_, z3.Select(old_, r_))
                    st.heap[k_] = arr_
                continue
            srt = eng.key_sort(key)
            arr = eng.harr(st, key, z3.ArraySort(I, srt))
            if refs is None:
                st.heap[key] = eng.fresh(key + '!c', arr.sort())
            else:
                for r in refs:
                    arr = z3.Store(arr, r, eng.fresh(key + '!c', arr.sort().range()))
                st.heap[key] = arr
        for cls_ in self.throws:
            sx = st.clone()
            st.throws.append((sx, cls_, n))
        # result
        rt = TY.parse(d['type']['qualType'].split('(')[0].strip()) if d.get('kind') != 'CXXConstructorDecl' else TY.parse('void')
        ret = None
        if self.ret_model is not None:
            ret = self.ret_model(C, st)
        elif rt.kind != 'void':
            if rt.ref or not eng.is_value_type(rt): raise Unsupported('callee contract for %s needs a ret_model (returns %r)' % (self.qname, rt))
            ret = eng.fresh_value(rt.noref(), 'ret.' + d.get('name', 'f'))
        C2 = Ctx(eng, d, args, this, pre_state, st.clone(), ret, 'ret')
        npc_ = len(C2.post_state.pc)
        posts_ = self.post(C2) if self.post else []
        st.pc.extend(C2.post_state.pc[npc_:])
        for item in posts_:
            st.pc.append(item[1])
        eng.contracts_used.add(self.name)
        return ret


class UseMap:
    """callee contracts of the function under check: several contracts may share a qualified name (overloads, template
    instantiations) and are told apart by their signature filter"""
    def __init__(self, contracts):
        self.by = {}
        for c in contracts: self.by.setdefault(c.qname, []).append(c)

    def lookup(self, qn, d, eng):
        for c in self.by.get(qn, []):
            if d is None or c.applies(d, eng): return c
        return None

    def get(self, qn):
        l = self.by.get(qn)
        return l[0] if l else None


class LoopContract:
    def __init__(self, qname, ordinal, invariant, modifies=(), decreases=None, name=None, keep=(), keep_keys=(), keep_at=(), keep_names=()):
        self.keep_names = set(keep_names)     # locals (by name) the loop does not assign although the syntactic scan cannot tell
        self.keep_keys = list(keep_keys)
        # with modifies=['*']: (heap key, refs_fn) pairs whose entries at those references the loop leaves unchanged (checked)
        self.keep_at = list(keep_at)
        self.qname = qname; self.ordinal = ordinal; self.invariant = invariant; self.modifies = list(modifies)
        self.decreases = decreases; self.name = name or ('loop%s' % ordinal); self.keep = set(keep)

    def modified_locals(self, eng, nodes, st):
        """decl ids of locals (live at loop entry) that the loop may modify: every non-const use that is not a plain read"""
        mod = set()

        def op_name(call):
            c = call['inner'][0]
            while c.get('kind') != 'DeclRefExpr' and c.get('inner'): c = c['inner'][0]
            return (c.get('referencedDecl') or {}).get('name', '')

        def visit(x, parent, gparent=None):
            if not isinstance(x, dict): return
            k = x.get('kind')
            if k == 'DeclRefExpr':
                rd = x.get('referencedDecl', {})
                if rd.get('kind') in ('VarDecl', 'ParmVarDecl', 'BindingDecl') and rd['id'] in st.env:
                    qt = x.get('type', {}).get('qualType', '')
                    if qt.startswith('const ') or ' const' in qt.split('<')[0]: return
                    if parent is not None and parent.get('kind') == 'ImplicitCastExpr' and parent.get('castKind') == 'LValueToRValue': return
                    t = TY.parse(x.get('type', {}).get('desugaredQualType') or qt)
                    if t.kind == 'ptr':
                        # a pointer variable is modified only by assignment / reset / swap / ++ --, not by dereferencing it
                        p = parent; g = gparent
                        while p is not None and p.get('kind') in ('ImplicitCastExpr', 'ParenExpr'): p, g = g, None
                        if p is None: return
                        pk = p.get('kind')
                        if pk == 'BinaryOperator' and p.get('opcode', '').endswith('=') and p.get('opcode') not in ('==', '!=', '<=', '>=') and p['inner'][0] is x: pass
                        elif pk == 'UnaryOperator' and p.get('opcode') in ('++', '--', '&'): pass
                        elif pk == 'CXXOperatorCallExpr' and op_name(p) in ('operator=', 'operator++', 'operator--'): pass
                        elif pk == 'MemberExpr' and p.get('name') in ('reset', 'swap'): pass
                        elif pk in ('CallExpr', 'CXXMemberCallExpr', 'CXXConstructExpr'): pass     # may be passed by non-const reference
                        else: return
                    mod.add(rd['id'])
                return
            if k == 'LambdaExpr':
                for c in x.get('inner', [])[1:]: visit(c, x, parent)
                return
            for c in x.get('inner', []): visit(c, x, parent)
        for nd in nodes:
            if isinstance(nd, dict): visit(nd, None)
        return mod

    def apply(self, eng, n, st, fr, cond, inc, body, pre_test, bind, range_info):
        lname = '%s/loop%s' % (fr.qname, self.ordinal)
        entry = st.clone()
        # (views handed to specifications are frozen copies: quantified clauses are instantiated later, when the live state has moved on)
        L = LoopCtx(eng, st.clone(), entry, fr, range_info, n)
        # 1. invariant holds on entry
        for (nm, g) in self.invariant(L):
            eng.obligations.append(Obligation('inv-init[%s]:%s' % (self.ordinal, nm), L.st.pc, g, 'loop', eng.where(n, fr), info={'fn': fr.qname}))
        # 2. havoc
        nodes = [x for x in (cond, inc, body) if isinstance(x, dict)]
        mod = self.modified_locals(eng, nodes, st)
        if range_info: mod.add(range_info['index_key'])
        if range_info and range_info.get('acc_key'): mod.add(range_info['acc_key'])
        for vid in mod:
            if vid in self.keep or eng.var_names.get(vid) in self.keep_names: continue
            v = st.env[vid]
            if isinstance(v, LocalLV) and not v.path and v.var in st.env and not isinstance(st.env[v.var], LVS):
                # a reference to a value held in the environment (by-reference scalar parameter): the referenced value changes
                if v.var in self.keep: continue
                st.env[v.var] = self.havoc_value(eng, st.env[v.var], eng.var_names.get(vid, 'v'))
                vid = v.var
            elif isinstance(v, LVS): continue     # references / objects: contents live in the heap
            else:
                st.env[vid] = self.havoc_value(eng, v, eng.var_names.get(vid, 'v'))
            d_ = eng.ast.by_id.get(vid[len('param!'):] if str(vid).startswith('param!') else vid) if isinstance(vid, str) else None
            if d_ is not None and is_z3(st.env[vid]) and z3.is_int(st.env[vid]):
                t_ = TY.parse(d_.get('type', {}).get('desugaredQualType') or d_.get('type', {}).get('qualType') or 'void').noref()
                if t_.kind == 'int':
                    lo_, hi_ = TY.INT_RANGES[t_.name]
                    st.pc.append(z3.And(st.env[vid] >= lo_, st.env[vid] <= hi_))      # a variable holds a value of its type
        st.ghost['kept_at'] = []
        for key in self.modifies:
            if isinstance(key, tuple):
                k_, fn_ = key
                arr = eng.harr(st, k_, z3.ArraySort(I, eng.key_sort(k_)))
                for r in fn_(LoopCtx(eng, entry, entry, fr, range_info)):
                    arr = z3.Store(arr, r, eng.fresh(k_ + '!h', arr.sort().range()))
                st.heap[k_] = arr
                continue
            if key == '*':
                kept = {k: eng.harr(st, k, z3.ArraySort(I, eng.key_sort(k))) for k in self.keep_keys}
                kept_at = []
                for (k_, fn_) in self.keep_at:
                    old_ = eng.harr(st, k_, z3.ArraySort(I, eng.key_sort(k_)))
                    kept_at.append((k_, old_, list(fn_(LoopCtx(eng, entry, entry, fr, range_info)))))
                eng.havoc_all(st)
                for k, a_ in kept.items(): st.heap[k] = a_
                for (k_, old_, refs_) in kept_at:
                    arr = eng.harr(st, k_, old_.sort())
                    for r in refs_: arr = z3.Store(arr, r, z3.Select(old_, r))
                    st.heap[k_] = arr
                st.ghost['kept_at'] = [(k_, refs_) for (k_, old_, refs_) in kept_at]
                continue
            old = eng.harr(st, key, z3.ArraySort(I, eng.key_sort(key)))
            st.heap[key] = eng.fresh(key + '!h', old.sort())
        head = st.clone()
        # objects created before the loop (locals carry negative references -1, -2, ...) belong to the loop frame too
        head.ghost['alloc_watermark'] = next(eng.alloc)
        L = LoopCtx(eng, st.clone(), entry, fr, range_info, n)
        npc = len(L.st.pc)
        invs_ = self.invariant(L)
        st.pc.extend(L.st.pc[npc:])          # axioms about the terms the invariant mentions (lengths >= 0, element identities)
        for (nm, g) in invs_:
            st.pc.append(g)
        results = []
        # 3. one arbitrary iteration
        def guard(s):
            if cond is None: return z3.BoolVal(True)
            if callable(cond): return cond(s)
            return eng.as_bool(eng.rv(cond, s, fr))
        if not pre_test: raise Unsupported('do-while loop contracts')
        sb = st.clone()
        c = guard(sb)
        sx = sb.clone(); sx.pc.append(z3.Not(c))
        sx.ghost['loop_exit:%s' % self.ordinal] = Opaque('state', sx.clone())      # what held on leaving the loop, for postconditions
        sb.pc.append(c)
        var0 = self.decreases(LoopCtx(eng, sb, entry, fr, range_info, n)) if self.decreases else None
        if bind is not None: bind(sb)
        exits = [(sx, None)]
        for (s2, o) in eng.exec_stmt(body, sb, fr):
            if o is None or o[0] == 'continue':
                if inc is not None:
                    if callable(inc): inc(s2)
                    else: eng.ev(inc, s2, fr)
                L2 = LoopCtx(eng, s2.clone(), entry, fr, range_info, n)
                for (nm, g) in self.invariant(L2):
                    eng.obligations.append(Obligation('inv-step[%s]:%s' % (self.ordinal, nm), L2.st.pc, g, 'loop', eng.where(n, fr), info={'fn': fr.qname}))
                if var0 is not None:
                    v1 = self.decreases(L2)
                    eng.obligations.append(Obligation('decreases[%s]' % self.ordinal, L2.st.pc, z3.And(v1 < var0, var0 >= 0), 'loop', eng.where(n, fr), info={'fn': fr.qname}))
                self.check_frame(eng, head, s2, n, fr)
            elif o[0] == 'break':
                self.check_frame(eng, head, s2, n, fr)
                exits.append((s2, None))
            else:
                results.append((s2, o))
        normal = [s for (s, o) in exits]
        if len(normal) > 1:
            m, _ = merge_states(normal, base=eng.base_for); normal = [m]
        return [(s, None) for s in normal] + results

    def havoc_value(self, eng, v, name):
        if is_z3(v): return eng.fresh(name + '!h', v.sort())
        if isinstance(v, Rec): return Rec(v.t, {k: self.havoc_value(eng, x, name + '.' + k) for k, x in v.f.items()})
        if isinstance(v, Ptr): return Ptr(eng.fresh(name + '!h', I), v.cls)
        if isinstance(v, Iter): return Iter(v.vref, eng.fresh(name + '!h', I), v.cty)
        if isinstance(v, (Opaque, Closure)): return v
        raise Unsupported('havoc of %r' % (v,))

    def check_frame(self, eng, head, s2, n, fr):
        wm = head.ghost.get('alloc_watermark', 0)
        def frame_goal(new, old):
            return QForall(lambda r: z3.Implies(r > -wm, z3.Select(new, r) == z3.Select(old, r)), 1, 'loop frame')
        if '*' in self.modifies:
            for (key, refs) in head.ghost.get('kept_at', []):
                h = head.heap.get(key); arr = s2.heap.get(key)
                if h is None or arr is None or h is arr or h.eq(arr): continue
                for ri, r in enumerate(refs):
                    eng.obligations.append(Obligation('loop-frame[%s]:%s@kept#%d' % (self.ordinal, key, ri), s2.pc, z3.Select(arr, r) == z3.Select(h, r), 'frame', eng.where(n, fr), info={'fn': fr.qname}))
            for key in self.keep_keys:
                h = head.heap.get(key); arr = s2.heap.get(key)
                if h is None or arr is None or h is arr or h.eq(arr): continue
                eng.obligations.append(Obligation('loop-frame[%s]:%s' % (self.ordinal, key), s2.pc, frame_goal(arr, h), 'frame', eng.where(n, fr), info={'fn': fr.qname}))
            return
        partial = set(k[0] for k in self.modifies if isinstance(k, tuple))
        for key, arr in s2.heap.items():
            if key in self.modifies or key in partial: continue
            h = head.heap.get(key)
            if h is None: h = eng.base_arrays.get(key)
            if h is None or h is arr or h.eq(arr): continue
            eng.obligations.append(Obligation('loop-frame[%s]:%s' % (self.ordinal, key), s2.pc, frame_goal(arr, h), 'frame', eng.where(n, fr), info={'fn': fr.qname}))


def frame_goal(new, old):
    """'nothing visible changed': equal at every pre-existing object (references > 0); objects created during the
    execution (locals, temporaries, copies) carry negative references and are not part of the frame"""
    return QForall(lambda r: z3.Implies(r > 0, z3.Select(new, r) == z3.Select(old, r)), 1, 'frame')


class LoopCtx:
    def __init__(self, eng, st, entry, fr, range_info, node=None):
        self.e = eng; self.st = st; self.cur = View(eng, st); self.entry = View(eng, entry); self.fr = fr
        self.range_info = range_info; self.this = fr.this; self.node = node

    @property
    def counter_name(self):
        """name of the variable declared in the init-statement of a for(;;) loop (None for other loops)"""
        n = self.node or {}
        if n.get('kind') != 'ForStmt': return None
        init = (n.get('inner') or [{}])[0]
        for d in (init.get('inner') or []) if init.get('kind') == 'DeclStmt' else []:
            if d.get('kind') == 'VarDecl': return d.get('name')
        return None

    @property
    def index(self):
        return self.st.env[self.range_info['index_key']]

    @property
    def acc(self):
        return self.st.env[self.range_info['acc_key']]

    @property
    def container(self):
        return self.range_info['container']

    def var(self, name, state=None):
        st = state or self.st
        for vid, v in st.env.items():
            if self.e.var_names.get(vid) == name:
                if isinstance(v, LVS) and not isinstance(v, ObjLV): return self.e.load(st, v)
                return v
        raise Unsupported('loop invariant refers to unknown variable %s' % name)

    def entry_var(self, name):
        return self.var(name, self.entry.st)


class Registry:
    def __init__(self):
        self.contracts = []; self.loops = {}; self.lemmas = []; self.extra = []; self.static = []

    def add(self, c): self.contracts.append(c); return c
    def add_loop(self, lc): self.loops[(lc.qname, lc.ordinal)] = lc; return lc
    def loop_contract(self, qname, ordinal):
        lc = self.loops.get((qname, ordinal))
        if lc is None and (getattr(self, 'default_havoc', ()) == '*' or qname in getattr(self, 'default_havoc', ())):
            # a loop the specification does not know (the code was restructured): it may write anything; the function's
            # postconditions then have to hold without any knowledge about it
            lc = LoopContract(qname, ordinal, lambda L: [], modifies=['*'], name='loop%s(unknown to the specification: anything may change)' % ordinal)
        return lc
    def static_fact(self, fn):
        """fn(eng) -> [(name, holds: bool, note)]: facts read off the AST of the current tree (type hierarchy, declarations)"""
        self.static.append(fn)

    def lemma(self, name, prop, hyps, goal, note='', inputs=()):
        self.lemmas.append({'name': name, 'prop': prop, 'hyps': hyps, 'goal': goal, 'note': note, 'inputs': list(inputs)})


def param_value(eng, st, p, idx):
    """symbolic input for parameter p"""
    t = TY.of_node(p)
    name = p.get('name') or ('arg%d' % idx)
    bt = t.noref()
    if eng.is_value_type(bt):
        v = eng.fresh_value(bt, name)
        if t.ref:
            key = 'param!' + p['id']
            st.env[key] = v
            return LocalLV(key)
        return v
    r = z3.Int('obj_' + name)
    st.pc.append(r > 0)
    st.pc.append(eng.root_of(r) > 0)      # passed in, hence not a part of an object this function creates
    return ObjLV(r, bt)


def input_leaves(eng, args, this, st):
    """scalar input symbols of a function under contract (parameters passed by value / const reference)"""
    out = []
    def walk(v):
        if is_z3(v):
            if z3.is_const(v) and v.decl().kind() == z3.Z3_OP_UNINTERPRETED: out.append(v)
        elif isinstance(v, Rec):
            for x in v.f.values(): walk(x)
        elif isinstance(v, Ptr): walk(v.ref)
        elif isinstance(v, LocalLV):
            walk(st.env[v.var])
    for v in args.values(): walk(v)
    if isinstance(this, LocalLV): walk(this)
    return out


class Relational:
    """name; transform(C) -> {param name: transformed value}; relate(C, ret1, ret2) -> formula; extra symbols via C"""
    def __init__(self, name, transform, relate, symbols=()):
        self.name = name; self.transform = transform; self.relate = relate; self.symbols = list(symbols)


def run_relational(eng, contract, rel, d, args, this, pre_state, paths, qn, pres):
    C0 = Ctx(eng, d, args, this, pre_state)
    new_vals = rel.transform(C0)
    st = pre_state.clone()
    args2 = {}
    saved_nl = eng.name_locals; eng.name_locals = 0
    saved_saf = eng.safety; eng.safety = set()
    nob = len(eng.obligations)
    try:
        for i, p in enumerate(eng.ast.params_of(d)):
            nm = p.get('name') or 'arg%d' % i
            v = args[nm]
            if nm in new_vals:
                if isinstance(v, LocalLV):
                    key = 'param2!' + p['id']; st.env[key] = new_vals[nm]; v = LocalLV(key)
                else:
                    v = new_vals[nm]
            args2[nm] = v
            st.env[p['id']] = v
        fr = Frame(d, this, qn, 1)
        fr.ret_ty = TY.parse(d['type']['qualType'].split('(')[0].strip()) if d['kind'] != 'CXXConstructorDecl' else None
        outs = eng.exec_stmt(eng.ast.body_of(d), st, fr)
    finally:
        eng.name_locals = saved_nl; eng.safety = saved_saf
    del eng.obligations[nob:]      # obligations of the second run are those of the first one on other inputs
    paths2 = []
    for (s, o) in outs:
        if o is None or o[0] == 'ret': paths2.append((s, o[1] if o else None, o[2] if o else None))
    # the first run may have used named locals; re-run it without them so both sides are fully expanded
    st1 = pre_state.clone()
    saved_nl = eng.name_locals; eng.name_locals = 0
    saved_saf = eng.safety; eng.safety = set()
    nob = len(eng.obligations)
    try:
        for i, p in enumerate(eng.ast.params_of(d)): st1.env[p['id']] = args[p.get('name') or 'arg%d' % i]
        fr = Frame(d, this, qn, 1)
        fr.ret_ty = TY.parse(d['type']['qualType'].split('(')[0].strip()) if d['kind'] != 'CXXConstructorDecl' else None
        outs1 = eng.exec_stmt(eng.ast.body_of(d), st1, fr)
    finally:
        eng.name_locals = saved_nl; eng.safety = saved_saf
    del eng.obligations[nob:]
    npre = len(pre_state.pc)
    for (s1, o1) in outs1:
        if not (o1 is None or o1[0] == 'ret'): continue
        r1 = o1[1] if o1 else None
        for (s2, r2, site2) in paths2:
            g = rel.relate(C0, r1, r2)
            pc = list(s1.pc) + [z3.simplify(x) if is_z3(x) else x for x in s2.pc[npre:]]
            eng.obligations.append(Obligation('relational:' + rel.name, pc, g, 'relational', qn,
                                              info={'fn': qn, 'outcome': 'ret', 'requires': [g_ for (_, g_) in pres],
                                                    'site': site_sig(d, o1[2] if o1 else None) + '|' + site_sig(d, site2), 'extra_inputs': rel.symbols}))


def run_suffix(eng, contract, d, st, fr, result):
    """the statements of the function from loop #k (a statement of the function's top-level block) to the end, started in an
    arbitrary state: every local declared before gets an arbitrary value of its type"""
    fr.loop_ord = None
    eng.loop_ordinal({'id': None}, fr)
    target = None
    for nid, o in eng.loop_ord_cache[fr.fn['id']].items():
        if o == contract.suffix_loop: target = nid
    body = eng.ast.body_of(d)
    def contains(x):
        if not isinstance(x, dict): return False
        if x.get('id') == target: return True
        return any(contains(c) for c in x.get('inner', []))
    idx = None
    for k, stmt in enumerate(body.get('inner', [])):
        if contains(stmt): idx = k; break
    if idx is None: raise Unsupported('suffix: loop #%s is not inside a top-level statement of %s' % (contract.suffix_loop, contract.qname))
    idx = max(0, idx - contract.suffix_back)
    eng.lazy_locals = True
    try:
        tail = {'kind': 'CompoundStmt', 'id': 'suffix!' + str(body.get('id')), 'inner': body['inner'][idx:], '_file': body.get('_file'), '_line': body['inner'][idx].get('_line')}
        def outer_vars(x, acc):
            if not isinstance(x, dict): return
            if x.get('kind') in ('VarDecl', 'BindingDecl') and x.get('name') and not x['name'].startswith('__'): acc.append(x)
            if x.get('kind') == 'LambdaExpr': return
            for c in x.get('inner', []): outer_vars(c, acc)
        acc = []
        for stmt in body['inner'][:idx]: outer_vars(stmt, acc)
        for vd in acc:
            if vd['id'] in st.env or 'type' not in vd: continue
            fake = {'kind': 'DeclRefExpr', 'referencedDecl': {'id': vd['id'], 'kind': vd['kind'], 'name': vd.get('name'), 'type': vd['type']}}
            try: eng.ev_DeclRefExpr(fake, st, fr)
            except Unsupported: pass
        result['slice_pre'] = st.clone()
        if contract.pre:
            C0 = Ctx(eng, d, result.get('args', {}), fr.this, result['slice_pre'])
            for (nm, g) in contract.pre(C0): st.pc.append(g)
            result['slice_pre'] = st.clone()
        return eng.exec_stmt(tail, st, fr)
    finally:
        eng.lazy_locals = False


def run_loop_slice(eng, contract, d, st, fr, result):
    """one arbitrary iteration of loop #k of the function, from an arbitrary state (a contract on the loop body)"""
    import models as MD
    target = None
    fr.loop_ord = None
    eng.loop_ordinal({'id': None}, fr)
    for nid, o in eng.loop_ord_cache[fr.fn['id']].items():
        if o == contract.slice_loop: target = nid
    node = [None]
    def visit(x):
        if not isinstance(x, dict) or node[0] is not None: return
        if x.get('id') == target: node[0] = x; return
        for c in x.get('inner', []): visit(c)
    visit(eng.ast.body_of(d))
    n = node[0]
    if n is None: raise Unsupported('slice: loop #%d not found in %s' % (contract.slice_loop, contract.qname))
    eng.lazy_locals = True
    try:
        # every variable of the function declared outside the sliced body gets an arbitrary value (by its type)
        body_node = n['inner'][7] if n['kind'] == 'CXXForRangeStmt' else (n['inner'][0] if n['kind'] == 'DoStmt' else n['inner'][-1])
        def outer_vars(x, acc):
            if not isinstance(x, dict) or x is body_node: return
            if x.get('kind') in ('VarDecl', 'BindingDecl') and x.get('name') and not x['name'].startswith('__'): acc.append(x)
            if x.get('kind') == 'LambdaExpr': return
            for c in x.get('inner', []): outer_vars(c, acc)
        acc = []
        outer_vars(eng.ast.body_of(d), acc)
        for vd in acc:
            if vd['id'] in st.env or 'type' not in vd: continue
            fake = {'kind': 'DeclRefExpr', 'referencedDecl': {'id': vd['id'], 'kind': vd['kind'], 'name': vd.get('name'), 'type': vd['type']}}
            try: eng.ev_DeclRefExpr(fake, st, fr)
            except Unsupported: pass
        if n['kind'] == 'CXXForRangeStmt':
            inner = n['inner']
            rv = inner[1]['inner'][0]
            rinit = [c for c in rv.get('inner', []) if 'kind' in c][0]
            cont = eng.ev(rinit, st, fr)
            var = inner[6]['inner'][0]; vt = TY.of_node(var)
            eng.var_names[var['id']] = var.get('name')
            if isinstance(cont, ObjLV) and cont.ty.kind == 'flist':
                # an arbitrary member of the list (multiset model): any value whose multiplicity is at least one
                ety = cont.ty.args[0]
                if not ety.is_scalar(): raise Unsupported('slice over a list of %r' % (ety,))
                m = eng.fresh('slice.member', I)
                cnt = eng.harr(st, 'flist.count', z3.ArraySort(I, z3.ArraySort(I, I)))
                st.pc.append(z3.Select(z3.Select(cnt, cont.ref), m) >= 1)
                st.env[var['id']] = Ptr(m, eng.ptr_cls(ety)) if ety.kind == 'ptr' else m
                result['slice_member'] = m; result['slice_container'] = cont
                body = inner[7]
                result['slice_pre'] = st.clone()
                if contract.pre:
                    C0 = Ctx(eng, d, result.get('args', {}), fr.this, result['slice_pre'])
                    for (nm, g) in contract.pre(C0): st.pc.append(g)
                    result['slice_pre'] = st.clone()
                return eng.exec_stmt(body, st, fr)
            if not (isinstance(cont, ObjLV) and cont.ty.kind == 'vector'): raise Unsupported('slice over %r' % (cont,))
            i = eng.fresh('slice.i', I)
            st.pc.append(z3.And(i >= 0, i < eng.vec_len(st, cont.ref)))
            ety = cont.ty.args[0]
            if eng.is_value_type(ety):
                lv = ElemLV(cont.ref, i, ety)
                st.env[var['id']] = lv if vt.ref else eng.load(st, lv)
            else:
                o = ObjLV(eng.elem_ref(st, cont.ref, i), ety)
                st.env[var['id']] = o if vt.ref else eng.copy_object(st, o)
            result['slice_index'] = i; result['slice_container'] = cont
            body = inner[7]
        elif n['kind'] == 'ForStmt':
            body = n['inner'][4]
            c = n['inner'][2]
            if c.get('kind'): st.pc.append(eng.as_bool(eng.rv(c, st, fr)))
        elif n['kind'] == 'WhileStmt':
            body = n['inner'][-1]
            c = n['inner'][0]
            # the requires clauses come first: the guard is evaluated under them (its safety obligations may need them)
            result['slice_pre'] = st.clone()
            if contract.pre:
                C0 = Ctx(eng, d, result.get('args', {}), fr.this, result['slice_pre'])
                for (nm, g) in contract.pre(C0): st.pc.append(g)
            st.pc.append(eng.as_bool(eng.rv(c, st, fr)))
            result['slice_pre'] = st.clone()
            return eng.exec_stmt(body, st, fr)
        elif n['kind'] == 'DoStmt':
            # do { body } while (cond): an arbitrary iteration starts in an arbitrary state (the first one is entered unconditionally)
            body = n['inner'][0]
        else:
            raise Unsupported('slice of %s' % n['kind'])
        result['slice_pre'] = st.clone()
        if contract.pre:
            C0 = Ctx(eng, d, result.get('args', {}), fr.this, result['slice_pre'])
            for (nm, g) in contract.pre(C0): st.pc.append(g)
            result['slice_pre'] = st.clone()
        if contract.prefix_loop is not None:
            eng.stop_at_loop = (d['id'], contract.prefix_loop); eng.stopped_states = []
            try:
                outs0 = eng.exec_stmt(body, st, fr)
            finally:
                eng.stop_at_loop = None
            # paths that leave the iteration without reaching the inner loop are reported too (outcome None = fell off the end of the body)
            return [(s_, ('loop-entry',)) for s_ in eng.stopped_states] + [(s_, o_) for (s_, o_) in outs0 if o_ is None or o_[0] in ('throw', 'continue', 'break', 'ret')]
        return eng.exec_stmt(body, st, fr)
    finally:
        eng.lazy_locals = False


def site_sig(d, site):
    """position of a return/throw relative to the start of its function (stable under edits elsewhere in the file)"""
    if site is None: return 'end'
    return '%s@+%d' % ('ret' if site.get('kind') == 'ReturnStmt' else 'throw', (site.get('_line') or 0) - (d.get('_line') or 0))


def check_function(eng, contract, result):
    """symbolically execute the function under `contract`; appends obligations to eng.obligations.
    result: dict collecting per-function facts for the evidence"""
    d = contract.find_decl(eng)
    qn = contract.qname
    st = State()
    fr0 = Frame(d, None, '<driver>', 0)
    args = {}
    env = {}
    for i, p in enumerate(eng.ast.params_of(d)):
        v = param_value(eng, st, p, i)
        args[p.get('name') or 'arg%d' % i] = v
        env[p['id']] = v
        eng.var_names[p['id']] = p.get('name')
    this = None
    is_static = d.get('storageClass') == 'static'
    d_this = d
    if contract.lambda_ordinal is not None and getattr(contract, 'captures', None) is not None:
        # a lambda capturing `this` and locals of the enclosing member function: `this` is the enclosing object, the captured
        # locals are materialised on first use with arbitrary contents (lazy locals)
        d_this = contract.outer_decl
        is_static = d_this.get('storageClass') == 'static'
    if d_this['kind'] in ('CXXMethodDecl', 'CXXConstructorDecl') and not is_static:
        rec = eng.ast.owner_record(d_this)
        cname = eng.ast.record_display_name(rec)
        if eng.is_value_class(cname):
            key = 'param!this'
            st.env[key] = eng.fresh_value(TY.parse(cname), 'this')
            this = LocalLV(key)
        else:
            r = z3.Int('obj_this'); st.pc.append(r > 0); st.pc.append(eng.root_of(r) > 0)
            this = ObjLV(r, TY.parse(cname))
    saved_safety = eng.safety; eng.safety = set(contract.safety)
    saved_use = eng.use_contracts; eng.use_contracts = UseMap(contract.use)
    saved_depth = eng.max_depth
    if contract.max_depth: eng.max_depth = contract.max_depth
    if contract.unroll: saved_unroll = eng.unroll_limit; eng.unroll_limit = contract.unroll + 1
    eng.unroll_symbolic = contract.unroll or 0
    saved_nl = eng.name_locals; eng.name_locals = contract.name_locals
    eng.split_heap_ifs = contract.split_heap_ifs
    nob0 = len(eng.obligations)
    saved_lazy = eng.lazy_locals
    try:
        st.env.update(env)
        if contract.lambda_ordinal is not None and getattr(contract, 'captures', None) is not None:
            eng.lazy_locals = True
            fr_c = Frame(d, this, qn, 1)
            for cname_ in contract.captures:
                vds = [x for x in eng.ast.by_id.values() if x.get('kind') in ('VarDecl', 'ParmVarDecl') and x.get('name') == cname_ and eng.enclosing_function(x['id']) is contract.outer_decl]
                if len(vds) != 1: raise Unsupported('contract %s: %d variables named %s in %s' % (contract.name, len(vds), cname_, qn))
                eng.ev({'kind': 'DeclRefExpr', 'referencedDecl': {'id': vds[0]['id'], 'kind': vds[0]['kind'], 'name': cname_, 'type': vds[0]['type']}, 'type': vds[0]['type']}, st, fr_c)
        if contract.setup: contract.setup(eng, st, args, this)
        pre_state = st.clone()
        C0 = Ctx(eng, d, args, this, pre_state)
        pres = contract.pre(C0) if (contract.pre and contract.slice_loop is None and contract.suffix_loop is None) else []
        for (nm, g) in pres: st.pc.append(g)
        result['args'] = args
        pre_state = st.clone()
        result['requires'] = [(nm, g) for (nm, g) in pres]
        result['pre_pc'] = list(st.pc)
        fr = Frame(d, this, qn, 1)
        fr.ret_ty = TY.parse(d['type']['qualType'].split('(')[0].strip()) if d['kind'] != 'CXXConstructorDecl' else None
        eng.fns_executed.add(qn)
        if contract.suffix_loop is not None:
            outs = run_suffix(eng, contract, d, st, fr, result)
            pre_state = result['slice_pre']
        elif contract.slice_loop is not None:
            outs = run_loop_slice(eng, contract, d, st, fr, result)
            pre_state = result['slice_pre']
        elif contract.prefix_loop is not None and contract.slice_loop is None:
            eng.stop_at_loop = (d['id'], contract.prefix_loop); eng.stopped_states = []
            try:
                if d['kind'] == 'CXXConstructorDecl': eng.run_ctor_inits(d, this, st, fr)
                outs0 = eng.exec_stmt(eng.ast.body_of(d), st, fr)
            finally:
                eng.stop_at_loop = None
            outs = [(s_, ('loop-entry',)) for s_ in eng.stopped_states] + [(s_, o_) for (s_, o_) in outs0 if o_ is not None and o_[0] == 'throw']
            if not eng.stopped_states: raise Unsupported('prefix contract %s: loop #%d is never reached' % (contract.name, contract.prefix_loop))
        else:
            if d['kind'] == 'CXXConstructorDecl': eng.run_ctor_inits(d, this, st, fr)
            outs = eng.exec_stmt(eng.ast.body_of(d), st, fr)
        paths = []
        for (s, o) in outs:
            site = None
            if o is None or o[0] == 'ret':
                ret = o[1] if o else None; outcome = 'ret'
                site = o[2] if o else None
            elif o[0] == 'throw':
                ret = None; outcome = 'throw:' + str(o[1]); site = o[2]
                if 'noexcept' in d['type']['qualType'] and 'noexcept(false)' not in d['type']['qualType']:
                    eng.obligations.append(Obligation('safety:no-terminate', s.pc, z3.BoolVal(False), 'safety', eng.where(o[2], fr), info={'fn': qn}))
            elif contract.slice_loop is not None or contract.prefix_loop is not None:
                ret = None; outcome = o[0]; site = None
            else:
                raise Unsupported('break/continue at function level')
            C = Ctx(eng, d, args, this, pre_state, s, ret, outcome)
            posts = contract.post(C) if contract.post else []
            for item in posts:
                nm, g = item[0], item[1]
                info = {'fn': qn, 'outcome': outcome, 'requires': [g for (_, g) in pres], 'site': site_sig(d, site)}
                if len(item) > 2 and item[2] is not None: info['via'] = item[2]
                if len(item) > 3 and item[3]: info['cuts'] = list(item[3])
                if nm.startswith('cover:'):
                    # reachability check: the situation g must be possible at this exit (a refutable 'not g'); guards against a
                    # proof that holds only because the interesting case is contradictory
                    eng.obligations.append(Obligation(nm, s.pc, z3.Not(g), 'cover', qn, info=info)); continue
                eng.obligations.append(Obligation('ensures:' + nm, s.pc, g, 'ensures', qn, info=info))
            if contract.assigns is not None:
                for key, arr in s.heap.items():
                    if key in contract.assigns: continue
                    if any(a_.endswith('.*') and key.startswith(a_[:-1]) for a_ in contract.assigns): continue
                    h = pre_state.heap.get(key)
                    if h is None: h = eng.base_arrays.get(key)
                    if h is None or h is arr or h.eq(arr): continue
                    eng.obligations.append(Obligation('assigns:' + key, s.pc, frame_goal(arr, h), 'frame', qn, info={'fn': qn}))
            paths.append((s, outcome, ret))
        result['paths'] = paths
        # relational clauses: run the function again on transformed inputs and relate the two results path by path
        for rel in contract.relational:
            run_relational(eng, contract, rel, d, args, this, pre_state, paths, qn, pres)
        result['inputs'] = input_leaves(eng, args, this, pre_state)
        result['decl'] = d
    finally:
        eng.lazy_locals = saved_lazy
        eng.safety = saved_safety; eng.use_contracts = saved_use; eng.max_depth = saved_depth; eng.name_locals = saved_nl
        eng.split_heap_ifs = False
        if contract.unroll: eng.unroll_limit = saved_unroll
        eng.unroll_symbolic = 0
    for ob in eng.obligations[nob0:]:
        ob.info.setdefault('fn', qn)
        ob.info['contract'] = contract.name
        ob.info.setdefault('requires', [g for (_, g) in result.get('requires', [])])
        ob.info['inputs'] = result.get('inputs', []) + list(ob.info.get('extra_inputs', []))
        if ob.kind == 'safety' and contract.safety_via is not None and 'via' not in ob.info:
            v = contract.safety_via(C0, ob)
            if v is not None: ob.info['via'] = v
    return result
