/* astfilter: stream filter for `clang -Xclang -ast-dump=json` output.
 * Reads the (1.3 GB) JSON of one translation unit on stdin and writes, as a JSON array, only the
 * top-level declarations whose location is in a file under one of the prefixes given in argv.
 * clang's JSON prints "file"/"line" only when they change from the previously printed location,
 * so the filter tracks that state over *all* lines and emits, before each kept declaration, a
 * small object {"__state":{"file":..,"line":..}} holding the state valid at its start.
 * Output: [ {"__state":{...}}, {decl}, {"__state":{...}}, {decl}, ... ]
 */
#include <stdio.h>
#include <stdlib.h>
#include <string.h>

static char *buf = NULL; static size_t buflen = 0, bufcap = 0;
static void buf_add(const char *s, size_t n){
  if(buflen + n + 1 > bufcap){ bufcap = (buflen + n + 1) * 2; buf = realloc(buf, bufcap); if(!buf){perror("realloc"); exit(3);} }
  memcpy(buf + buflen, s, n); buflen += n; buf[buflen] = 0;
}
static char curfile[4096] = ""; static long curline = 0;
static char startfile[4096]; static long startline;

static int keep_file(const char *f, int npre, char **pre){
  for(int i = 0; i < npre; i++) if(strncmp(f, pre[i], strlen(pre[i])) == 0) return 1;
  return 0;
}
static void json_str(FILE *o, const char *s){ fputc('"', o); for(; *s; s++){ if(*s=='"'||*s=='\\') fputc('\\', o); fputc(*s, o);} fputc('"', o); }

int main(int argc, char **argv){
  char *line = NULL; size_t cap = 0; ssize_t n;
  int in_decl = 0, decided = 0, keep = 0, in_loc = 0, prev_included = 0, first = 1; long kept = 0, seen = 0;
  fputs("[\n", stdout);
  while((n = getline(&line, &cap, stdin)) > 0){
    /* state tracking */
    const char *p = line; while(*p == ' ') p++;
    if(strncmp(p, "\"file\": \"", 9) == 0){
      if(!prev_included){
        const char *q = p + 9; size_t k = 0;
        while(*q && *q != '"' && k < sizeof(curfile) - 1){ if(*q == '\\' && q[1]) q++; curfile[k++] = *q++; }
        curfile[k] = 0;
      }
    } else if(strncmp(p, "\"line\": ", 8) == 0){ curline = atol(p + 8); }
    prev_included = (strncmp(p, "\"includedFrom\": {", 17) == 0);
    if(!in_decl){
      if(strcmp(line, "    {\n") == 0){ in_decl = 1; decided = 0; keep = 0; in_loc = 0; buflen = 0; seen++;
        strcpy(startfile, curfile); startline = curline; buf_add(line, n); }
      continue;
    }
    /* inside a top-level decl */
    if(!decided){
      buf_add(line, n);
      if(strncmp(line, "      \"loc\": {", 14) == 0){
        if(strstr(line, "{}")) { decided = 1; keep = keep_file(curfile, argc - 1, argv + 1) && 0; }
        else in_loc = 1;
      } else if(in_loc && strncmp(line, "      }", 7) == 0){
        in_loc = 0; decided = 1; keep = keep_file(curfile, argc - 1, argv + 1);
      } else if(strcmp(line, "    },\n") == 0 || strcmp(line, "    }\n") == 0){ decided = 1; keep = 0; in_decl = 0; continue; }
      if(decided && keep){
        if(!first) fputs(",\n", stdout); first = 0;
        fputs("{\"__state\":{\"file\":", stdout); json_str(stdout, startfile); fprintf(stdout, ",\"line\":%ld}},\n", startline);
        fwrite(buf, 1, buflen, stdout); kept++;
      }
      continue;
    }
    if(strcmp(line, "    },\n") == 0 || strcmp(line, "    }\n") == 0){
      if(keep) fputs("    }\n", stdout);
      in_decl = 0; continue;
    }
    if(keep) fwrite(line, 1, n, stdout);
  }
  fputs("\n]\n", stdout);
  fprintf(stderr, "astfilter: %ld top-level decls seen, %ld kept\n", seen, kept);
  return 0;
}
