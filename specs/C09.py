"""C09 - cell division yields two valid daughters or leaves the mother untouched.
Contracts on cell_divider: divide_cell (no exception escapes, daughters' target volumes, what touches the mother), run
(book-keeping of the population: mothers out, two daughters in with fresh ids, renumbering), remove_index, the plane / rotation
kernels (find_edge_plane_intersection, face_side_wrt_plane, quaternion, map_points_to_xy_plane / map_points_to_division_plane)."""
import z3
from spec import Contract, LoopContract, V3
from values import QForall, ObjLV, Ptr, Rec

PROP = 'C09'
I = z3.IntSort(); R = z3.RealSort(); B = z3.BoolSort()
MAXLEN = 2 ** 60


def lv(C, name, st=None):
    st = st or C.pre_state
    for k, v in st.env.items():
        if C.e.var_names.get(k) == name and not str(k).startswith(('tmp!', 'glob!', 'param', 'rangeidx!')): return v
    raise KeyError(name)


# ---- divide_cell -------------------------------------------------------------------------------------------------------------------
ANY_STD = ['std::exception']       # "some class derived from std::exception" (C17 shows every throw site of the repository is one)


def note(tag):
    def f(C, st):
        log = st.ghost.get('calls', ())
        st.ghost['calls'] = log + (tag,)
    return f


def fresh_cell_pair(C, st):
    e = C.e
    a = Ptr(e.fresh('daughter_1', I), 'cell'); b = Ptr(e.fresh('daughter_2', I), 'cell')
    st.pc.append(z3.And(a.ref > 0, b.ref > 0, a.ref != b.ref))
    m = C.arg('mother_cell')
    mref = m.ref if hasattr(m, 'ref') else m
    st.pc.append(z3.And(a.ref != mref, b.ref != mref))
    st.ghost['daughters'] = (a.ref, b.ref)
    return Rec('pair', {'first': a, 'second': b})


def fresh_mesh(C, st):
    import ty
    return ObjLV(C.e.new_object(), ty.parse('mesh'))


def vec3_any(name):
    def f(C, st):
        return C.e.fresh_value(__import__('ty').parse('vec3'), name)
    return f


def pair_vec3_mat33(C, st):
    import ty
    return Rec('pair', {'first': C.e.fresh_value(ty.parse('vec3'), 'translation'), 'second': C.e.fresh_value(ty.parse('mat33'), 'rotation')})


MOTHER_KEYS_KEPT = ['cell.target_volume_']


def divide_callees():
    """the stages of the pipeline as divide_cell sees them: each may fail with an exception derived from std::exception; what they
    do to the mesh is the business of their own contracts / of C01, C11, C13"""
    ext = lambda qn, **kw: Contract(qn, PROP, assumed=True, throws=ANY_STD, on_call=note(qn.split('::')[-1]), name=qn + ' (stage: returns or throws a std::exception)', **kw)
    havoc = lambda C: [('*', MOTHER_KEYS_KEPT)]
    return [
        ext('cell::rebase', frame=havoc),
        ext('cell::compute_centroid', frame=lambda C: [], ret_model=vec3_any('centroid')),
        ext('cell::get_cell_division_axis', frame=lambda C: [], ret_model=vec3_any('axis')),
        ext('cell_divider::add_intersection_points', frame=lambda C: [], ret_model=fresh_mesh),
        ext('cell_divider::divide_faces', frame=havoc),
        ext('initial_triangulation::coarse_triangulation', frame=havoc),
        ext('cell_divider::map_points_to_xy_plane', frame=havoc, ret_model=pair_vec3_mat33),
        ext('cell_divider::triangulate_division_interface', frame=havoc),
        ext('cell_divider::map_points_to_division_plane', frame=havoc),
        ext('cell_divider::create_daughter_cells', frame=havoc, ret_model=fresh_cell_pair),
        ext('local_mesh_refiner::refine_mesh', frame=havoc),
        ext('cell::initialize_random_properties', frame=lambda C: [('cell.growth_rate_', None), ('cell.division_volume_', None)]),
    ]


def divide_pre(C):
    c = C.arg('c')
    return [('mother-non-null', c.ref > 0)]


def divide_post(C):
    o, n = C.old, C.new
    c = C.arg('c').ref
    if C.outcome != 'ret':
        return [('no-exception-escapes-divide_cell', z3.BoolVal(False))]
    r = C.ret
    g = C.post_state.ghost
    out = []
    if 'daughters' in g:
        d1, d2 = g['daughters']
        tv = 'cell.target_volume_'
        out.append(('success-returns-the-two-daughters', z3.Implies(r.f['has'], z3.And(r.f['value'].f['first'].ref == d1, r.f['value'].f['second'].ref == d2))))
        out.append(('each-daughter-inherits-half-of-the-target-volume', z3.Implies(r.f['has'], z3.And(n.f(d1, tv) == o.f(c, tv) / 2, n.f(d2, tv) == o.f(c, tv) / 2))))
        calls = g.get('calls', ())
        out.append(('daughters-are-refined-and-compacted-before-they-are-returned', z3.Implies(r.f['has'], z3.BoolVal(calls.count('refine_mesh') == 2 and calls.count('rebase') == 3 and calls.count('initialize_random_properties') == 2))))
    else:
        out.append(('failure-returns-nullopt', z3.Not(r.f['has'])))
    return out


# ---- remove_index<cell_ptr, unsigned> ------------------------------------------------------------------------------------------------
def gaps(view, R, m):
    """strictly ascending, in the form that needs no induction: R[b] - R[a] >= b - a for a < b"""
    return QForall(lambda a, b: z3.Implies(z3.And(a >= 0, a < b, b < m), view.at(R, b, 'int') - view.at(R, a, 'int') >= b - a), 2, 'indices strictly ascending')


def ri_pre(C):
    o = C.old
    V = C.arg('vector').ref; Rr = C.arg('to_remove').ref
    n = o.len(V); m = o.len(Rr)
    return [('distinct-objects', V != Rr), ('sizes', z3.And(n >= 0, m >= 0, m <= n)),
            ('indices-strictly-ascending', gaps(o, Rr, m)),
            ('indices-inside-the-vector', QForall(lambda a: z3.Implies(z3.And(a >= 0, a < m), z3.And(o.at(Rr, a, 'int') >= 0, o.at(Rr, a, 'int') < n)), 1, 'indices in range'))]


def survivors(o, view_new, V, Rr, n, m, upto, kmax):
    """every position q < upto that is not listed, with k listed positions before it, is found at position q - k"""
    def body(q, k):
        before = z3.Or(k == 0, o.at(Rr, k - 1, 'int') < q)
        after = z3.Or(k == m, q < o.at(Rr, k, 'int'))
        return z3.Implies(z3.And(q >= 0, q < upto, k >= 0, k <= kmax, before, after), view_new.at(V, q - k, 'int') == o.at(V, q, 'int'))
    return QForall(body, 2, 'survivors keep their order')


def ri_post(C):
    o, nw = C.old, C.new
    V = C.arg('vector').ref; Rr = C.arg('to_remove').ref
    n = o.len(V); m = o.len(Rr)
    def inrange(q, k):
        before = z3.Or(k == 0, o.at(Rr, k - 1, 'int') < q)
        after = z3.Or(k == m, q < o.at(Rr, k, 'int'))
        return z3.Implies(z3.And(q >= 0, q < n, k >= 0, k <= m, before, after), q - k < n - m)
    return [('length-shrinks-by-the-number-of-indices', nw.len(V) == n - m),
            ('every-element-not-listed-survives-in-order', survivors(o, nw, V, Rr, n, m, n, m)),
            ('survivor-positions-are-inside-the-new-vector', QForall(inrange, 2, 'positions in range')),
            ('index-list-length-unchanged', nw.len(Rr) == m),
            ('index-list-unchanged', QForall(lambda a: nw.at(Rr, a, 'int') == o.at(Rr, a, 'int'), 1, 'index list unchanged'))]


def ri_inv(L):
    e = L.e
    o = L.entry; c = L.cur
    V = L.var('vector').ref; Rr = L.var('to_remove').ref
    n = o.len(V); m = o.len(Rr)
    it = L.var('iter'); j = it.idx
    T = z3.If(j < m, o.at(Rr, j, 'int'), n)
    return [('iterator-and-counter', z3.And(it.vref == Rr, j >= 0, j <= m, L.var('down_by') == j, L.var('vector_base').idx == 0, L.var('vector_base').vref == V)),
            ('sizes-unchanged', z3.And(c.len(V) == n, c.len(Rr) == m)),
            ('index-list-unchanged', QForall(lambda a: c.at(Rr, a, 'int') == o.at(Rr, a, 'int'), 1, 'index list unchanged')),
            ('tail-not-yet-moved', QForall(lambda q: z3.Implies(z3.And(q >= T, q < n), c.at(V, q, 'int') == o.at(V, q, 'int')), 1, 'tail unchanged')),
            ('survivors-below-the-current-index-are-in-place', survivors(o, c, V, Rr, n, m, T, j))]


# ---- cell_divider::run: book-keeping of the population -------------------------------------------------------------------------------
CID = 'cell.cell_id_'


def alloc(view):
    """ghost: every object that exists has a reference below this watermark; objects made by a division lie at or above the
    watermark of the moment before the division (that is what 'newly created' means)"""
    return view.f(z3.IntVal(0), 'ghost.alloc')


def run_vars(L):
    Lr = L.var('cell_lst').ref; D = L.var('cells_to_delete_lst').ref
    return Lr, D


def run_inv(L):
    o, c = L.entry, L.cur
    Lr, D = run_vars(L)
    n0 = o.len(Lr); m = c.len(D)
    i = L.var('i')
    id0 = L.entry_var('max_cell_id_'); idc = L.var('max_cell_id_')
    return [('index-inside-the-list', z3.And(i >= 0, i <= c.len(Lr))),
            ('two-daughters-appended-per-recorded-mother', z3.And(c.len(Lr) == n0 + 2 * m, m >= 0)),
            ('recorded-mothers-ascend', gaps(c, D, m)),
            ('recorded-mothers-were-visited', QForall(lambda a: z3.Implies(z3.And(a >= 0, a < m), z3.And(c.at(D, a, 'int') >= 0, c.at(D, a, 'int') < i)), 1, 'mothers below the loop index')),
            ('old-population-keeps-its-positions', QForall(lambda k: z3.Implies(z3.And(k >= 0, k < n0), c.at(Lr, k, 'int') == o.at(Lr, k, 'int')), 1, 'prefix unchanged')),
            ('id-counter-advanced-by-two-per-division', idc == id0 + 2 * m),
            ('daughters-carry-consecutive-fresh-ids', QForall(lambda j: z3.Implies(z3.And(j >= 0, j < m), z3.And(c.f(c.at(Lr, n0 + 2 * j, 'int'), CID) == id0 + 2 * j,
                                                                                                     c.f(c.at(Lr, n0 + 2 * j + 1, 'int'), CID) == id0 + 2 * j + 1)), 1, 'daughter ids')),
            ('watermark-monotone', alloc(c) >= alloc(o)),
            ('every-listed-cell-exists', QForall(lambda k: z3.Implies(z3.And(k >= 0, k < c.len(Lr)), z3.And(c.at(Lr, k, 'int') > 0, c.at(Lr, k, 'int') < alloc(c))), 1, 'listed cells allocated'))]


def run_pre(C):
    o = C.old
    Lr = C.arg('cell_lst').ref
    n0 = o.len(Lr)
    e = C.e
    tag = e.uf('tag', I, I)
    return [('population-size-possible', z3.And(n0 >= 0, n0 <= MAXLEN)),
            # the list is the solver's member cell_lst_ (or a free-standing vector): not a part of any cell, and it exists already
            ('population-vector-is-the-solvers-list', z3.And(z3.Or(tag(Lr) == 0, tag(Lr) == e.tag_of('solver.cell_lst_') + 1), Lr < alloc(o))),
            ('population-holds-existing-cells', QForall(lambda k: z3.Implies(z3.And(k >= 0, k < n0), z3.And(o.at(Lr, k, 'int') > 0, o.at(Lr, k, 'int') < alloc(o))), 1, 'cells exist'))]


def divide_call_contract():
    """divide_cell as run() sees it: its own contract (proved above) plus the frame assumption that it can reach only the mother
    and the objects it creates (it is given neither the population vector nor the index list)"""
    def rm(C, st):
        e = C.e
        has = e.fresh('division_succeeded', B)
        a = e.fresh('daughter_1', I); b = e.fresh('daughter_2', I)
        st.ghost['last_daughters'] = (a, b, has)
        return Rec('optional', {'has': has, 'value': Rec('pair', {'first': Ptr(a, 'cell'), 'second': Ptr(b, 'cell')})})
    def frame(C):
        st = C.pre_state
        Lr = lv(C, 'cell_lst', st).ref; D = lv(C, 'cells_to_delete_lst', st).ref
        return [('*', [], [('vec.len', [Lr, D]), ('vec.data.int', [Lr, D])])]
    def post(C):
        o, n = C.old, C.new
        a, b, has = C.post_state.ghost['last_daughters']
        mother = C.arg('c').ref
        return [('new-objects', z3.Implies(has, z3.And(a >= alloc(o), b >= alloc(o), a != b, a < alloc(n), b < alloc(n), a > 0, b > 0))),
                ('watermark-monotone', alloc(n) >= alloc(o)),
                ('ids-of-other-cells-untouched', QForall(lambda r: z3.Implies(z3.And(r > 0, r < alloc(o)), n.f(r, CID) == o.f(r, CID)), 1, 'ids of existing cells'))]
    return Contract('cell_divider::divide_cell', PROP, pre=divide_pre, post=post, frame=frame, ret_model=rm, assumed=True,
                    name='cell_divider::divide_cell (own contract + frame: reaches only the mother and the objects it creates)')


def ready_contract():
    return Contract('cell::is_ready_to_divide', PROP, frame=lambda C: [], assumed=True, name='cell::is_ready_to_divide (any override: some boolean, no side effect)')


def run_post(C):
    if C.outcome != 'ret': return [('run-does-not-throw', z3.BoolVal(False))]
    g = C.post_state.ghost
    if 'loop_exit:0' not in g: return [('division-loop-executed', z3.BoolVal(False))]
    from spec import View
    X = View(C.e, g['loop_exit:0'].data)
    ex = g['loop_exit:0'].data
    o, n = C.old, C.new
    Lr = C.arg('cell_lst').ref
    D = [v for k, v in ex.env.items() if C.e.var_names.get(k) == 'cells_to_delete_lst'][0].ref
    n0 = o.len(Lr); m = X.len(D)
    id0 = C.val('max_cell_id_', C.old); id1 = C.val('max_cell_id_', C.new)
    # the positions of the mothers as remove_index receives them: the index list after std::sort (the model of std::sort makes it a
    # sorted permutation of the positions recorded by the loop, i.e. the same set of positions)
    def survive(q, k):
        before = z3.Or(k == 0, n.at(D, k - 1, 'int') < q)
        after = z3.Or(k == m, q < n.at(D, k, 'int'))
        return z3.Implies(z3.And(q >= 0, q < n0 + 2 * m, k >= 0, k <= m, before, after), z3.And(n.at(Lr, q - k, 'int') == X.at(Lr, q, 'int'), q - k < n.len(Lr)))
    return [('cover:two-or-more-divisions-in-one-call', m >= 2), ('cover:no-division', m == 0),
            ('each-mother-is-replaced-by-two-cells', n.len(Lr) == n0 + m),
            ('cells-that-did-not-divide-and-all-daughters-stay-in-order', QForall(survive, 2, 'survivors')),

            ('old-cells-were-at-their-old-positions-before-the-removal', QForall(lambda k: z3.Implies(z3.And(k >= 0, k < n0), X.at(Lr, k, 'int') == o.at(Lr, k, 'int')), 1, 'prefix')),
            ('id-counter-advanced-by-two-per-division', id1 == id0 + 2 * m),
            ('daughters-carry-consecutive-fresh-ids', QForall(lambda j: z3.Implies(z3.And(j >= 0, j < m), z3.And(n.f(X.at(Lr, n0 + 2 * j, 'int'), CID) == id0 + 2 * j,
                                                                                                     n.f(X.at(Lr, n0 + 2 * j + 1, 'int'), CID) == id0 + 2 * j + 1)), 1, 'daughter ids'))]


def renumber_post(C):
    n = C.new
    Lr = C.arg('cell_lst').ref
    p = lv(C, 'local_cell_id')
    if C.outcome not in (None, 'continue', 'end'): return []
    return [('cell-at-position-p-gets-position-index-p', n.f(n.at(Lr, p, 'int'), 'cell.local_id_') == p)]


def renumber_pre(C):
    o = C.old
    Lr = C.arg('cell_lst').ref
    p = lv(C, 'local_cell_id')
    return [('cell-exists', o.at(Lr, p, 'int') > 0)]


def build_run(reg):
    fn = 'cell_divider::run'
    reg.default_havoc = {fn}
    reg.add_loop(LoopContract(fn, 0, run_inv, modifies=['*']))
    reg.add_loop(LoopContract(fn, 1, lambda L: [], modifies=['cell.local_id_']))
    ri = [c for c in reg.contracts if c.qname == 'remove_index'][0]
    reg.add(Contract(fn, PROP, pre=run_pre, post=run_post, use=[divide_call_contract(), ready_contract(), ri], safety={'bounds'}, name=fn + '(population)'))
    reg.add(Contract(fn, PROP, pre=renumber_pre, post=renumber_post, slice_loop=1, name=fn + '::<renumbering loop body>'))


# ---- plane / rotation kernels -------------------------------------------------------------------------------------------------------
def vec(C, name):
    return V3.of(C.val(name))


def fepi_post(C):
    e1, e2, p, n = vec(C, 'e1'), vec(C, 'e2'), vec(C, 'p'), vec(C, 'n')
    r = C.ret
    dot1 = n.dot(p - e1); dot2 = n.dot(e2 - e1)
    t = dot1 / dot2
    q = V3.of(r.f['value'])
    return [('no-result-iff-parallel-or-outside-the-segment', r.f['has'] == z3.And(dot2 != 0, t >= 0, t <= 1)),
            ('the-point-lies-on-the-plane', z3.Implies(r.f['has'], n.dot(q - p) == 0)),
            ('the-point-lies-on-the-segment', z3.Implies(r.f['has'], q.eq(e1 + (e2 - e1) * t)))]


def side_pre(C):
    return [('cell-non-null', C.arg('c').ref > 0)]


def side_post(C):
    o = C.old
    f = C.arg('f').ref; c = C.arg('c').ref
    nl = o.sub(c, 'cell.node_lst_')
    ids = [o.f(f, 'face.n%d_id_' % k) for k in (1, 2, 3)]
    P = [o.v3(o.elem(nl, i), 'node.pos_') for i in ids]
    cen = (P[0] + P[1] + P[2]) / 3
    return [('side-of-the-face-centroid', C.ret == ((cen - vec(C, 'p')).dot(vec(C, 'n')) > 0))]


def qcomp(q):
    return [q.f[k] for k in ('w', 'i', 'j', 'k')]


def rows(M):
    return [[M.f['row_%d_' % (r + 1)].f[str(c)] for c in range(3)] for r in range(3)]


def orthonormal(M):
    Rw = rows(M)
    out = []
    for a in range(3):
        for b in range(a, 3):
            out.append(sum(Rw[a][c] * Rw[b][c] for c in range(3)) == (1 if a == b else 0))
    return out


def tm_pre(C):
    w, i, j, k = qcomp(C.e.load(C.pre_state, C.this))
    return [('unit-quaternion', w * w + i * i + j * j + k * k == 1)]


def tm_post(C):
    M = C.ret
    w, i, j, k = qcomp(C.e.load(C.pre_state, C.this))
    Rw = rows(M)
    det = (Rw[0][0] * (Rw[1][1] * Rw[2][2] - Rw[1][2] * Rw[2][1]) - Rw[0][1] * (Rw[1][0] * Rw[2][2] - Rw[1][2] * Rw[2][0]) + Rw[0][2] * (Rw[1][0] * Rw[2][1] - Rw[1][1] * Rw[2][0]))
    return [('rows-orthonormal-%d' % n_, g) for n_, g in enumerate(orthonormal(M))] + [('proper-rotation', det == 1)]


def nz_pre(C):
    w, i, j, k = qcomp(C.e.load(C.pre_state, C.this))
    return [('non-zero-quaternion', w * w + i * i + j * j + k * k > 0)]


def nz_post(C):
    w, i, j, k = qcomp(C.e.load(C.pre_state, C.this))
    rw, ri, rj, rk = qcomp(C.ret)
    s = z3.Real('norm_of_q')
    return [('result-is-a-unit-quaternion', rw * rw + ri * ri + rj * rj + rk * rk == 1),
            ('result-is-a-positive-multiple', z3.And(rw * rw * (i * i + j * j + k * k) == w * w * (ri * ri + rj * rj + rk * rk), rw * w >= 0, ri * i >= 0, rj * j >= 0, rk * k >= 0))]


def xy_pre(C):
    n = vec(C, 'division_plane_normal')
    o = C.old
    pos = o.sub(C.arg('m').ref, 'mesh.node_pos_lst')
    thr = C.val('division_point_ids_threshold')
    return [('unit-normal', n.sq() == 1),
            # the function's own assert: there is at least one interface point (otherwise the centroid is 0/0)
            ('interface-has-points', z3.And(thr >= 0, (thr + 1) * 3 <= o.len(pos))),
            # for n = (0,0,-1) the quaternion (1 + n.z, n x z) is the zero quaternion and normalize() divides by zero (the matrix is
            # NaN, the following stages throw and the division is refused): the rotation contract is stated for the other normals
            ('normal-is-not-minus-z', n.z > -1)]


def xy_post(C):
    if C.outcome != 'loop-entry': return []
    n = vec(C, 'division_plane_normal')
    R = C.local('rotation_matrix')
    Rw = rows(R)
    img = [sum(Rw[r][c] * n.comps()[c] for c in range(3)) for r in range(3)]
    return [('cover:oblique-normal', z3.And(n.x != 0, n.y != 0, n.z != 0)), ('cover:normal-is-plus-z', n.z == 1)] + \
           [('rotation-rows-orthonormal-%d' % k, g) for k, g in enumerate(orthonormal(R))] + \
           [('rotation-maps-the-plane-normal-to-the-z-axis', z3.And(img[0] == 0, img[1] == 0, img[2] == 1))]


def back_post(C):
    if C.outcome not in (None, 'continue', 'end'): return []
    o, n = C.old, C.new
    m = C.arg('m').ref
    pos = o.sub(m, 'mesh.node_pos_lst')
    pid = lv(C, 'p_id')
    R = C.val('rotation_matrix'); t = vec(C, 'translation')
    Rw = rows(R)
    x = [o.at(pos, pid * 3 + a, 'real') for a in range(3)]
    want = [sum(Rw[c][r] * x[c] for c in range(3)) - t.comps()[r] for r in range(3)]      # transpose(R) x - t
    return [('point-is-rotated-back-and-translated-back', z3.And(*[n.at(pos, pid * 3 + a, 'real') == want[a] for a in range(3)]))]


def back_pre(C):
    o = C.old
    m = C.arg('m').ref
    pos = o.sub(m, 'mesh.node_pos_lst')
    pid = lv(C, 'p_id')
    return [('point-exists', z3.And(pid >= 0, pid * 3 + 2 < o.len(pos)))]


def kernel_lemmas(reg):
    # the forward map drops the z coordinate after rotating; for a point of the plane nothing is dropped and back(forward(x)) = x
    x, t = V3.fresh('rx'), V3.fresh('rt')
    Rv = [[z3.Real('r%d%d' % (a, b)) for b in range(3)] for a in range(3)]
    ortho = []
    for a in range(3):
        for b in range(a, 3):
            ortho.append(sum(Rv[c][a] * Rv[c][b] for c in range(3)) == (1 if a == b else 0))     # columns orthonormal (R^T R = I)
    y = [sum(Rv[r][c] * (x + t).comps()[c] for c in range(3)) for r in range(3)]
    back = [sum(Rv[c][r] * [y[0], y[1], z3.RealVal(0)][c] for c in range(3)) - t.comps()[r] for r in range(3)]
    ins = x.comps() + t.comps() + sum(Rv, [])
    reg.lemma('points-of-the-division-plane-return-to-their-place', PROP, ortho + [y[2] == 0], z3.And(*[back[a] == x.comps()[a] for a in range(3)]),
              note='map_points_to_division_plane undoes map_points_to_xy_plane on every point whose rotated z coordinate is 0 (the points of the plane through the centroid of the interface)', inputs=ins)


def build_kernels(reg):
    reg.add(Contract('cell_divider::find_edge_plane_intersection', PROP, post=fepi_post, assigns=[]))
    reg.add(Contract('cell_divider::face_side_wrt_plane', PROP, pre=side_pre, post=side_post, assigns=[]))
    reg.add(Contract('quaternion::to_matrix', PROP, pre=tm_pre, post=tm_post, assigns=[]))
    reg.add(Contract('quaternion::normalize', PROP, pre=nz_pre, post=nz_post, assigns=[], safety={'fdiv-zero'}))
    fn = 'cell_divider::map_points_to_xy_plane'
    reg.add_loop(LoopContract(fn, 0, lambda L: [], modifies=['*']))
    reg.add_loop(LoopContract(fn, 1, lambda L: [], modifies=['*']))
    reg.add(Contract(fn, PROP, pre=xy_pre, post=xy_post, prefix_loop=2, safety={'fdiv-zero'}, name=fn + '::<rotation>'))
    reg.add(Contract('cell_divider::map_points_to_division_plane', PROP, pre=back_pre, post=back_post, slice_loop=0, safety={'bounds'},
                     name='cell_divider::map_points_to_division_plane::<loop body>'))
    kernel_lemmas(reg)


def build(reg):
    SIG = 'std::vector<shared_ptr<cell>> &, std::vector<unsigned int>'
    reg.add(Contract('remove_index', PROP, signature=SIG, pre=ri_pre, post=ri_post, safety={'bounds'}, assigns=['vec.len', 'vec.data.int', 'vec.epoch'], name='remove_index<cell_ptr, unsigned>'))
    reg.add_loop(LoopContract('remove_index', 0, ri_inv, modifies=['vec.data.int'], decreases=lambda L: L.entry.len(L.var('to_remove').ref) - L.var('iter').idx))
    build_run(reg)
    build_kernels(reg)
    reg.add(Contract('cell_divider::divide_cell', PROP, pre=divide_pre, post=divide_post, use=divide_callees(), safety={'null-deref'}))


# ------------------------------------------------------------------------------------------------ native replay
DRIVER = r'''
#include <array>
#include <cmath>
#include <cstdio>
#include <cstdlib>
#include <limits>
#include <map>
#include <set>
#include <vector>
#include "cell_divider.hpp"
#include "local_mesh_refiner.hpp"
#include "epithelial_cell.hpp"
// argv: nb_cells, then the list positions of the cells that are ready to divide. One call of cell_divider::run on a row of
// ellipsoidal epithelial cells; afterwards the population book-keeping of the property is checked on the real objects.
static void ellipsoid(double cx, std::vector<double>& pos, std::vector<unsigned>& faces){
  const double t = (1. + std::sqrt(5.)) / 2.;
  std::vector<std::array<double,3>> v{{-1,t,0},{1,t,0},{-1,-t,0},{1,-t,0},{0,-1,t},{0,1,t},{0,-1,-t},{0,1,-t},{t,0,-1},{t,0,1},{-t,0,-1},{-t,0,1}};
  std::vector<std::array<unsigned,3>> f{{0,11,5},{0,5,1},{0,1,7},{0,7,10},{0,10,11},{1,5,9},{5,11,4},{11,10,2},{10,7,6},{7,1,8},{3,9,4},{3,4,2},{3,2,6},{3,6,8},{3,8,9},{4,9,5},{2,4,11},{6,2,10},{8,6,7},{9,8,1}};
  auto nrm = [](std::array<double,3>& p){ double n = std::sqrt(p[0]*p[0]+p[1]*p[1]+p[2]*p[2]); p[0]/=n; p[1]/=n; p[2]/=n; };
  for(auto& p: v) nrm(p);
  for(int s = 0; s < 2; s++){
    std::map<std::pair<unsigned,unsigned>, unsigned> cache;
    auto mid = [&](unsigned a, unsigned b){ auto k = std::make_pair(std::min(a,b), std::max(a,b)); auto it = cache.find(k); if(it != cache.end()) return it->second;
      std::array<double,3> m{(v[a][0]+v[b][0])/2, (v[a][1]+v[b][1])/2, (v[a][2]+v[b][2])/2}; nrm(m); v.push_back(m); return cache[k] = (unsigned)v.size()-1; };
    std::vector<std::array<unsigned,3>> f2;
    for(auto& tr: f){ unsigned a = mid(tr[0],tr[1]), b = mid(tr[1],tr[2]), c = mid(tr[2],tr[0]); f2.push_back({tr[0],a,c}); f2.push_back({tr[1],b,a}); f2.push_back({tr[2],c,b}); f2.push_back({a,b,c}); }
    f = f2;
  }
  // generic rotation + anisotropic scaling so that no division plane passes through a node
  const double ca = std::cos(0.37), sa = std::sin(0.37), cb = std::cos(1.13), sb = std::sin(1.13);
  for(auto& p: v){
    double x = 1.5*p[0], y = 1.0*p[1], z = 0.9*p[2];
    double x1 = ca*x - sa*y, y1 = sa*x + ca*y, z1 = z;
    double x2 = x1, y2 = cb*y1 - sb*z1, z2 = sb*y1 + cb*z1;
    pos.push_back(cx + x2); pos.push_back(1.7 + y2); pos.push_back(-0.6 + z2);
  }
  for(auto& tr: f){ faces.push_back(tr[0]); faces.push_back(tr[1]); faces.push_back(tr[2]); }
}
static int trial(unsigned n, const std::set<unsigned>& dividing, unsigned& divided_out){
  face_type_parameters ft; ft.name_ = "apical"; ft.face_type_global_id_ = 0; ft.surface_tension_ = 1e-3; ft.adherence_strength_ = 0; ft.repulsion_strength_ = 1; ft.bending_modulus_ = 0;
  auto ct = std::make_shared<cell_type_parameters>(); ct->name_ = "epithelial"; ct->global_type_id_ = 0; ct->mass_density_ = 1; ct->bulk_modulus_ = 1; ct->initial_pressure_ = 0; ct->max_pressure_ = 1;
  ct->avg_growth_rate_ = 0; ct->std_growth_rate_ = 0; ct->target_isoperimetric_ratio_ = 150; ct->angle_regularization_factor_ = 0; ct->area_elasticity_modulus_ = 0; ct->surface_coupling_max_curvature_ = 1;
  ct->avg_division_vol_ = std::numeric_limits<double>::infinity(); ct->std_division_vol_ = 0; ct->min_vol_ = 0; ct->add_face_type(ft);
  const double l_min = 0.12, l_max = 0.45;
  local_mesh_refiner lmr(l_min, l_max, false);
  std::vector<cell_ptr> cells; cells.reserve(4*n + 16);
  std::vector<cell*> before; std::vector<unsigned> ids_before;
  for(unsigned k = 0; k < n; k++){
    std::vector<double> pos; std::vector<unsigned> faces; ellipsoid(4.0*k + 2.3, pos, faces);
    auto c = std::make_shared<epithelial_cell>(pos, faces, k, ct); c->initialize_cell_properties(true); c->set_local_id(k);
    c->division_volume_ = dividing.count(k) ? 0. : std::numeric_limits<double>::infinity(); c->target_volume_ = 1.2 * c->get_volume();
    cells.push_back(c); before.push_back(c.get()); ids_before.push_back(c->get_id());
  }
  unsigned max_id = n;
  cell_divider::run(cells, l_min, lmr, max_id, false);
  int bad = 0;
  // which mothers really divided: their objects were emptied by clear_data()
  unsigned divided = 0; for(unsigned k = 0; k < n; k++) if(dividing.count(k) && before[k]->get_node_lst().size() == 0) divided++;
  if(cells.size() != n + divided){ printf("FAIL population has %zu cells, expected %u (each of the %u divided mothers replaced by two cells)\n", cells.size(), n + divided, divided); bad = 1; }
  if(max_id != n + 2*divided){ printf("FAIL id counter is %u, expected %u\n", max_id, n + 2*divided); bad = 1; }
  std::map<unsigned,unsigned> idc;
  for(size_t p = 0; p < cells.size(); p++){
    idc[cells[p]->get_id()]++;
    if(cells[p]->get_node_lst().size() == 0){ printf("FAIL position %zu holds an emptied mother (id %u)\n", p, cells[p]->get_id()); bad = 1; }
    if(cells[p]->get_local_id() != p){ printf("FAIL cell at position %zu has position index %u\n", p, cells[p]->get_local_id()); bad = 1; }
  }
  for(auto& kv: idc) if(kv.second != 1){ printf("FAIL id %u is carried by %u cells\n", kv.first, kv.second); bad = 1; }
  size_t lastpos = 0; bool first = true;
  for(unsigned k = 0; k < n; k++){
    size_t found = 0, at = 0; for(size_t p = 0; p < cells.size(); p++) if(cells[p].get() == before[k]){ found++; at = p; }
    bool gone = dividing.count(k) && before[k]->get_node_lst().size() == 0;
    if(gone && found){ printf("FAIL divided mother %u is still in the population\n", k); bad = 1; }
    if(!gone){
      if(found != 1){ printf("FAIL cell %u that did not divide appears %zu times in the population\n", k, found); bad = 1; }
      else { if(!first && at <= lastpos){ printf("FAIL cell %u changed its order\n", k); bad = 1; } lastpos = at; first = false;
             if(before[k]->get_id() != ids_before[k]){ printf("FAIL cell %u changed id\n", k); bad = 1; } }
    }
  }
  if(!bad) printf("OK %u cells, %u divided, population %zu\n", n, divided, cells.size());
  divided_out = divided;
  return bad;
}
int main(int argc, char** argv){
  unsigned n = (unsigned)atoi(argv[1]); std::set<unsigned> dividing; for(int i = 2; i < argc; i++) dividing.insert((unsigned)atoi(argv[i]));
  // the interface sampling is seeded from the clock and a division may be refused: repeat until several calls had two or more divisions
  unsigned multi = 0;
  for(int t = 0; t < 12 && multi < 3; t++){ unsigned d = 0; if(trial(n, dividing, d)) return 1; if(d >= 2) multi++; }
  if(multi == 0){ printf("INCONCLUSIVE no call with two or more successful divisions\n"); return 0; }
  printf("OK %u call(s) with two or more divisions checked\n", multi);
  return 0;
}
'''


_REPLAY_CACHE = {}


def replay(ob, ins, run):
    """refuted obligations of run() / divide_cell / remove_index: the real cell_divider::run on a row of six ellipsoidal cells that
    are all ready to divide (some divisions succeed, some are refused by the pipeline), population book-keeping checked afterwards"""
    import native
    args = ['6', '0', '1', '2', '3', '4', '5']
    if 'r' not in _REPLAY_CACHE: _REPLAY_CACHE['r'] = native.run_driver(DRIVER, args, sanitize=False, timeout=900)      # one native run per check
    code, out = _REPLAY_CACHE['r']
    return {'confirmed': code not in (0, 124, 125), 'exit': code, 'args': args, 'output': out[-3000:],
            'driver': 'specs/C09.py:DRIVER (real cell_divider::run, epithelial cells built from icospheres; exit 134 = std::terminate from the noexcept pipeline)'}


def replay_recorded(data):
    import native
    args = data.get('native', {}).get('args') or ['6', '0', '1', '2', '3', '4', '5']
    code, out = native.run_driver(DRIVER, args, sanitize=False, timeout=900)
    return {'confirmed': code not in (0, 124, 125), 'output': out}


EXPLANATION = ("cell_divider::run (population book-keeping, sequential reading of the OpenMP loop): loop invariant over the division loop - two "
               "daughters appended per recorded mother, recorded mother indices strictly ascending and already visited, old population in place, "
               "id counter advanced by two per division, daughters carry the consecutive fresh ids, every listed cell exists (allocation "
               "watermark ghost) - then std::sort (identity on an ascending list), remove_index under its own contract, renumbering loop. "
               "Postconditions: population size = old size + number of divisions; every cell that did not divide and every daughter is kept, in "
               "order, at position q - #(mothers before q); id counter and daughter ids; position index = list position (loop-body contract). "
               "Reachability covers: no division, two or more divisions in one call. remove_index<cell_ptr,unsigned>: full functional contract "
               "with an inductive invariant (survivors in order, new length, positions inside the new vector), for every vector and index list. "
               "divide_cell: every stage may throw any std::exception; no exception escapes, failure returns nullopt, success returns the two "
               "daughters of create_daughter_cells with half of the mother's target volume each, refined / compacted / re-randomised. Kernels: "
               "find_edge_plane_intersection (point on the plane and on the segment, nullopt iff parallel or outside), face_side_wrt_plane, "
               "quaternion::normalize / to_matrix (orthonormal rows, det 1), the rotation of map_points_to_xy_plane (orthonormal, maps the plane "
               "normal to +z; stated for normals other than -z), loop body of map_points_to_division_plane (x -> R^T x - t), lemma: points of "
               "the plane return to their place.")
ASSUMPTIONS = ["OpenMP loop of run() read sequentially (C15 is about schedules)",
               "divide_cell as a callee of run(): reaches only the mother and the objects it creates - it is given neither the population vector nor the index list - and does not change the id of an existing cell",
               "allocation ghost: objects created by a division have references at or above the watermark of the moment before; the population vector and all listed cells lie below it",
               "cell::is_ready_to_divide overrides: side-effect free",
               "stages of divide_cell: return or throw a class derived from std::exception (C17 static fact: every throw site does); only target_volume_ of existing cells is assumed untouched by them",
               "std::sort / std::move(range) / vector::resize, erase as modelled in models.py", "exact reals for the kernels"]
UNVERIFIED = ["the daughters' surfaces: closed, outward oriented, on their own side of the plane, volumes adding up (create_daughter_cells, triangulate_division_interface, Delaunay, Poisson sampling, refine_mesh): C01/C11/C13 territory, not under contract here",
              "the mother's surface is unchanged by a refused division: divide_cell calls c->rebase() (a compaction) before anything can fail; rebase is not under contract",
              "a division axis of exactly (0,0,-1) makes the quaternion (1+n.z, n x z) zero: normalize() divides by zero, the rotation is NaN and the division is refused (the mother stays): the rotation contract excludes this normal",
              "remove_index<face, unsigned> used by create_daughter_cells (vector of objects, not of pointers)"]
