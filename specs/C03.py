"""C03 - one position update follows the documented integration law.
Contracts on time_integration_scheme::update_nodes_positions in four compile-time configurations
(contact model 0/1 x dynamic model 0/1):
  * whole function: simulated time advances by exactly dt (loops by contract);
  * outer loop body up to the node loop: a static cell is skipped untouched; otherwise c1_node_mass = density*volume/#live nodes;
  * node loop body, arbitrary cell / arbitrary node: the integration law, force reset, frame; coupled pairs (contact model 1)."""
import z3
from spec import Contract, V3, LoopContract
from values import QForall

PROP = 'C03'
CONFIGS = [{'SIMUCELL3D_VERIF_CONTACT_MODEL_INDEX': c, 'SIMUCELL3D_VERIF_DYNAMIC_MODEL_INDEX': d} for c in (1, 0) for d in (0, 1)]
FN = 'time_integration_scheme::update_nodes_positions'
TI = 'time_integration_scheme.'
I = z3.IntSort()


def node_mass(view, c):
    ct = view.f(c, 'cell.cell_type_')
    live = view.len(view.sub(c, 'cell.node_lst_')) - view.len(view.sub(c, 'cell.free_node_queue_'))
    return view.f(ct, 'cell_type_parameters.mass_density_') * view.f(c, 'cell.volume_') / z3.ToReal(live)


def var(C, name, st=None):
    st = st or C.pre_state
    for k, v in st.env.items():
        if C.e.var_names.get(k) == name and not str(k).startswith(('tmp!', 'glob!', 'param', 'rangeidx!')): return v
    raise KeyError(name)


# ---- T1: time --------------------------------------------------------------------------------------------------------
def post_time(C):
    o, n = C.old, C.new
    return [('time-advances-by-one-step', n.f(C.this, TI + 'simulation_time_') == o.f(C.this, TI + 'simulation_time_') + o.f(C.this, TI + 'dt_')),
            ('step-and-damping-unchanged', z3.And(n.f(C.this, TI + 'dt_') == o.f(C.this, TI + 'dt_'), n.f(C.this, TI + 'damping_coeff_') == o.f(C.this, TI + 'damping_coeff_')))]


# ---- outer body: static cells, node mass --------------------------------------------------------------------------------
def post_outer(C):
    o, n = C.old, C.new
    c1 = var(C, 'c1', C.post_state).ref
    if C.outcome == 'continue':
        # the only way to skip a cell is that it is static; nothing has been written
        unchanged = z3.And(*[n.arr(k) == o.arr(k) for k in ('node.pos_.dx_', 'node.pos_.dy_', 'node.pos_.dz_', 'node.force_.dx_', 'node.force_.dy_', 'node.force_.dz_')])
        return [('skipped-only-if-static', o.f(c1, 'cell.is_static_')), ('static-cell-untouched', unchanged)]
    if C.outcome == 'loop-entry':
        m = C.local('c1_node_mass')
        return [('integrated-only-if-not-static', z3.Not(o.f(c1, 'cell.is_static_'))),
                ('per-node-mass-is-density-times-volume-over-live-nodes', m == node_mass(o, c1)),
                ('nothing-written-before-the-node-loop', z3.And(*[n.arr(k) == o.arr(k) for k in ('node.pos_.dx_', 'node.force_.dx_')]))]
    return []


def pre_outer(C):
    o = C.old
    lst = var(C, 'cell_lst').ref
    return [('cells-non-null', QForall(lambda k: o.at(lst, k, 'int') > 0, 1, 'cell pointers are non-null'))]


# ---- node loop body ------------------------------------------------------------------------------------------------------
def v3(view, ref, key):
    return view.v3(ref, key)


def pre_node(cfg):
    contact = cfg['SIMUCELL3D_VERIF_CONTACT_MODEL_INDEX']

    def pre(C):
        o = C.old
        c1 = var(C, 'c1').ref
        m = C.local('c1_node_mass', C.pre_state)
        dt = o.f(C.this, TI + 'dt_'); damp = o.f(C.this, TI + 'damping_coeff_')
        out = [('time-step-positive', dt > 0), ('damping-positive', damp > 0),
               # established by the outer-body contract
               ('per-node-mass', z3.And(m == node_mass(o, c1), m > 0))]
        if contact == 1:
            n1 = var(C, 'n1')
            lst = var(C, 'cell_lst').ref
            c2i = o.f(n1, 'node.coupled_node_.value.first'); n2i = o.f(n1, 'node.coupled_node_.value.second')
            c2 = o.at(lst, c2i, 'int')
            coupled = o.f(n1, 'node.coupled_node_.has')
            # REF-INV of C08 (couplings designate live nodes of listed cells) and the property's own hypothesis (mutual coupling)
            out += [('population-index', z3.And(o.f(c1, 'cell.local_id_') >= 0, o.at(lst, o.f(c1, 'cell.local_id_'), 'int') == c1, o.f(c1, 'cell.local_id_') < o.len(lst))),
                    ('coupling-designates-a-listed-cell', z3.Implies(coupled, z3.And(c2i >= 0, c2i < o.len(lst), c2 > 0, o.f(c2, 'cell.local_id_') == c2i))),
                    ('coupling-designates-a-node-of-that-cell', z3.Implies(coupled, z3.And(n2i >= 0, n2i < o.len(o.sub(c2, 'cell.node_lst_'))))),
                    ('partner-cell-mass-positive', z3.Implies(coupled, node_mass(o, c2) > 0)),
                    ('partner-is-another-cell', z3.Implies(coupled, c2i != o.f(c1, 'cell.local_id_')))]
        return out
    return pre


def law(cfg, x, mom, f, mass, dt, damp):
    """the documented law: returns (x', momentum')"""
    if cfg['SIMUCELL3D_VERIF_DYNAMIC_MODEL_INDEX'] == 0:
        m1 = mom + (f - mom * (damp / mass)) * dt
        return x + m1 * (dt / mass), m1
    return x + f * (dt / damp), None


def post_node(cfg):
    contact = cfg['SIMUCELL3D_VERIF_CONTACT_MODEL_INDEX']; dyn = cfg['SIMUCELL3D_VERIF_DYNAMIC_MODEL_INDEX']

    def post(C):
        o, n = C.old, C.new
        c1 = var(C, 'c1').ref
        n1 = var(C, 'n1')
        m = C.local('c1_node_mass', C.pre_state)
        dt = o.f(C.this, TI + 'dt_'); damp = o.f(C.this, TI + 'damping_coeff_')
        used = o.f(n1, 'node.is_used_')
        x0, f0 = v3(o, n1, 'node.pos_'), v3(o, n1, 'node.force_')
        x1, f1 = v3(n, n1, 'node.pos_'), v3(n, n1, 'node.force_')
        p0 = v3(o, n1, 'node.momentum_') if dyn == 0 else None
        p1 = v3(n, n1, 'node.momentum_') if dyn == 0 else None
        zero = V3(z3.RealVal(0), z3.RealVal(0), z3.RealVal(0))
        other = z3.Int('any_other_node')
        keys = ['node.pos_', 'node.force_'] + (['node.momentum_'] if dyn == 0 else [])

        def same(view_a, view_b, r, ks=keys):
            return z3.And(*[view_a.v3(r, k).eq(view_b.v3(r, k)) for k in ks])
        out = [('dead-slot-untouched', z3.Implies(z3.Not(used), same(n, o, n1)))]
        if contact == 0:
            ex, ep = law(cfg, x0, p0, f0, m, dt, damp)
            out += [('position-law', z3.Implies(used, x1.eq(ex))), ('force-reset', z3.Implies(used, f1.eq(zero))),
                    ('no-other-node-written', z3.Implies(other != n1.ref, same(n, o, other)))]
            if dyn == 0: out.append(('momentum-law', z3.Implies(used, p1.eq(ep))))
            return out
        # contact model 1
        lst = var(C, 'cell_lst').ref
        coupled = o.f(n1, 'node.coupled_node_.has')
        c2i = o.f(n1, 'node.coupled_node_.value.first'); n2i = o.f(n1, 'node.coupled_node_.value.second')
        c2 = o.at(lst, c2i, 'int')
        n2 = o.elem(o.sub(c2, 'cell.node_lst_'), n2i)
        free = z3.And(used, z3.Not(coupled))
        ex, ep = law(cfg, x0, p0, f0, m, dt, damp)
        out += [('uncoupled-position-law', z3.Implies(free, x1.eq(ex))), ('uncoupled-force-reset', z3.Implies(free, f1.eq(zero))),
                ('uncoupled-no-other-node-written', z3.Implies(z3.And(free, other != n1.ref), same(n, o, other)))]
        if dyn == 0: out.append(('uncoupled-momentum-law', z3.Implies(free, p1.eq(ep))))
        # coupled pair: integrated by the cell with the larger population index
        mine = z3.And(used, coupled, o.f(c1, 'cell.local_id_') > c2i)
        theirs = z3.And(used, coupled, z3.Not(o.f(c1, 'cell.local_id_') > c2i))
        x20, f20 = v3(o, n2, 'node.pos_'), v3(o, n2, 'node.force_')
        x21, f21 = v3(n, n2, 'node.pos_'), v3(n, n2, 'node.force_')
        mavg = (m + node_mass(o, c2)) * 0.5
        favg = (f0 + f20) * 0.5
        out += [('pair-left-to-the-partner-cell', z3.Implies(theirs, z3.And(same(n, o, n1), same(n, o, n2)))),
                ('pair-same-displacement', z3.Implies(mine, (x1 - x0).eq(x21 - x20))),
                ('pair-forces-reset', z3.Implies(mine, z3.And(f1.eq(zero), f21.eq(zero)))),
                ('pair-no-third-node-written', z3.Implies(z3.And(used, coupled, other != n1.ref, other != n2), same(n, o, other)))]
        if dyn == 0:
            p20 = v3(o, n2, 'node.momentum_'); p21 = v3(n, n2, 'node.momentum_')
            pavg = (p0 + p20) * 0.5
            ex, ep = law(cfg, x0, pavg, favg, mavg, dt, damp)
            out += [('pair-momentum-law-on-the-averaged-state', z3.Implies(mine, z3.And(p1.eq(ep), p21.eq(ep)))),
                    ('pair-total-momentum-follows-total-force', z3.Implies(mine, (p1 + p21).eq((p0 + p20) + ((f0 + f20) - (p0 + p20) * (damp / mavg)) * dt))),
                    ('pair-displacement-law', z3.Implies(mine, (x1 - x0).eq(ep * (dt / mavg))))]
        else:
            out += [('pair-displacement-law', z3.Implies(mine, (x1 - x0).eq(favg * (dt / damp))))]
        return out
    return post


def build(reg, cfg):
    dyn = cfg['SIMUCELL3D_VERIF_DYNAMIC_MODEL_INDEX']
    keep = [TI + 'dt_', TI + 'damping_coeff_', TI + 'simulation_time_']
    reg.add_loop(LoopContract(FN, 'for_each#0', lambda L: [], modifies=['cell.kinetic_energy_']))
    reg.add_loop(LoopContract(FN, 0, lambda L: [], modifies=['*'], keep_keys=keep))
    reg.add_loop(LoopContract(FN, 1, lambda L: [], modifies=['*'], keep_keys=keep))
    reg.add(Contract(FN, PROP, post=post_time, name=FN + '(time)'))
    reg.add(Contract(FN, PROP, pre=pre_outer, post=post_outer, slice_loop=0, prefix_loop=1, name=FN + '::<per-cell prologue>'))
    reg.add(Contract(FN, PROP, pre=pre_node(cfg), post=post_node(cfg), slice_loop=1, name=FN + '::<node loop body>', safety={'bounds'}))


# ---- bounded native check (population level, every contact model x dynamic model; a stand-in where no contract reaches, never counted as proved) ----------
POP_DRIVER = r'''
#include <cstdio>
#include <cstdlib>
#include <cmath>
#include <array>
#include <vector>
#include "epithelial_cell.hpp"
#include "time_integration.hpp"
// One call of the real time_integration_scheme::update_nodes_positions on a small population (three closed cells of different sizes,
// deterministic pseudo-random forces / momenta, a few mutual couplings in the form of the compiled contact model), compared node by
// node with the documented law. argv[1] = number of consecutive steps, argv[2] = damping coefficient (default 0.75).
static double rnd(unsigned k){ return std::sin(12.9898 * (k + 1)) * 43758.5453 - std::floor(std::sin(12.9898 * (k + 1)) * 43758.5453) - 0.5; }
static void octa(double s, double ox, double oy, double oz, std::vector<double>& pos, std::vector<unsigned>& faces){
  const double v[6][3] = {{1,0,0},{-1,0,0},{0,1,0},{0,-1,0},{0,0,1},{0,0,-1}};
  const unsigned f[8][3] = {{0,2,4},{2,1,4},{1,3,4},{3,0,4},{2,0,5},{1,2,5},{3,1,5},{0,3,5}};
  for(auto& p: v){ pos.push_back(s*p[0]+ox); pos.push_back(s*p[1]+oy); pos.push_back(s*p[2]+oz); }
  for(auto& t: f){ faces.push_back(t[0]); faces.push_back(t[1]); faces.push_back(t[2]); }
}
struct snap { vec3 x, p, f; };
int main(int argc, char** argv){
  const int steps = argc > 1 ? atoi(argv[1]) : 1;
  face_type_parameters ft; ft.name_ = "apical"; ft.face_type_global_id_ = 0;
  auto ct = std::make_shared<cell_type_parameters>(); ct->name_ = "epithelial"; ct->global_type_id_ = 0; ct->mass_density_ = 1.3; ct->add_face_type(ft);
  std::vector<cell_ptr> cells;
  const double sz[3] = {1.0, 1.7, 0.6};
  for(unsigned c = 0; c < 3; c++){
    std::vector<double> pos; std::vector<unsigned> faces; octa(sz[c], 4.0 * c - 3.0, 2.5, -1.0, pos, faces);
    auto cp = std::make_shared<epithelial_cell>(pos, faces, c + 4, ct);      // persistent ids 4,5,6 differ from the positions 0,1,2
    cp->initialize_cell_properties(true); cp->set_local_id(c); cells.push_back(cp);
  }
  global_simulation_parameters sp; sp.time_step_ = 0.015625; sp.damping_coefficient_ = argc > 2 ? atof(argv[2]) : 0.75;      // argv[2]: damping (a stiff value makes damping*dt exceed the node mass)
  time_integration_scheme ti(sp, false);
  const double dt = sp.time_step_, damp = sp.damping_coefficient_;
  // couplings (mutual): (cell 0 node 1) <-> (cell 1 node 0); (cell 2 node 3) <-> (cell 1 node 4); contact model 2 additionally a triple:
  // (cell 2 node 5) <-> (cell 0 node 2) and (cell 2 node 5) <-> (cell 1 node 2)
  struct cpl { unsigned ca, na, cb, nb; };
  std::vector<cpl> cps = {{0,1,1,0},{2,3,1,4},{2,0,0,5}};      // the last cell owns pairs with two different neighbours of different node mass
  #if CONTACT_MODEL_INDEX == 2
    cps.push_back({2,5,0,2}); cps.push_back({2,5,1,2});
  #endif
  int bad = 0; unsigned seed = 0;
  for(int s = 0; s < steps; s++){
    for(auto& c: cells) for(node& n: c->node_lst_){
      n.force_ = vec3(rnd(seed), rnd(seed+1), rnd(seed+2)); seed += 3;
      #if DYNAMIC_MODEL_INDEX == 0
        if(s == 0){ n.momentum_ = vec3(rnd(seed), rnd(seed+1), rnd(seed+2)) * 0.3; seed += 3; }
      #endif
    }
    #if CONTACT_MODEL_INDEX == 1
      for(auto& k: cps){ cells[k.ca]->node_lst_[k.na].coupled_node_ = std::make_pair(k.cb, k.nb); cells[k.cb]->node_lst_[k.nb].coupled_node_ = std::make_pair(k.ca, k.na); }
    #elif CONTACT_MODEL_INDEX == 2
      for(auto& k: cps){ cells[k.ca]->node_lst_[k.na].set_coupled_node_and_min_distance(k.cb, k.nb, 0.01); cells[k.cb]->node_lst_[k.nb].set_coupled_node_and_min_distance(k.ca, k.na, 0.01); }
    #endif
    std::vector<std::vector<snap>> old(3);
    for(unsigned c = 0; c < 3; c++) for(node& n: cells[c]->node_lst_){
      snap q; q.x = n.pos_; q.f = n.force_;
      #if DYNAMIC_MODEL_INDEX == 0
        q.p = n.momentum_;
      #endif
      old[c].push_back(q);
    }
    const double t0 = ti.get_simulation_time();
    ti.update_nodes_positions(cells);
    if(std::fabs(ti.get_simulation_time() - (t0 + dt)) > 1e-15){ printf("FAIL step %d: simulated time advanced by %.17g instead of %.17g\n", s, ti.get_simulation_time() - t0, dt); bad++; }
    // groups: every node is in exactly one group (itself + its coupled partners as listed above, in this contact model)
    std::vector<std::vector<std::pair<unsigned,unsigned>>> groups; std::vector<std::vector<bool>> seen(3);
    for(unsigned c = 0; c < 3; c++) seen[c].assign(cells[c]->node_lst_.size(), false);
    #if CONTACT_MODEL_INDEX != 0
      #if CONTACT_MODEL_INDEX == 2
        groups.push_back({{2,5},{0,2},{1,2}}); groups.push_back({{0,1},{1,0}}); groups.push_back({{2,3},{1,4}}); groups.push_back({{2,0},{0,5}});
      #else
        groups.push_back({{0,1},{1,0}}); groups.push_back({{2,3},{1,4}}); groups.push_back({{2,0},{0,5}});
      #endif
      for(auto& g: groups) for(auto& m: g) seen[m.first][m.second] = true;
    #endif
    for(unsigned c = 0; c < 3; c++) for(unsigned k = 0; k < seen[c].size(); k++) if(!seen[c][k]) groups.push_back({{c,k}});
    for(auto& g: groups){
      vec3 F(0,0,0), P(0,0,0); double M = 0; const double cnt = g.size();
      for(auto& m: g){ F = F + old[m.first][m.second].f; P = P + old[m.first][m.second].p; M += cells[m.first]->get_node_mass(); }
      const vec3 fa = F / cnt; const vec3 pa = P / cnt; const double ma = M / cnt;
      #if DYNAMIC_MODEL_INDEX == 0
        const vec3 dp = (fa - pa * (damp / ma)) * dt;            // momentum += (force - damping*momentum/mass)*dt   (group averages)
        const vec3 dx = (pa + dp) * (dt / ma);                    // then position += momentum*dt/mass
      #else
        const vec3 dx = fa * (dt / damp);
      #endif
      vec3 Pnew(0,0,0);
      for(auto& m: g){
        node& n = cells[m.first]->node_lst_[m.second];
        const vec3 moved = n.pos_ - old[m.first][m.second].x;
        const double scale = std::max(1e-300, std::max(dx.norm(), moved.norm()));
        if((moved - dx).norm() > 1e-9 * scale){ printf("FAIL step %d: node %u of the cell at position %u (group of %d) moved by (%.12g %.12g %.12g), the law gives (%.12g %.12g %.12g)\n", s, m.second, m.first, (int)g.size(), moved.dx(), moved.dy(), moved.dz(), dx.dx(), dx.dy(), dx.dz()); bad++; }
        if(n.force_.norm() != 0.0){ printf("FAIL step %d: force accumulator of node %u of cell %u not reset\n", s, m.second, m.first); bad++; }
        #if DYNAMIC_MODEL_INDEX == 0
          Pnew = Pnew + n.momentum_;
        #endif
      }
      #if DYNAMIC_MODEL_INDEX == 0
        const vec3 Pexp = P + dp * cnt;
        if((Pnew - Pexp).norm() > 1e-9 * std::max(1e-300, Pexp.norm())){ printf("FAIL step %d: total momentum of a group of %d is (%.12g %.12g %.12g), the law gives (%.12g %.12g %.12g)\n", s, (int)g.size(), Pnew.dx(), Pnew.dy(), Pnew.dz(), Pexp.dx(), Pexp.dy(), Pexp.dz()); bad++; }
      #endif
    }
  }
  if(bad){ printf("FAIL %d deviation(s) from the integration law (contact model %d, dynamic model %d)\n", bad, CONTACT_MODEL_INDEX, DYNAMIC_MODEL_INDEX); return 1; }
  printf("OK contact model %d, dynamic model %d, %d step(s)\n", CONTACT_MODEL_INDEX, DYNAMIC_MODEL_INDEX, steps); return 0;
}
'''
POP_CASES = [(c, d) for c in (1, 0, 2) for d in (0, 1)]


def extra_checks(run):
    import native, json, os
    out = []
    steps = '12' if run.tier == 'thorough' else '3'
    for c, d in POP_CASES:
        code, txt = native.run_driver(POP_DRIVER, [steps], defines={'SIMUCELL3D_VERIF_CONTACT_MODEL_INDEX': c, 'SIMUCELL3D_VERIF_DYNAMIC_MODEL_INDEX': d}, timeout=600)
        if code == 0:      # second scenario: stiff damping (damping*dt larger than every node mass)
            code, txt2 = native.run_driver(POP_DRIVER, [steps, '40'], defines={'SIMUCELL3D_VERIF_CONTACT_MODEL_INDEX': c, 'SIMUCELL3D_VERIF_DYNAMIC_MODEL_INDEX': d}, timeout=600)
            txt = txt + txt2
        name = 'C03/bounded/integration-law-on-a-small-population[contact model %d, dynamic model %d]' % (c, d)
        rec = {'name': name, 'bound': ('three octahedral cells of different sizes (persistent ids 4,5,6 at positions 0,1,2), pseudo-random forces and momenta, two mutual pairs '
                                       'one of them owned by a cell with two different neighbours (contact model 2: plus one group of three), %s consecutive calls of the real update_nodes_positions, '
                                       'once with damping 0.75 and once with the stiff damping 40; IEEE doubles, relative tolerance 1e-9') % steps,
               'result': 'every node follows the law' if code == 0 else ('deviation from the law' if code == 1 else 'driver failed (%d)' % code), 'output': txt[-600:]}
        if code == 1:
            rp = os.path.join(os.path.dirname(os.path.dirname(os.path.abspath(__file__))), 'replays', 'C03-bounded-population-%d-%d.json' % (c, d))
            os.makedirs(os.path.dirname(rp), exist_ok=True)
            json.dump({'property': 'C03', 'obligation': name, 'native': {'args': [steps], 'defines': {'CONTACT_MODEL_INDEX': c, 'DYNAMIC_MODEL_INDEX': d}, 'output': txt, 'driver': 'specs/C03.py:POP_DRIVER'}, 'confirmed': True}, open(rp, 'w'), indent=1)
            rec.update({'violation': True, 'replay': rp, 'confirmed': True})
        out.append(rec)
    return out



_POP_CACHE = {}


def replay(ob, ins, run):
    """a refuted obligation is replayed natively by the population scenario in the obligation's own compile-time configuration: the real
    update_nodes_positions on three cells with couplings, compared node by node with the law"""
    import native, re
    cfg = ob.info.get('config') or ''
    m1 = re.search(r'CONTACT_MODEL_INDEX=(\d)', cfg); m2 = re.search(r'DYNAMIC_MODEL_INDEX=(\d)', cfg)
    c = int(m1.group(1)) if m1 else 1; d = int(m2.group(1)) if m2 else 0
    if (c, d) not in _POP_CACHE:
        dfn = {'SIMUCELL3D_VERIF_CONTACT_MODEL_INDEX': c, 'SIMUCELL3D_VERIF_DYNAMIC_MODEL_INDEX': d}
        r_ = native.run_driver(POP_DRIVER, ['6'], defines=dfn, timeout=600)
        if r_[0] == 0: r_ = native.run_driver(POP_DRIVER, ['6', '40'], defines=dfn, timeout=600)      # stiff damping
        _POP_CACHE[(c, d)] = r_
    code, out = _POP_CACHE[(c, d)]
    return {'confirmed': code == 1, 'exit': code, 'args': ['6'], 'defines': {'CONTACT_MODEL_INDEX': c, 'DYNAMIC_MODEL_INDEX': d}, 'output': out[-2500:],
            'driver': 'specs/C03.py:POP_DRIVER (three octahedral cells, two mutual pairs, six steps)'}


def replay_recorded(data):
    """re-run the recorded native scenario (bounded population check) on the current tree"""
    import native
    nat = data.get('native') or {}
    if 'defines' not in nat: return {'confirmed': False, 'output': 'no native scenario recorded for this obligation; re-run ./check C03'}
    dfn = {'SIMUCELL3D_VERIF_' + k: v for k, v in nat['defines'].items()}
    code, out = native.run_driver(POP_DRIVER, nat.get('args') or ['3'], defines=dfn, timeout=600)
    return {'confirmed': code == 1, 'output': out}


EXPLANATION = ("update_nodes_positions is decided per compile-time configuration (contact model 0/1 x dynamic model 0/1; clang is run once per "
               "configuration through the guarded override hook). Three contracts each: (1) the whole function with both loops under a "
               "contract that lets them write anything except dt_, damping_coeff_, simulation_time_ (frame obligation on the loop bodies): "
               "time advances by exactly dt; (2) an arbitrary iteration of the per-cell loop up to the node loop: the iteration is abandoned "
               "only for a static cell and then nothing was written; otherwise c1_node_mass = density*volume/#live nodes; (3) an arbitrary "
               "iteration of the node loop for an arbitrary cell and node: dead slots untouched; live uncoupled node follows the documented law "
               "(semi-implicit Euler or overdamped), force accumulator reset, no other node written; coupled pair (model 1): handled by the cell "
               "with the larger population index only, both nodes get the same displacement, the law applied to the averaged state with the "
               "averaged per-node mass, total momentum follows total force, forces reset, no third node written.")
ASSUMPTIONS = ["exact reals", "sequential semantics of the '#pragma omp parallel for' (C15 is not applicable)",
               "couplings are mutual and designate live nodes of listed cells with cell.local_id_ equal to the list index (the property's own hypothesis; C08 covers where this is established)",
               "'each node exactly once per call' follows from for-loop semantics over the cell and node lists plus the pair rule (larger index integrates): stated, not machine-checked",
               "contact model 2 (face-face coupling, std::map of couplings) is not under a deductive contract; it is exercised by the bounded native population check only (listed under bounded_checks, not counted as proved)"]
UNVERIFIED = ["update_nodes_positions for CONTACT_MODEL_INDEX == 2", "kinetic_energy_ bookkeeping (not part of the property)"]
