"""Contracts on the mesh editing primitives of cell (shared by C01, C10, C11): add_node, delete_node, get_edge, delete_face,
add_face / create_face, and on the refiner's operations built from them.
Data view used in the contracts: node_lst_ / face_lst_ are vectors of objects, free_node_queue_ / free_face_queue_ vectors of ids,
edge_set_ the std::set<edge> keyed by the sorted node pair (models.py: membership array + stored edge per key)."""
import z3
from spec import Contract, LoopContract, V3
from values import QForall, ObjLV, Ptr, Rec

I = z3.IntSort(); R = z3.RealSort(); B = z3.BoolSort()

NODE_VEC = ['node.pos_', 'node.force_', 'node.momentum_', 'node.normal_']


def nodes(view, c): return view.sub(c, 'cell.node_lst_')
def faces(view, c): return view.sub(c, 'cell.face_lst_')
def fnq(view, c): return view.sub(c, 'cell.free_node_queue_')
def ffq(view, c): return view.sub(c, 'cell.free_face_queue_')
def eset(view, c): return view.sub(c, 'cell.edge_set_')


def node_at(view, c, k): return view.elem(nodes(view, c), k)
def face_at(view, c, k): return view.elem(faces(view, c), k)


def same_node(new, old, r, fields=('pos_', 'momentum_')):
    out = [new.f(r, 'node.is_used_') == old.f(r, 'node.is_used_'), new.f(r, 'node.node_id_') == old.f(r, 'node.node_id_')]
    for f in fields:
        out.append(new.v3(r, 'node.' + f).eq(old.v3(r, 'node.' + f)))
    return z3.And(*out)


# ---- free-slot queues: what the primitives rely on ---------------------------------------------------------------------------------------
def free_wf(view, q, lst, used_key, what):
    """[(name, clause)]: the ids waiting in a free-slot queue are slots of the list, pairwise different, and those slots are unused"""
    at = lambda a: view.at(q, a, 'int')
    ln = view.len(q)
    return [('free-%s-ids-are-slots' % what, QForall(lambda a: z3.Implies(z3.And(a >= 0, a < ln), z3.And(at(a) >= 0, at(a) < view.len(lst))), 1, 'free %s ids are slots' % what)),
            ('free-%s-ids-are-unused-slots' % what, QForall(lambda a: z3.Implies(z3.And(a >= 0, a < ln), z3.Not(view.f(view.elem(lst, at(a)), used_key))), 1, 'free %s slots are unused' % what)),
            ('free-%s-ids-differ' % what, QForall(lambda a, b: z3.Implies(z3.And(a >= 0, a < b, b < ln), at(a) != at(b)), 2, 'free %s ids differ' % what))]


def free_nodes_wf(view, c): return free_wf(view, fnq(view, c), nodes(view, c), 'node.is_used_', 'node')
def free_faces_wf(view, c): return free_wf(view, ffq(view, c), faces(view, c), 'face.is_used_', 'face')


# ---- cell::add_node ------------------------------------------------------------------------------------------------------------------------
def add_node_pre(C):
    o = C.old
    return free_nodes_wf(o, C.this) + [('list-sizes', z3.And(o.len(nodes(o, C.this)) >= 0, o.len(nodes(o, C.this)) < 2 ** 31))]


def add_node_post(C, prop_fields=('pos_', 'momentum_')):
    o, n = C.old, C.new
    c = C.this
    src = C.arg('n').ref
    nl = nodes(o, c)
    ln = o.len(nl); ln2 = n.len(nl)
    q = fnq(o, c)
    reuse = o.len(q) > 0
    rid = C.ret
    slot = n.elem(nl, rid)
    out = [('returns-a-slot-of-the-list', z3.And(rid >= 0, rid < ln2)),
           ('reuses-the-last-free-slot-or-appends', z3.If(reuse, z3.And(rid == o.at(q, o.len(q) - 1, 'int'), ln2 == ln, n.len(q) == o.len(q) - 1), z3.And(rid == ln, ln2 == ln + 1, n.len(q) == o.len(q)))),
           ('new-node-is-a-used-copy-with-its-slot-as-id', z3.And(n.f(slot, 'node.is_used_'), n.f(slot, 'node.node_id_') == rid,
                                                                  *[n.v3(slot, 'node.' + f).eq(o.v3(src, 'node.' + f)) for f in prop_fields])),
           ('every-other-node-is-untouched', QForall(lambda k: z3.Implies(z3.And(k >= 0, k < ln, k != rid), same_node(n, o, o.elem(nl, k), prop_fields)), 1, 'other nodes')),
           ('storage-moves-only-when-appending', z3.Implies(reuse, n.f(nl, 'vec.epoch') == o.f(nl, 'vec.epoch'))),
           ('other-vectors-untouched', QForall(lambda r: z3.Implies(z3.And(r != nl, r != q), z3.And(n.f(r, 'vec.len') == o.f(r, 'vec.len'), n.f(r, 'vec.epoch') == o.f(r, 'vec.epoch'),
                                                                                                  z3.Select(n.arr('vec.data.int'), r) == z3.Select(o.arr('vec.data.int'), r))), 1, 'other vectors')),
           ] + [(nm + '-afterwards', g) for (nm, g) in free_nodes_wf(n, c)]
    return out


def add_node_contract(prop, assumed=False, **kw):
    return Contract('cell::add_node', prop, pre=add_node_pre, post=add_node_post, safety={'bounds'} if not assumed else (), assumed=assumed,
                    frame=(lambda C: [(k, None) for k in ADD_NODE_ASSIGNS]) if assumed else None,
                    assigns=None if assumed else ADD_NODE_ASSIGNS, name='cell::add_node' + (' (own contract)' if assumed else ''), **kw)


ADD_NODE_ASSIGNS = ['vec.len', 'vec.epoch', 'vec.data.int', 'node.*']


# ---- the edge set -----------------------------------------------------------------------------------------------------------------------------
def mn(a, b): return z3.If(a < b, a, b)
def mx(a, b): return z3.If(a < b, b, a)


def ekey(e, a, b):
    return e.uf('ekey', I, I, I)(mn(a, b), mx(a, b))


def member(view, sref, key):
    return z3.Select(z3.Select(view.arr('sset.member'), sref), key)


def stored(view, sref, key, leaf):
    """leaf of the edge stored under `key`: 'n1_id_', 'n2_id_', 'f1_id_.has', 'f1_id_.value', 'f2_id_.has', 'f2_id_.value'"""
    srt = B if leaf.endswith('.has') else I
    a = view.e.harr(view.st, 'vec.data.edge.' + leaf, z3.ArraySort(I, z3.ArraySort(I, srt)))
    return z3.Select(z3.Select(a, sref), key)


EDGE_LEAVES = ['n1_id_', 'n2_id_', 'f1_id_.has', 'f1_id_.value', 'f2_id_.has', 'f2_id_.value']


def same_edge(new, old, sref, key):
    return z3.And(member(new, sref, key) == member(old, sref, key), *[stored(new, sref, key, l) == stored(old, sref, key, l) for l in EDGE_LEAVES])


def has_face(view, sref, key, fid):
    return z3.Or(z3.And(stored(view, sref, key, 'f1_id_.has'), stored(view, sref, key, 'f1_id_.value') == fid),
                 z3.And(stored(view, sref, key, 'f2_id_.has'), stored(view, sref, key, 'f2_id_.value') == fid))


def edges_wf(view, c):
    """every stored edge carries the node pair of its key"""
    s = eset(view, c)
    g1 = view.e.uf('ekey_1', I, I); g2 = view.e.uf('ekey_2', I, I)
    return QForall(lambda k: z3.Implies(member(view, s, k), z3.And(stored(view, s, k, 'n1_id_') == g1(k), stored(view, s, k, 'n2_id_') == g2(k))), 1, 'stored edges match their keys')


# ---- cell::get_edge ---------------------------------------------------------------------------------------------------------------------------
def get_edge_post(C):
    o = C.old
    s = eset(o, C.this)
    k = ekey(C.e, C.val('n1_id'), C.val('n2_id'))
    r = C.ret
    v = r.f['value']
    return [('found-iff-the-node-pair-is-an-edge', r.f['has'] == member(o, s, k)),
            ('returns-the-stored-edge', z3.Implies(r.f['has'], z3.And(v.f['n1_id_'] == stored(o, s, k, 'n1_id_'), v.f['n2_id_'] == stored(o, s, k, 'n2_id_'),
                                                                   v.f['f1_id_'].f['has'] == stored(o, s, k, 'f1_id_.has'), v.f['f1_id_'].f['value'] == stored(o, s, k, 'f1_id_.value'),
                                                                   v.f['f2_id_'].f['has'] == stored(o, s, k, 'f2_id_.has'), v.f['f2_id_'].f['value'] == stored(o, s, k, 'f2_id_.value'))))]


def get_edge_contract(prop, assumed=False):
    return Contract('cell::get_edge', prop, post=get_edge_post, assigns=[], assumed=assumed, safety=() if assumed else {'bounds'},
                    name='cell::get_edge' + (' (own contract)' if assumed else ''))


# ---- cell::delete_face(unsigned) ------------------------------------------------------------------------------------------------------------------
def face_keys(view, e, f):
    n = [view.f(f, 'face.n%d_id_' % j) for j in (1, 2, 3)]
    return [ekey(e, n[0], n[1]), ekey(e, n[1], n[2]), ekey(e, n[2], n[0])], n


def delete_face_pre(C):
    o = C.old; c = C.this
    fid = C.val('face_id')
    fl = faces(o, c); f = o.elem(fl, fid); s = eset(o, c)
    keys, n = face_keys(o, C.e, f)
    out = [('face-is-a-used-slot', z3.And(fid >= 0, fid < o.len(fl), o.f(f, 'face.is_used_'), o.f(f, 'face.local_face_id_') == fid)),
           ('face-nodes-differ', z3.And(n[0] != n[1], n[1] != n[2], n[0] != n[2]))] + free_faces_wf(o, c)
    for j, k in enumerate(keys):
        # the three edges of the face exist and either list the face or have two faces (the accessors f1()/f2() are called in this order)
        out.append(('edge-%d-of-the-face-exists-and-can-be-asked-for-its-faces' % (j + 1),
                    z3.And(member(o, s, k), stored(o, s, k, 'f1_id_.has'), z3.Or(stored(o, s, k, 'f1_id_.value') == fid, stored(o, s, k, 'f2_id_.has')))))
    return out


def delete_face_post(C):
    if C.outcome != 'ret': return [('does-not-throw-under-its-precondition', z3.BoolVal(False))]
    o, n = C.old, C.new; c = C.this
    fid = C.val('face_id')
    fl = faces(o, c); f = o.elem(fl, fid); s = eset(o, c)
    keys, _ = face_keys(o, C.e, f)
    q = ffq(o, c)
    out = [('face-slot-is-freed', z3.And(z3.Not(n.f(f, 'face.is_used_')), n.len(q) == o.len(q) + 1, n.at(q, o.len(q), 'int') == fid, n.len(fl) == o.len(fl)))]
    for j, k in enumerate(keys):
        lists = has_face(o, s, k, fid)
        manifold = z3.And(stored(o, s, k, 'f1_id_.has'), stored(o, s, k, 'f2_id_.has'))
        other = z3.If(stored(o, s, k, 'f1_id_.value') == fid, stored(o, s, k, 'f2_id_.value'), stored(o, s, k, 'f1_id_.value'))
        out.append(('edge-%d-loses-the-face-or-disappears-with-it' % (j + 1),
                    z3.If(lists, z3.If(manifold, z3.And(member(n, s, k), stored(n, s, k, 'f1_id_.has'), stored(n, s, k, 'f1_id_.value') == other, z3.Not(stored(n, s, k, 'f2_id_.has'))),
                                       z3.Not(member(n, s, k))),
                          same_edge(n, o, s, k))))
    out.append(('other-vectors-untouched', QForall(lambda r: z3.Implies(r != q, z3.And(n.f(r, 'vec.len') == o.f(r, 'vec.len'), n.f(r, 'vec.epoch') == o.f(r, 'vec.epoch'),
                                                                                         z3.Implies(r != s, z3.Select(n.arr('vec.data.int'), r) == z3.Select(o.arr('vec.data.int'), r)))), 1, 'other vectors')))
    out.append(('other-edges-untouched', QForall(lambda k: z3.Implies(z3.And(k != keys[0], k != keys[1], k != keys[2]), same_edge(n, o, s, k)), 1, 'other edges')))
    out.append(('other-faces-untouched', QForall(lambda j: z3.Implies(z3.And(j >= 0, j < o.len(fl), j != fid),
                                                                      z3.And(n.f(o.elem(fl, j), 'face.is_used_') == o.f(o.elem(fl, j), 'face.is_used_'),
                                                                             *[n.f(o.elem(fl, j), 'face.n%d_id_' % i) == o.f(o.elem(fl, j), 'face.n%d_id_' % i) for i in (1, 2, 3)])), 1, 'other faces')))
    out += [(nm + '-afterwards', g) for (nm, g) in free_faces_wf(n, c)]
    out.append(('stored-edges-still-match-their-keys', edges_wf_after(C, o, n, c)))
    return out


def edges_wf_after(C, o, n, c):
    """edges_wf is preserved: stated for the post state under the assumption that it held before"""
    s = eset(o, c)
    g1 = C.e.uf('ekey_1', I, I); g2 = C.e.uf('ekey_2', I, I)
    return QForall(lambda k: z3.Implies(z3.And(member(n, s, k), z3.Implies(member(o, s, k), z3.And(stored(o, s, k, 'n1_id_') == g1(k), stored(o, s, k, 'n2_id_') == g2(k)))),
                                        z3.And(stored(n, s, k, 'n1_id_') == g1(k), stored(n, s, k, 'n2_id_') == g2(k))), 1, 'stored edges match their keys afterwards')


DELETE_FACE_ASSIGNS = ['vec.len', 'vec.epoch', 'vec.data.int', 'face.is_used_', 'sset.member', 'set.size'] + ['vec.data.edge.' + l for l in EDGE_LEAVES]


def delete_face_contract(prop, assumed=False):
    return Contract('cell::delete_face', prop, signature='(const unsigned int)', pre=delete_face_pre, post=delete_face_post, assigns=DELETE_FACE_ASSIGNS, assumed=assumed,
                    safety=() if assumed else {'bounds', 'optional'}, name='cell::delete_face(id)' + (' (own contract)' if assumed else ''))


# ---- cell::add_face ------------------------------------------------------------------------------------------------------------------------------
def face_cache_contract(prop):
    """cell::update_face_normal_and_area(face&) as add_face sees it (C12 proves what it stores): writes the cache of that face only"""
    return Contract('cell::update_face_normal_and_area', prop, signature='(face &)', assumed=True,
                    frame=lambda C: [(k, [C.arg('f').ref]) for k in ('face.area_', 'face.normal_.dx_', 'face.normal_.dy_', 'face.normal_.dz_')],
                    name='cell::update_face_normal_and_area(face&) (C12: refreshes the cached normal and area of that face)')


def shared_from_this_contract(prop):
    def rm(C, st): return Ptr(C.this, 'cell')
    return Contract('std::enable_shared_from_this<cell>::shared_from_this', prop, assumed=True, frame=lambda C: [], ret_model=rm, name='shared_from_this')


def add_face_pre(C):
    o = C.old; c = C.this
    f = C.arg('f').ref
    n = [o.f(f, 'face.n%d_id_' % j) for j in (1, 2, 3)]
    nl = nodes(o, c)
    return [('node-ids-are-slots-and-differ', z3.And(*[z3.And(x >= 0, x < o.len(nl)) for x in n], n[0] != n[1], n[1] != n[2], n[0] != n[2])),
            ('face-list-size', z3.And(o.len(faces(o, c)) >= 0, o.len(faces(o, c)) < 2 ** 31)),
            ('the-face-to-add-is-not-a-slot-of-this-cell', C.e.root_of(f) != C.e.root_of(c.ref)),
            ('stored-edges-match-their-keys', edges_wf(o, c))] + free_faces_wf(o, c)


def add_face_post(C):
    o, n = C.old, C.new; c = C.this
    src = C.arg('f').ref
    fl = faces(o, c); s = eset(o, c); q = ffq(o, c)
    keys, nid = face_keys(o, C.e, src)
    full = [z3.And(member(o, s, k), stored(o, s, k, 'f1_id_.has'), stored(o, s, k, 'f2_id_.has')) for k in keys]
    if C.outcome != 'ret':
        return [('throws-only-the-integrity-exception-and-only-when-an-edge-already-has-two-faces', z3.And(z3.BoolVal(C.outcome == 'throw:mesh_integrity_exception'), z3.Or(*full)))]
    rid = C.ret
    reuse = o.len(q) > 0
    slot = n.elem(fl, rid)
    out = [('returns-a-slot-of-the-list', z3.And(rid >= 0, rid < n.len(fl))),
           ('reuses-the-last-free-slot-or-appends', z3.If(reuse, z3.And(rid == o.at(q, o.len(q) - 1, 'int'), n.len(fl) == o.len(fl), n.len(q) == o.len(q) - 1),
                                                          z3.And(rid == o.len(fl), n.len(fl) == o.len(fl) + 1, n.len(q) == o.len(q)))),
           ('new-face-is-a-used-copy-with-its-slot-as-id', z3.And(n.f(slot, 'face.is_used_'), n.f(slot, 'face.local_face_id_') == rid, n.f(slot, 'face.type_id_') == o.f(src, 'face.type_id_'),
                                                                  *[n.f(slot, 'face.n%d_id_' % j) == nid[j - 1] for j in (1, 2, 3)])),
           ('storage-moves-only-when-appending', z3.Implies(reuse, n.f(fl, 'vec.epoch') == o.f(fl, 'vec.epoch')))]
    for j, k in enumerate(keys):
        was = member(o, s, k)
        out.append(('edge-%d-exists-afterwards-and-lists-the-new-face' % (j + 1), z3.And(member(n, s, k), has_face(n, s, k, rid))))
        out.append(('edge-%d-that-had-one-face-keeps-it-and-gets-the-new-one-second' % (j + 1),
                    z3.Implies(z3.And(was, stored(o, s, k, 'f1_id_.has')), z3.And(stored(n, s, k, 'f1_id_.has'), stored(n, s, k, 'f1_id_.value') == stored(o, s, k, 'f1_id_.value'), stored(n, s, k, 'f2_id_.has'), stored(n, s, k, 'f2_id_.value') == rid))))
        out.append(('edge-%d-without-a-face-gets-the-new-one-first' % (j + 1),
                    z3.Implies(z3.Or(z3.Not(was), z3.Not(stored(o, s, k, 'f1_id_.has'))), z3.And(stored(n, s, k, 'f1_id_.has'), stored(n, s, k, 'f1_id_.value') == rid))))
        out.append(('new-edge-%d-has-no-second-face' % (j + 1), z3.Implies(z3.Not(was), z3.Not(stored(n, s, k, 'f2_id_.has')))))
        out.append(('edge-%d-carries-the-node-pair-of-its-key' % (j + 1), z3.And(stored(n, s, k, 'n1_id_') == C.e.uf('ekey_1', I, I)(k), stored(n, s, k, 'n2_id_') == C.e.uf('ekey_2', I, I)(k))))
    out.append(('other-vectors-untouched', QForall(lambda r: z3.Implies(z3.And(r != fl, r != q), z3.And(n.f(r, 'vec.len') == o.f(r, 'vec.len'), n.f(r, 'vec.epoch') == o.f(r, 'vec.epoch'),
                                                                                                    z3.Implies(r != s, z3.Select(n.arr('vec.data.int'), r) == z3.Select(o.arr('vec.data.int'), r)))), 1, 'other vectors')))
    out.append(('other-edges-untouched', QForall(lambda k: z3.Implies(z3.And(k != keys[0], k != keys[1], k != keys[2]), same_edge(n, o, s, k)), 1, 'other edges')))
    out.append(('other-faces-untouched', QForall(lambda j: z3.Implies(z3.And(j >= 0, j < o.len(fl), j != rid),
                                                                      z3.And(n.f(o.elem(fl, j), 'face.is_used_') == o.f(o.elem(fl, j), 'face.is_used_'), n.f(o.elem(fl, j), 'face.type_id_') == o.f(o.elem(fl, j), 'face.type_id_'),
                                                                             *[n.f(o.elem(fl, j), 'face.n%d_id_' % i) == o.f(o.elem(fl, j), 'face.n%d_id_' % i) for i in (1, 2, 3)])), 1, 'other faces')))
    out += [(nm + '-afterwards', g) for (nm, g) in free_faces_wf(n, c)]
    out.append(('stored-edges-still-match-their-keys', edges_wf_after(C, o, n, c)))
    return out


ADD_FACE_ASSIGNS = ['vec.len', 'vec.epoch', 'vec.data.int', 'face.*', 'sset.member', 'set.size', 'mesh_integrity_exception.*'] + ['vec.data.edge.' + l for l in EDGE_LEAVES]


def add_face_contract(prop, assumed=False):
    return Contract('cell::add_face', prop, pre=add_face_pre, post=add_face_post, assigns=ADD_FACE_ASSIGNS, assumed=assumed,
                    use=[] if assumed else [face_cache_contract(prop)], throws=['mesh_integrity_exception'] if assumed else (),
                    safety=() if assumed else {'bounds', 'optional'}, name='cell::add_face' + (' (own contract)' if assumed else ''))


# ---- local_mesh_refiner::split_edge ------------------------------------------------------------------------------------------------------------------
def face_has_nodes(view, f, a, b):
    n = [view.f(f, 'face.n%d_id_' % j) for j in (1, 2, 3)]
    return z3.And(z3.Or(*[x == a for x in n]), z3.Or(*[x == b for x in n]), n[0] != n[1], n[1] != n[2], n[0] != n[2])


def third_node(view, f, a, b):
    n = [view.f(f, 'face.n%d_id_' % j) for j in (1, 2, 3)]
    return z3.If(z3.And(n[0] != a, n[0] != b), n[0], z3.If(z3.And(n[1] != a, n[1] != b), n[1], n[2]))


def split_cfg(C, view=None):
    """the local configuration around the edge handed to split_edge / swap_edge (names as in the drawings of the source)"""
    o = view or C.old
    c = C.arg('c').ref
    e = C.val('e_ab')
    a, b = e.f['n1_id_'], e.f['n2_id_']
    f1, f2 = e.f['f1_id_'].f['value'], e.f['f2_id_'].f['value']
    fl = faces(o, c); nl = nodes(o, c)
    F1, F2 = o.elem(fl, f1), o.elem(fl, f2)
    cc, dd = third_node(o, F1, a, b), third_node(o, F2, a, b)
    return dict(c=c, e=e, a=a, b=b, f1=f1, f2=f2, fl=fl, nl=nl, F1=F1, F2=F2, cc=cc, dd=dd, s=eset(o, c))


def edge_can_lose(view, s, k, fid):
    return z3.And(member(view, s, k), stored(view, s, k, 'f1_id_.has'), z3.Or(stored(view, s, k, 'f1_id_.value') == fid, stored(view, s, k, 'f2_id_.has')))


def split_pre(C):
    o = C.old
    g = split_cfg(C)
    e = g['e']; a, b, f1, f2, cc, dd, s, nl, fl = g['a'], g['b'], g['f1'], g['f2'], g['cc'], g['dd'], g['s'], g['nl'], g['fl']
    ek = lambda x, y: ekey(C.e, x, y)
    used_node = lambda k: z3.And(k >= 0, k < o.len(nl), o.f(o.elem(nl, k), 'node.is_used_'), o.f(o.elem(nl, k), 'node.node_id_') == k)
    used_face = lambda k, F: z3.And(k >= 0, k < o.len(fl), o.f(F, 'face.is_used_'), o.f(F, 'face.local_face_id_') == k)
    q = fnq(o, g['c'])
    last_free = o.at(q, o.len(q) - 1, 'int')
    pre = [('cell-non-null', z3.And(g['c'] > 0, C.e.root_of(g['c']) > 0)),
           ('the-edge-is-a-stored-manifold-edge', z3.And(a < b, e.f['f1_id_'].f['has'], e.f['f2_id_'].f['has'], f1 != f2, member(o, s, ek(a, b)),
                                                         stored(o, s, ek(a, b), 'f1_id_.has'), stored(o, s, ek(a, b), 'f2_id_.has'),
                                                         stored(o, s, ek(a, b), 'f1_id_.value') == f1, stored(o, s, ek(a, b), 'f2_id_.value') == f2)),
           ('its-nodes-and-faces-are-used-slots', z3.And(used_node(a), used_node(b), used_face(f1, g['F1']), used_face(f2, g['F2']))),
           ('both-faces-contain-the-edge', z3.And(face_has_nodes(o, g['F1'], a, b), face_has_nodes(o, g['F2'], a, b))),
           ('opposite-nodes-are-used-slots-and-differ', z3.And(used_node(cc), used_node(dd), cc != dd)),
           ('list-sizes', z3.And(o.len(nl) < 2 ** 30, o.len(fl) < 2 ** 30)),
           ] + free_nodes_wf(o, g['c']) + free_faces_wf(o, g['c']) + [
           ('free-node-slot-is-not-one-of-the-four', z3.Implies(o.len(q) > 0, z3.And(last_free != a, last_free != b, last_free != cc, last_free != dd))),
           ('stored-edges-match-their-keys', edges_wf(o, g['c'])),
           ('the-other-four-edges-exist-and-list-their-face', z3.And(edge_can_lose(o, s, ek(a, cc), f1), edge_can_lose(o, s, ek(cc, b), f1), edge_can_lose(o, s, ek(a, dd), f2), edge_can_lose(o, s, ek(dd, b), f2),
                                                                    has_face(o, s, ek(a, cc), f1), has_face(o, s, ek(cc, b), f1), has_face(o, s, ek(a, dd), f2), has_face(o, s, ek(dd, b), f2))),
           ('the-set-of-edges-to-check-is-another-object', z3.And(C.arg('edge_to_check_set').ref != s, C.e.root_of(C.arg('edge_to_check_set').ref) != C.e.root_of(g['c'])))]
    return pre


def split_post(C, dynamic_model=0):
    o, n = C.old, C.new
    g = split_cfg(C)
    a, b, f1, f2, cc, dd, s, nl, fl = g['a'], g['b'], g['f1'], g['f2'], g['cc'], g['dd'], g['s'], g['nl'], g['fl']
    if C.outcome != 'ret':
        return [('failure-is-reported-by-the-integrity-exception', z3.BoolVal(C.outcome == 'throw:mesh_integrity_exception'))]
    gh = C.post_state.ghost
    eid = gh.get('new_node_id')
    if eid is None: return [('a-node-was-added', z3.BoolVal(False))]
    A, Bn, E = o.elem(nl, a), o.elem(nl, b), n.elem(nl, eid)
    mom = lambda v, r: v.v3(r, 'node.momentum_')
    out = [('cover:appended-node', eid == o.len(nl)), ('cover:reused-slot', eid < o.len(nl)),
           ('new-node-sits-at-the-midpoint-of-the-edge', n.v3(E, 'node.pos_').eq((o.v3(A, 'node.pos_') + o.v3(Bn, 'node.pos_')) * 0.5)),
           ('momentum-of-the-three-nodes-is-the-momentum-of-the-two', (mom(n, A) + mom(n, Bn) + mom(n, E)).eq(mom(o, A) + mom(o, Bn))),
           ('no-surviving-node-moves', QForall(lambda k: z3.Implies(z3.And(k >= 0, k < o.len(nl), k != eid), n.v3(o.elem(nl, k), 'node.pos_').eq(o.v3(o.elem(nl, k), 'node.pos_'))), 1, 'positions')),
           ('momentum-of-the-other-nodes-is-untouched', QForall(lambda k: z3.Implies(z3.And(k >= 0, k < o.len(nl), k != eid, k != a, k != b), mom(n, o.elem(nl, k)).eq(mom(o, o.elem(nl, k)))), 1, 'momenta'))]
    ids = [gh.get('new_face_%d' % k) for k in range(4)] if gh.get('nf_count', 0) == 4 else None
    if ids is not None and all(x is not None for x in ids):
        t1, t2 = o.f(g['F1'], 'face.type_id_'), o.f(g['F2'], 'face.type_id_')
        # creation order in the source: f3, f5 (from face 1), f4, f6 (from face 2)
        out.append(('the-two-halves-of-each-face-inherit-its-type-label', z3.And(n.f(n.elem(fl, ids[0]), 'face.type_id_') == t1, n.f(n.elem(fl, ids[1]), 'face.type_id_') == t1,
                                                                                  n.f(n.elem(fl, ids[2]), 'face.type_id_') == t2, n.f(n.elem(fl, ids[3]), 'face.type_id_') == t2)))
        for j, (fid, third) in enumerate(zip(ids, (cc, cc, dd, dd))):
            F = n.elem(fl, fid)
            out.append(('new-face-%d-is-used-and-joins-the-new-node-to-the-old-ones' % (j + 3), z3.And(n.f(F, 'face.is_used_'), face_has_nodes(n, F, eid, third))))
    else:
        out.append(('four-faces-were-created', z3.BoolVal(False)))
    ek = lambda x, y: ekey(C.e, x, y)
    out.append(('the-split-edge-is-gone-and-the-four-new-edges-have-two-faces', z3.And(z3.Not(member(n, s, ek(a, b))),
                *[z3.And(member(n, s, ek(eid, x)), stored(n, s, ek(eid, x), 'f1_id_.has'), stored(n, s, ek(eid, x), 'f2_id_.has')) for x in (a, b, cc, dd)])))
    return out


def note_new_node(C, st):
    r = C.e.fresh('new_node_id', I)
    st.ghost['new_node_id'] = r
    return r


def note_new_face(C, st):
    r = C.e.fresh('new_face_id', I)
    k = st.ghost.get('nf_count', 0)
    st.ghost['nf_count'] = k + 1
    st.ghost['new_face_%d' % k] = r
    # the winding handed to add_face (what split_edge / swap_edge ask for)
    f = C.arg('f').ref
    for j in (1, 2, 3): st.ghost['new_face_%d_n%d' % (k, j)] = C.old.f(f, 'face.n%d_id_' % j)
    return r


def split_callees(prop):
    an = add_node_contract(prop, assumed=True); an.ret_model = note_new_node
    af = add_face_contract(prop, assumed=True); af.ret_model = note_new_face
    return [an, af, delete_face_contract(prop, assumed=True), get_edge_contract(prop, assumed=True)]


def add_face_view(prop):
    """cell::add_face as the physics / memory contract of split_edge sees it: what it writes and that it returns a slot; its
    precondition is discharged at the same call sites by the topology contract (thorough tier)"""
    def post(C):
        o, n = C.old, C.new
        fl = faces(o, C.this)
        q = ffq(o, C.this)
        return [('returns-a-slot-of-the-list', z3.And(C.ret >= 0, C.ret < n.len(fl))), ('face-list-does-not-shrink', n.len(fl) >= o.len(fl)),
                ('other-vectors-untouched', QForall(lambda r: z3.Implies(z3.And(r != fl, r != q), z3.And(n.f(r, 'vec.len') == o.f(r, 'vec.len'), n.f(r, 'vec.epoch') == o.f(r, 'vec.epoch'))), 1, 'other vectors'))]
    return Contract('cell::add_face', prop, assumed=True, throws=['mesh_integrity_exception'], post=post, ret_model=note_new_face,
                    frame=lambda C: [(k, None) for k in ADD_FACE_ASSIGNS], name='cell::add_face (view: frame and result range; requires discharged by the topology contract)')


def split_light_callees(prop):
    an = add_node_contract(prop, assumed=True); an.ret_model = note_new_node
    return [an, add_face_view(prop), delete_face_view(prop), get_edge_contract(prop, assumed=True)]


def split_light_pre(C):
    keep = ('cell-non-null', 'the-edge-is-a-stored-manifold-edge', 'its-nodes-and-faces-are-used-slots', 'both-faces-contain-the-edge', 'opposite-nodes-are-used-slots-and-differ',
            'list-sizes', 'free-node-ids-are-slots', 'free-node-ids-are-unused-slots', 'free-node-ids-differ', 'the-set-of-edges-to-check-is-another-object')
    return [(nm, g) for (nm, g) in split_pre(C) if nm in keep]


def split_winding_post(C):
    """the four triangles split_edge asks for are wound like the triangle they replace: their area vector (with the new node at the
    midpoint) points to the side of the cached normal of the replaced face"""
    if C.outcome != 'ret': return []
    o = C.old
    g = split_cfg(C)
    gh = C.post_state.ghost
    if gh.get('nf_count', 0) != 4: return [('four-faces-are-requested', z3.BoolVal(False))]
    nl = g['nl']
    P = lambda k: o.v3(o.elem(nl, k), 'node.pos_')
    E = (P(g['a']) + P(g['b'])) * 0.5
    eid = gh['new_node_id']
    pos = lambda k: V3(*[z3.If(k == eid, E.comps()[i], P(k).comps()[i]) for i in range(3)])
    out = []
    a, b = g['a'], g['b']
    # creation order in the source: f3 = (third, a, e) | (third, e, a); f5 = (third, e, b) | (third, b, e); then f4, f6 for the second face
    want = {0: ((a, eid), (eid, a)), 1: ((eid, b), (b, eid)), 2: ((a, eid), (eid, a)), 3: ((eid, b), (b, eid))}
    for k, (F, third) in enumerate(((g['F1'], g['cc']), (g['F1'], g['cc']), (g['F2'], g['dd']), (g['F2'], g['dd']))):
        n1, n2, n3 = [gh['new_face_%d_n%d' % (k, j)] for j in (1, 2, 3)]
        nrm = o.v3(F, 'face.normal_')
        same_side = (P(a) - P(third)).cross(P(b) - P(third)).dot(nrm) >= 0
        (x1, y1), (x2, y2) = want[k]
        out.append(('requested-face-%d-is-wound-like-the-face-it-replaces' % (k + 3),
                    z3.And(n1 == third, z3.If(same_side, z3.And(n2 == x1, n3 == y1), z3.And(n2 == x2, n3 == y2)))))
    return out


def split_lemmas(reg, prop):
    # (third, a, e) with e the midpoint of ab has half the area vector of (third, a, b); likewise (third, e, b): so the requested
    # windings of split_post have their area vector on the side of the cached normal of the replaced face
    A, Bv, Cv, N = V3.fresh('wa'), V3.fresh('wb'), V3.fresh('wc'), V3.fresh('wn')
    E = (A + Bv) * 0.5
    cr = (A - Cv).cross(Bv - Cv)
    ins = A.comps() + Bv.comps() + Cv.comps() + N.comps()
    reg.lemma('half-triangles-keep-the-area-vector-direction', prop, [], z3.And(((A - Cv).cross(E - Cv) * 2).eq(cr), ((E - Cv).cross(Bv - Cv) * 2).eq(cr)),
              note='with cr.n >= 0 the triangles (c,a,e),(c,e,b) have area vectors with non-negative component along the cached normal n; with cr.n < 0 the reversed triangles (c,e,a),(c,b,e) do', inputs=ins)


def split_light_post(C):
    return [it for it in split_post(C) if it[0].startswith(('cover:', 'new-node-sits', 'momentum-', 'no-surviving', 'failure-is', 'a-node-was'))] + split_winding_post(C)


def split_edge_contract(prop, full=False):
    if full:
        c = Contract('local_mesh_refiner::split_edge', prop, pre=split_pre, post=split_post, use=split_callees(prop),
                     safety={'bounds', 'optional', 'dangling-ref', 'null-deref'}, name='local_mesh_refiner::split_edge(topology)')
        c.tier = 'thorough'
        return c
    return Contract('local_mesh_refiner::split_edge', prop, pre=split_light_pre, post=split_light_post, use=split_light_callees(prop),
                    safety={'bounds', 'dangling-ref', 'null-deref'}, name='local_mesh_refiner::split_edge(physics and references)')


# ---- local_mesh_refiner::merge_edge (physical part) ----------------------------------------------------------------------------------------------
def two_edge_lists(C, st):
    import ty
    a = ObjLV(C.e.new_object(), ty.parse('std::vector<edge>')); b = ObjLV(C.e.new_object(), ty.parse('std::vector<edge>'))
    for v in (a, b):
        ln = C.e.fresh('edge_list_len', I); st.pc.append(ln >= 0); C.e.hwrite(st, 'vec.len', v.ref, ln)
    return Rec('pair', {'first': a, 'second': b})


def replace_node_view(prop):
    """cell::replace_node as merge_edge sees it: the topology it rewires is not under contract; of the node data it resets the
    replaced node (delete_node) and touches no other node, and it does not resize the node list"""
    def post(C):
        o, n = C.old, C.new
        nl = nodes(o, C.this)
        old = C.val('old_node_id')
        return [('node-list-keeps-its-size', z3.And(n.len(nl) == o.len(nl), n.f(nl, 'vec.epoch') == o.f(nl, 'vec.epoch'))),
                ('replaced-node-is-deleted', z3.Not(n.f(n.elem(nl, old), 'node.is_used_'))),
                ('other-nodes-untouched', QForall(lambda k: z3.Implies(z3.And(k >= 0, k < o.len(nl), k != old), same_node(n, o, o.elem(nl, k))), 1, 'other nodes'))]
    return Contract('cell::replace_node', prop, assumed=True, frame=lambda C: [('*', [])], post=post, ret_model=two_edge_lists,
                    name='cell::replace_node (view: resets the replaced node only; topology not under contract)')


def delete_face_view(prop):
    def post(C):
        o, n = C.old, C.new
        q = ffq(o, C.this)
        return [('other-vectors-untouched', QForall(lambda r: z3.Implies(r != q, z3.And(n.f(r, 'vec.len') == o.f(r, 'vec.len'), n.f(r, 'vec.epoch') == o.f(r, 'vec.epoch'))), 1, 'other vectors'))]
    return Contract('cell::delete_face', prop, assumed=True, signature='(const unsigned int)', throws=['mesh_integrity_exception'], post=post,
                    frame=lambda C: [(k, None) for k in DELETE_FACE_ASSIGNS], name='cell::delete_face(id) (view: writes what its own contract lists - no node data)')


def merge_callees(prop):
    an = add_node_contract(prop, assumed=True); an.ret_model = note_new_node
    return [an, replace_node_view(prop), get_edge_contract(prop, assumed=True), delete_face_view(prop)]


def merge_pre(C):
    o = C.old
    c = C.arg('c').ref; e = C.val('e_ab')
    nl = nodes(o, c)
    a, b = e.f['n1_id_'], e.f['n2_id_']
    q = fnq(o, c)
    return [('cell-non-null', z3.And(c > 0, C.e.root_of(c) > 0)),
            ('edge-nodes-are-used-slots', z3.And(a >= 0, a < o.len(nl), b >= 0, b < o.len(nl), a != b, e.f['f1_id_'].f['has'], e.f['f2_id_'].f['has'])),
            ('list-size', z3.And(o.len(nl) >= 0, o.len(nl) < 2 ** 31)),
            ('free-node-slot-is-not-an-end-of-the-edge', z3.Implies(o.len(q) > 0, z3.And(o.at(q, o.len(q) - 1, 'int') != a, o.at(q, o.len(q) - 1, 'int') != b))),
            ('the-set-of-edges-to-check-is-another-object', C.e.root_of(C.arg('edge_to_check_set').ref) != C.e.root_of(c))] + free_nodes_wf(o, c)


def merge_post(C):
    o, n = C.old, C.new
    if C.outcome != 'ret':
        return [('failure-is-reported-by-an-exception-of-the-library', z3.BoolVal(C.outcome.startswith('throw:')))]
    c = C.arg('c').ref; e = C.val('e_ab')
    nl = nodes(o, c)
    a, b = e.f['n1_id_'], e.f['n2_id_']
    iid = C.post_state.ghost.get('new_node_id')
    if iid is None: return [('a-node-was-added', z3.BoolVal(False))]
    A, Bn, In = o.elem(nl, a), o.elem(nl, b), n.elem(nl, iid)
    mom = lambda v, r: v.v3(r, 'node.momentum_')
    return [('merged-node-sits-at-the-midpoint', n.v3(In, 'node.pos_').eq((o.v3(A, 'node.pos_') + o.v3(Bn, 'node.pos_')) * 0.5)),
            ('merged-node-carries-the-momentum-of-both-ends', mom(n, In).eq(mom(o, A) + mom(o, Bn))),
            ('both-ends-are-deleted', z3.And(z3.Not(n.f(A, 'node.is_used_')), z3.Not(n.f(Bn, 'node.is_used_')))),
            ('no-other-node-moves-or-changes-momentum', QForall(lambda k: z3.Implies(z3.And(k >= 0, k < o.len(nl), k != iid, k != a, k != b),
                                                                                   z3.And(n.v3(o.elem(nl, k), 'node.pos_').eq(o.v3(o.elem(nl, k), 'node.pos_')), mom(n, o.elem(nl, k)).eq(mom(o, o.elem(nl, k))))), 1, 'others'))]


def merge_edge_contract(prop):
    return Contract('local_mesh_refiner::merge_edge', prop, pre=merge_pre, post=merge_post, use=merge_callees(prop), safety={'bounds', 'dangling-ref', 'null-deref'},
                    name='local_mesh_refiner::merge_edge(physics)')
