"""Contracts on the mesh editing primitives of cell (shared by C01, C10, C11): add_node, delete_node, get_edge, delete_face,
add_face / create_face, and on the refiner's operations built from them.
Data view used in the contracts: node_lst_ / face_lst_ are vectors of objects, free_node_queue_ / free_face_queue_ vectors of ids,
edge_set_ the std::set<edge> keyed by the sorted node pair (models.py: membership array + stored edge per key)."""
import z3
from spec import Contract, LoopContract, V3
from values import QForall, ObjLV, Ptr, Rec

I = z3.IntSort(); R = z3.RealSort(); B = z3.BoolSort()

NODE_VEC = ['node.pos_', 'node.force_', 'node.momentum_', 'node.normal_']


def nodes(view, c): return view.sub(c, 'cell.node_lst_')
def faces(view, c): return view.sub(c, 'cell.face_lst_')
def fnq(view, c): return view.sub(c, 'cell.free_node_queue_')
def ffq(view, c): return view.sub(c, 'cell.free_face_queue_')
def eset(view, c): return view.sub(c, 'cell.edge_set_')


def node_at(view, c, k): return view.elem(nodes(view, c), k)
def face_at(view, c, k): return view.elem(faces(view, c), k)


def same_node(new, old, r, fields=('pos_', 'momentum_')):
    out = [new.f(r, 'node.is_used_') == old.f(r, 'node.is_used_'), new.f(r, 'node.node_id_') == old.f(r, 'node.node_id_')]
    for f in fields:
        out.append(new.v3(r, 'node.' + f).eq(old.v3(r, 'node.' + f)))
    return z3.And(*out)


# ---- free-slot queues: what the primitives rely on ---------------------------------------------------------------------------------------
def free_wf(view, q, lst, used_key, what):
    """[(name, clause)]: the ids waiting in a free-slot queue are slots of the list, pairwise different, and those slots are unused"""
    at = lambda a: view.at(q, a, 'int')
    ln = view.len(q)
    return [('free-%s-ids-are-slots' % what, QForall(lambda a: z3.Implies(z3.And(a >= 0, a < ln), z3.And(at(a) >= 0, at(a) < view.len(lst))), 1, 'free %s ids are slots' % what)),
            ('free-%s-ids-are-unused-slots' % what, QForall(lambda a: z3.Implies(z3.And(a >= 0, a < ln), z3.Not(view.f(view.elem(lst, at(a)), used_key))), 1, 'free %s slots are unused' % what)),
            ('free-%s-ids-differ' % what, QForall(lambda a, b: z3.Implies(z3.And(a >= 0, a < b, b < ln), at(a) != at(b)), 2, 'free %s ids differ' % what))]


def free_nodes_wf(view, c): return free_wf(view, fnq(view, c), nodes(view, c), 'node.is_used_', 'node')
def free_faces_wf(view, c): return free_wf(view, ffq(view, c), faces(view, c), 'face.is_used_', 'face')


# ---- cell::add_node ------------------------------------------------------------------------------------------------------------------------
def add_node_pre(C):
    o = C.old
    return free_nodes_wf(o, C.this) + [('list-sizes', z3.And(o.len(nodes(o, C.this)) >= 0, o.len(nodes(o, C.this)) < 2 ** 31))]


def add_node_post(C, prop_fields=('pos_', 'momentum_')):
    o, n = C.old, C.new
    c = C.this
    src = C.arg('n').ref
    nl = nodes(o, c)
    ln = o.len(nl); ln2 = n.len(nl)
    q = fnq(o, c)
    reuse = o.len(q) > 0
    rid = C.ret
    slot = n.elem(nl, rid)
    out = [('returns-a-slot-of-the-list', z3.And(rid >= 0, rid < ln2)),
           ('reuses-the-last-free-slot-or-appends', z3.If(reuse, z3.And(rid == o.at(q, o.len(q) - 1, 'int'), ln2 == ln, n.len(q) == o.len(q) - 1), z3.And(rid == ln, ln2 == ln + 1, n.len(q) == o.len(q)))),
           ('new-node-is-a-used-copy-with-its-slot-as-id', z3.And(n.f(slot, 'node.is_used_'), n.f(slot, 'node.node_id_') == rid,
                                                                  *[n.v3(slot, 'node.' + f).eq(o.v3(src, 'node.' + f)) for f in prop_fields])),
           ('every-other-node-is-untouched', QForall(lambda k: z3.Implies(z3.And(k >= 0, k < ln, k != rid), same_node(n, o, o.elem(nl, k), prop_fields)), 1, 'other nodes')),
           ('storage-moves-only-when-appending', z3.Implies(reuse, n.f(nl, 'vec.epoch') == o.f(nl, 'vec.epoch'))),
           ('other-vectors-untouched', QForall(lambda r: z3.Implies(z3.And(r != nl, r != q), z3.And(n.f(r, 'vec.len') == o.f(r, 'vec.len'), n.f(r, 'vec.epoch') == o.f(r, 'vec.epoch'),
                                                                                                  z3.Select(n.arr('vec.data.int'), r) == z3.Select(o.arr('vec.data.int'), r))), 1, 'other vectors')),
           ] + [(nm + '-afterwards', g) for (nm, g) in free_nodes_wf(n, c)]
    return out


def add_node_contract(prop, assumed=False, **kw):
    return Contract('cell::add_node', prop, pre=add_node_pre, post=add_node_post, safety={'bounds'} if not assumed else (), assumed=assumed,
                    frame=(lambda C: [(k, None) for k in ADD_NODE_ASSIGNS]) if assumed else None,
                    assigns=None if assumed else ADD_NODE_ASSIGNS, name='cell::add_node' + (' (own contract)' if assumed else ''), **kw)


ADD_NODE_ASSIGNS = ['vec.len', 'vec.epoch', 'vec.data.int', 'node.*']


# ---- the edge set -----------------------------------------------------------------------------------------------------------------------------
def mn(a, b): return z3.If(a < b, a, b)
def mx(a, b): return z3.If(a < b, b, a)


def ekey(e, a, b):
    return e.uf('ekey', I, I, I)(mn(a, b), mx(a, b))


def member(view, sref, key):
    return z3.Select(z3.Select(view.arr('sset.member'), sref), key)


def stored(view, sref, key, leaf):
    """leaf of the edge stored under `key`: 'n1_id_', 'n2_id_', 'f1_id_.has', 'f1_id_.value', 'f2_id_.has', 'f2_id_.value'"""
    srt = B if leaf.endswith('.has') else I
    a = view.e.harr(view.st, 'vec.data.edge.' + leaf, z3.ArraySort(I, z3.ArraySort(I, srt)))
    return z3.Select(z3.Select(a, sref), key)


EDGE_LEAVES = ['n1_id_', 'n2_id_', 'f1_id_.has', 'f1_id_.value', 'f2_id_.has', 'f2_id_.value']


def same_edge(new, old, sref, key):
    return z3.And(member(new, sref, key) == member(old, sref, key), *[stored(new, sref, key, l) == stored(old, sref, key, l) for l in EDGE_LEAVES])


def has_face(view, sref, key, fid):
    return z3.Or(z3.And(stored(view, sref, key, 'f1_id_.has'), stored(view, sref, key, 'f1_id_.value') == fid),
                 z3.And(stored(view, sref, key, 'f2_id_.has'), stored(view, sref, key, 'f2_id_.value') == fid))


def edges_wf(view, c):
    """every stored edge carries the node pair of its key"""
    s = eset(view, c)
    g1 = view.e.uf('ekey_1', I, I); g2 = view.e.uf('ekey_2', I, I)
    return QForall(lambda k: z3.Implies(member(view, s, k), z3.And(stored(view, s, k, 'n1_id_') == g1(k), stored(view, s, k, 'n2_id_') == g2(k))), 1, 'stored edges match their keys')


# ---- cell::get_edge ---------------------------------------------------------------------------------------------------------------------------
def get_edge_post(C):
    o = C.old
    s = eset(o, C.this)
    k = ekey(C.e, C.val('n1_id'), C.val('n2_id'))
    r = C.ret
    v = r.f['value']
    return [('found-iff-the-node-pair-is-an-edge', r.f['has'] == member(o, s, k)),
            ('returns-the-stored-edge', z3.Implies(r.f['has'], z3.And(v.f['n1_id_'] == stored(o, s, k, 'n1_id_'), v.f['n2_id_'] == stored(o, s, k, 'n2_id_'),
                                                                   v.f['f1_id_'].f['has'] == stored(o, s, k, 'f1_id_.has'), v.f['f1_id_'].f['value'] == stored(o, s, k, 'f1_id_.value'),
                                                                   v.f['f2_id_'].f['has'] == stored(o, s, k, 'f2_id_.has'), v.f['f2_id_'].f['value'] == stored(o, s, k, 'f2_id_.value'))))]


def get_edge_contract(prop, assumed=False):
    return Contract('cell::get_edge', prop, post=get_edge_post, assigns=[], assumed=assumed, safety=() if assumed else {'bounds'},
                    name='cell::get_edge' + (' (own contract)' if assumed else ''))


# ---- cell::delete_face(unsigned) ------------------------------------------------------------------------------------------------------------------
def face_keys(view, e, f):
    n = [view.f(f, 'face.n%d_id_' % j) for j in (1, 2, 3)]
    return [ekey(e, n[0], n[1]), ekey(e, n[1], n[2]), ekey(e, n[2], n[0])], n


def delete_face_pre(C):
    o = C.old; c = C.this
    fid = C.val('face_id')
    fl = faces(o, c); f = o.elem(fl, fid); s = eset(o, c)
    keys, n = face_keys(o, C.e, f)
    out = [('face-is-a-used-slot', z3.And(fid >= 0, fid < o.len(fl), o.f(f, 'face.is_used_'), o.f(f, 'face.local_face_id_') == fid)),
           ('face-nodes-differ', z3.And(n[0] != n[1], n[1] != n[2], n[0] != n[2]))] + free_faces_wf(o, c)
    for j, k in enumerate(keys):
        # the three edges of the face exist and either list the face or have two faces (the accessors f1()/f2() are called in this order)
        out.append(('edge-%d-of-the-face-exists-and-can-be-asked-for-its-faces' % (j + 1),
                    z3.And(member(o, s, k), stored(o, s, k, 'f1_id_.has'), z3.Or(stored(o, s, k, 'f1_id_.value') == fid, stored(o, s, k, 'f2_id_.has')))))
    return out


def delete_face_post(C):
    if C.outcome != 'ret': return [('does-not-throw-under-its-precondition', z3.BoolVal(False))]
    o, n = C.old, C.new; c = C.this
    fid = C.val('face_id')
    fl = faces(o, c); f = o.elem(fl, fid); s = eset(o, c)
    keys, _ = face_keys(o, C.e, f)
    q = ffq(o, c)
    out = [('face-slot-is-freed', z3.And(z3.Not(n.f(f, 'face.is_used_')), n.len(q) == o.len(q) + 1, n.at(q, o.len(q), 'int') == fid, n.len(fl) == o.len(fl)))]
    for j, k in enumerate(keys):
        lists = has_face(o, s, k, fid)
        manifold = z3.And(stored(o, s, k, 'f1_id_.has'), stored(o, s, k, 'f2_id_.has'))
        other = z3.If(stored(o, s, k, 'f1_id_.value') == fid, stored(o, s, k, 'f2_id_.value'), stored(o, s, k, 'f1_id_.value'))
        out.append(('edge-%d-loses-the-face-or-disappears-with-it' % (j + 1),
                    z3.If(lists, z3.If(manifold, z3.And(member(n, s, k), stored(n, s, k, 'f1_id_.has'), stored(n, s, k, 'f1_id_.value') == other, z3.Not(stored(n, s, k, 'f2_id_.has'))),
                                       z3.Not(member(n, s, k))),
                          same_edge(n, o, s, k))))
    out.append(('other-vectors-untouched', QForall(lambda r: z3.Implies(r != q, z3.And(n.f(r, 'vec.len') == o.f(r, 'vec.len'), n.f(r, 'vec.epoch') == o.f(r, 'vec.epoch'),
                                                                                         z3.Implies(r != s, z3.Select(n.arr('vec.data.int'), r) == z3.Select(o.arr('vec.data.int'), r)))), 1, 'other vectors')))
    out.append(('other-edges-untouched', QForall(lambda k: z3.Implies(z3.And(k != keys[0], k != keys[1], k != keys[2]), same_edge(n, o, s, k)), 1, 'other edges')))
    out.append(('other-faces-untouched', QForall(lambda j: z3.Implies(z3.And(j >= 0, j < o.len(fl), j != fid),
                                                                      z3.And(n.f(o.elem(fl, j), 'face.is_used_') == o.f(o.elem(fl, j), 'face.is_used_'),
                                                                             *[n.f(o.elem(fl, j), 'face.n%d_id_' % i) == o.f(o.elem(fl, j), 'face.n%d_id_' % i) for i in (1, 2, 3)])), 1, 'other faces')))
    out += [(nm + '-afterwards', g) for (nm, g) in free_faces_wf(n, c)]
    out.append(('stored-edges-still-match-their-keys', edges_wf_after(C, o, n, c)))
    return out


def edges_wf_after(C, o, n, c):
    """edges_wf is preserved: stated for the post state under the assumption that it held before"""
    s = eset(o, c)
    g1 = C.e.uf('ekey_1', I, I); g2 = C.e.uf('ekey_2', I, I)
    return QForall(lambda k: z3.Implies(z3.And(member(n, s, k), z3.Implies(member(o, s, k), z3.And(stored(o, s, k, 'n1_id_') == g1(k), stored(o, s, k, 'n2_id_') == g2(k)))),
                                        z3.And(stored(n, s, k, 'n1_id_') == g1(k), stored(n, s, k, 'n2_id_') == g2(k))), 1, 'stored edges match their keys afterwards')


DELETE_FACE_ASSIGNS = ['vec.len', 'vec.epoch', 'vec.data.int', 'face.is_used_', 'sset.member', 'set.size'] + ['vec.data.edge.' + l for l in EDGE_LEAVES]


def delete_face_contract(prop, assumed=False):
    return Contract('cell::delete_face', prop, signature='(const unsigned int)', pre=delete_face_pre, post=delete_face_post, assigns=DELETE_FACE_ASSIGNS, assumed=assumed,
                    safety=() if assumed else {'bounds', 'optional'}, name='cell::delete_face(id)' + (' (own contract)' if assumed else ''))


# ---- cell::add_face ------------------------------------------------------------------------------------------------------------------------------
def face_cache_contract(prop):
    """cell::update_face_normal_and_area(face&) as add_face sees it (C12 proves what it stores): writes the cache of that face only"""
    return Contract('cell::update_face_normal_and_area', prop, signature='(face &)', assumed=True,
                    frame=lambda C: [(k, [C.arg('f').ref]) for k in ('face.area_', 'face.normal_.dx_', 'face.normal_.dy_', 'face.normal_.dz_')],
                    name='cell::update_face_normal_and_area(face&) (C12: refreshes the cached normal and area of that face)')


def shared_from_this_contract(prop):
    def rm(C, st): return Ptr(C.this, 'cell')
    return Contract('std::enable_shared_from_this<cell>::shared_from_this', prop, assumed=True, frame=lambda C: [], ret_model=rm, name='shared_from_this')


def add_face_pre(C):
    o = C.old; c = C.this
    f = C.arg('f').ref
    n = [o.f(f, 'face.n%d_id_' % j) for j in (1, 2, 3)]
    nl = nodes(o, c)
    return [('node-ids-are-slots-and-differ', z3.And(*[z3.And(x >= 0, x < o.len(nl)) for x in n], n[0] != n[1], n[1] != n[2], n[0] != n[2])),
            ('face-list-size', z3.And(o.len(faces(o, c)) >= 0, o.len(faces(o, c)) < 2 ** 31)),
            ('the-face-to-add-is-not-a-slot-of-this-cell', C.e.root_of(f) != C.e.root_of(c.ref)),
            ('stored-edges-match-their-keys', edges_wf(o, c))] + free_faces_wf(o, c)


def add_face_post(C):
    o, n = C.old, C.new; c = C.this
    src = C.arg('f').ref
    fl = faces(o, c); s = eset(o, c); q = ffq(o, c)
    keys, nid = face_keys(o, C.e, src)
    full = [z3.And(member(o, s, k), stored(o, s, k, 'f1_id_.has'), stored(o, s, k, 'f2_id_.has')) for k in keys]
    if C.outcome != 'ret':
        return [('throws-only-the-integrity-exception-and-only-when-an-edge-already-has-two-faces', z3.And(z3.BoolVal(C.outcome == 'throw:mesh_integrity_exception'), z3.Or(*full)))]
    rid = C.ret
    reuse = o.len(q) > 0
    slot = n.elem(fl, rid)
    out = [('returns-a-slot-of-the-list', z3.And(rid >= 0, rid < n.len(fl))),
           ('returns-a-slot-that-was-not-in-use', z3.Or(rid >= o.len(fl), z3.Not(o.f(o.elem(fl, rid), 'face.is_used_')))),
           ('reuses-the-last-free-slot-or-appends', z3.If(reuse, z3.And(rid == o.at(q, o.len(q) - 1, 'int'), n.len(fl) == o.len(fl), n.len(q) == o.len(q) - 1),
                                                          z3.And(rid == o.len(fl), n.len(fl) == o.len(fl) + 1, n.len(q) == o.len(q)))),
           ('new-face-is-a-used-copy-with-its-slot-as-id', z3.And(n.f(slot, 'face.is_used_'), n.f(slot, 'face.local_face_id_') == rid, n.f(slot, 'face.type_id_') == o.f(src, 'face.type_id_'),
                                                                  *[n.f(slot, 'face.n%d_id_' % j) == nid[j - 1] for j in (1, 2, 3)])),
           ('storage-moves-only-when-appending', z3.Implies(reuse, n.f(fl, 'vec.epoch') == o.f(fl, 'vec.epoch')))]
    for j, k in enumerate(keys):
        was = member(o, s, k)
        out.append(('edge-%d-exists-afterwards-and-lists-the-new-face' % (j + 1), z3.And(member(n, s, k), has_face(n, s, k, rid))))
        out.append(('edge-%d-that-had-one-face-keeps-it-and-gets-the-new-one-second' % (j + 1),
                    z3.Implies(z3.And(was, stored(o, s, k, 'f1_id_.has')), z3.And(stored(n, s, k, 'f1_id_.has'), stored(n, s, k, 'f1_id_.value') == stored(o, s, k, 'f1_id_.value'), stored(n, s, k, 'f2_id_.has'), stored(n, s, k, 'f2_id_.value') == rid))))
        out.append(('edge-%d-without-a-face-gets-the-new-one-first' % (j + 1),
                    z3.Implies(z3.Or(z3.Not(was), z3.Not(stored(o, s, k, 'f1_id_.has'))), z3.And(stored(n, s, k, 'f1_id_.has'), stored(n, s, k, 'f1_id_.value') == rid))))
        out.append(('new-edge-%d-has-no-second-face' % (j + 1), z3.Implies(z3.Not(was), z3.Not(stored(n, s, k, 'f2_id_.has')))))
        out.append(('edge-%d-carries-the-node-pair-of-its-key' % (j + 1), z3.And(stored(n, s, k, 'n1_id_') == C.e.uf('ekey_1', I, I)(k), stored(n, s, k, 'n2_id_') == C.e.uf('ekey_2', I, I)(k))))
    out.append(('other-vectors-untouched', QForall(lambda r: z3.Implies(z3.And(r != fl, r != q), z3.And(n.f(r, 'vec.len') == o.f(r, 'vec.len'), n.f(r, 'vec.epoch') == o.f(r, 'vec.epoch'),
                                                                                                    z3.Implies(r != s, z3.Select(n.arr('vec.data.int'), r) == z3.Select(o.arr('vec.data.int'), r)))), 1, 'other vectors')))
    out.append(('other-edges-untouched', QForall(lambda k: z3.Implies(z3.And(k != keys[0], k != keys[1], k != keys[2]), same_edge(n, o, s, k)), 1, 'other edges')))
    out.append(('other-faces-untouched', QForall(lambda j: z3.Implies(z3.And(j >= 0, j < o.len(fl), j != rid),
                                                                      z3.And(n.f(o.elem(fl, j), 'face.is_used_') == o.f(o.elem(fl, j), 'face.is_used_'), n.f(o.elem(fl, j), 'face.type_id_') == o.f(o.elem(fl, j), 'face.type_id_'),
                                                                             *[n.f(o.elem(fl, j), 'face.n%d_id_' % i) == o.f(o.elem(fl, j), 'face.n%d_id_' % i) for i in (1, 2, 3)])), 1, 'other faces')))
    out += [(nm + '-afterwards', g) for (nm, g) in free_faces_wf(n, c)]
    out.append(('stored-edges-still-match-their-keys', edges_wf_after(C, o, n, c)))
    return out


ADD_FACE_ASSIGNS = ['vec.len', 'vec.epoch', 'vec.data.int', 'face.*', 'sset.member', 'set.size', 'mesh_integrity_exception.*'] + ['vec.data.edge.' + l for l in EDGE_LEAVES]


def add_face_contract(prop, assumed=False):
    return Contract('cell::add_face', prop, pre=add_face_pre, post=add_face_post, assigns=ADD_FACE_ASSIGNS, assumed=assumed,
                    use=[] if assumed else [face_cache_contract(prop)], throws=['mesh_integrity_exception'] if assumed else (),
                    safety=() if assumed else {'bounds', 'optional'}, name='cell::add_face' + (' (own contract)' if assumed else ''))


# ---- local_mesh_refiner::split_edge ------------------------------------------------------------------------------------------------------------------
def face_has_nodes(view, f, a, b):
    n = [view.f(f, 'face.n%d_id_' % j) for j in (1, 2, 3)]
    return z3.And(z3.Or(*[x == a for x in n]), z3.Or(*[x == b for x in n]), n[0] != n[1], n[1] != n[2], n[0] != n[2])


def third_node(view, f, a, b):
    n = [view.f(f, 'face.n%d_id_' % j) for j in (1, 2, 3)]
    return z3.If(z3.And(n[0] != a, n[0] != b), n[0], z3.If(z3.And(n[1] != a, n[1] != b), n[1], n[2]))


def split_cfg(C, view=None):
    """the local configuration around the edge handed to split_edge / swap_edge (names as in the drawings of the source)"""
    o = view or C.old
    c = C.arg('c').ref
    e = C.val('e_ab')
    a, b = e.f['n1_id_'], e.f['n2_id_']
    f1, f2 = e.f['f1_id_'].f['value'], e.f['f2_id_'].f['value']
    fl = faces(o, c); nl = nodes(o, c)
    F1, F2 = o.elem(fl, f1), o.elem(fl, f2)
    cc, dd = third_node(o, F1, a, b), third_node(o, F2, a, b)
    return dict(c=c, e=e, a=a, b=b, f1=f1, f2=f2, fl=fl, nl=nl, F1=F1, F2=F2, cc=cc, dd=dd, s=eset(o, c))


def edge_can_lose(view, s, k, fid):
    return z3.And(member(view, s, k), stored(view, s, k, 'f1_id_.has'), z3.Or(stored(view, s, k, 'f1_id_.value') == fid, stored(view, s, k, 'f2_id_.has')))


def split_pre(C):
    o = C.old
    g = split_cfg(C)
    e = g['e']; a, b, f1, f2, cc, dd, s, nl, fl = g['a'], g['b'], g['f1'], g['f2'], g['cc'], g['dd'], g['s'], g['nl'], g['fl']
    ek = lambda x, y: ekey(C.e, x, y)
    used_node = lambda k: z3.And(k >= 0, k < o.len(nl), o.f(o.elem(nl, k), 'node.is_used_'), o.f(o.elem(nl, k), 'node.node_id_') == k)
    used_face = lambda k, F: z3.And(k >= 0, k < o.len(fl), o.f(F, 'face.is_used_'), o.f(F, 'face.local_face_id_') == k)
    q = fnq(o, g['c'])
    last_free = o.at(q, o.len(q) - 1, 'int')
    pre = [('cell-non-null', z3.And(g['c'] > 0, C.e.root_of(g['c']) > 0)),
           ('the-edge-is-a-stored-manifold-edge', z3.And(a < b, e.f['f1_id_'].f['has'], e.f['f2_id_'].f['has'], f1 != f2, member(o, s, ek(a, b)),
                                                         stored(o, s, ek(a, b), 'f1_id_.has'), stored(o, s, ek(a, b), 'f2_id_.has'),
                                                         stored(o, s, ek(a, b), 'f1_id_.value') == f1, stored(o, s, ek(a, b), 'f2_id_.value') == f2)),
           ('its-nodes-and-faces-are-used-slots', z3.And(used_node(a), used_node(b), used_face(f1, g['F1']), used_face(f2, g['F2']))),
           ('both-faces-contain-the-edge', z3.And(face_has_nodes(o, g['F1'], a, b), face_has_nodes(o, g['F2'], a, b))),
           ('opposite-nodes-are-used-slots-and-differ', z3.And(used_node(cc), used_node(dd), cc != dd)),
           ('list-sizes', z3.And(o.len(nl) < 2 ** 30, o.len(fl) < 2 ** 30)),
           ] + free_nodes_wf(o, g['c']) + free_faces_wf(o, g['c']) + [
           ('free-node-slot-is-not-one-of-the-four', z3.Implies(o.len(q) > 0, z3.And(last_free != a, last_free != b, last_free != cc, last_free != dd))),
           ('stored-edges-match-their-keys', edges_wf(o, g['c'])),
           ('the-other-four-edges-exist-and-list-their-face', z3.And(edge_can_lose(o, s, ek(a, cc), f1), edge_can_lose(o, s, ek(cc, b), f1), edge_can_lose(o, s, ek(a, dd), f2), edge_can_lose(o, s, ek(dd, b), f2),
                                                                    has_face(o, s, ek(a, cc), f1), has_face(o, s, ek(cc, b), f1), has_face(o, s, ek(a, dd), f2), has_face(o, s, ek(dd, b), f2))),
           ('the-set-of-edges-to-check-is-another-object', z3.And(C.arg('edge_to_check_set').ref != s, C.e.root_of(C.arg('edge_to_check_set').ref) != C.e.root_of(g['c'])))]
    return pre


def split_post(C, dynamic_model=0):
    o, n = C.old, C.new
    g = split_cfg(C)
    a, b, f1, f2, cc, dd, s, nl, fl = g['a'], g['b'], g['f1'], g['f2'], g['cc'], g['dd'], g['s'], g['nl'], g['fl']
    if C.outcome != 'ret':
        return [('failure-is-reported-by-the-integrity-exception', z3.BoolVal(C.outcome == 'throw:mesh_integrity_exception'))]
    gh = C.post_state.ghost
    eid = gh.get('new_node_id')
    if eid is None: return [('a-node-was-added', z3.BoolVal(False))]
    A, Bn, E = o.elem(nl, a), o.elem(nl, b), n.elem(nl, eid)
    mom = lambda v, r: v.v3(r, 'node.momentum_')
    out = [('cover:appended-node', eid == o.len(nl)), ('cover:reused-slot', eid < o.len(nl)),
           ('new-node-sits-at-the-midpoint-of-the-edge', n.v3(E, 'node.pos_').eq((o.v3(A, 'node.pos_') + o.v3(Bn, 'node.pos_')) * 0.5)),
           ('momentum-of-the-three-nodes-is-the-momentum-of-the-two', (mom(n, A) + mom(n, Bn) + mom(n, E)).eq(mom(o, A) + mom(o, Bn))),
           ('no-surviving-node-moves', QForall(lambda k: z3.Implies(z3.And(k >= 0, k < o.len(nl), k != eid), n.v3(o.elem(nl, k), 'node.pos_').eq(o.v3(o.elem(nl, k), 'node.pos_'))), 1, 'positions')),
           ('momentum-of-the-other-nodes-is-untouched', QForall(lambda k: z3.Implies(z3.And(k >= 0, k < o.len(nl), k != eid, k != a, k != b), mom(n, o.elem(nl, k)).eq(mom(o, o.elem(nl, k)))), 1, 'momenta'))]
    ids = [gh.get('new_face_%d' % k) for k in range(4)] if gh.get('nf_count', 0) == 4 else None
    if ids is not None and all(x is not None for x in ids):
        t1, t2 = o.f(g['F1'], 'face.type_id_'), o.f(g['F2'], 'face.type_id_')
        # creation order in the source: f3, f5 (from face 1), f4, f6 (from face 2)
        out.append(('the-two-halves-of-each-face-inherit-its-type-label', z3.And(n.f(n.elem(fl, ids[0]), 'face.type_id_') == t1, n.f(n.elem(fl, ids[1]), 'face.type_id_') == t1,
                                                                                  n.f(n.elem(fl, ids[2]), 'face.type_id_') == t2, n.f(n.elem(fl, ids[3]), 'face.type_id_') == t2)))
        for j, (fid, third) in enumerate(zip(ids, (cc, cc, dd, dd))):
            F = n.elem(fl, fid)
            out.append(('new-face-%d-is-used-and-joins-the-new-node-to-the-old-ones' % (j + 3), z3.And(n.f(F, 'face.is_used_'), face_has_nodes(n, F, eid, third))))
    else:
        out.append(('four-faces-were-created', z3.BoolVal(False)))
    ek = lambda x, y: ekey(C.e, x, y)
    out.append(('the-split-edge-is-gone-and-the-four-new-edges-have-two-faces', z3.And(z3.Not(member(n, s, ek(a, b))),
                *[z3.And(member(n, s, ek(eid, x)), stored(n, s, ek(eid, x), 'f1_id_.has'), stored(n, s, ek(eid, x), 'f2_id_.has')) for x in (a, b, cc, dd)])))
    return out


def note_new_node(C, st):
    r = C.e.fresh('new_node_id', I)
    st.ghost['new_node_id'] = r
    return r


def note_new_face(C, st):
    r = C.e.fresh('new_face_id', I)
    k = st.ghost.get('nf_count', 0)
    st.ghost['nf_count'] = k + 1
    st.ghost['new_face_%d' % k] = r
    # the winding handed to add_face (what split_edge / swap_edge ask for)
    f = C.arg('f').ref
    for j in (1, 2, 3): st.ghost['new_face_%d_n%d' % (k, j)] = C.old.f(f, 'face.n%d_id_' % j)
    return r


def split_callees(prop):
    an = add_node_contract(prop, assumed=True); an.ret_model = note_new_node
    af = add_face_contract(prop, assumed=True); af.ret_model = note_new_face
    return [an, af, delete_face_contract(prop, assumed=True), get_edge_contract(prop, assumed=True)]


def add_face_view(prop):
    """cell::add_face as the physics / memory contract of split_edge sees it: what it writes and that it returns a slot; its
    precondition is discharged at the same call sites by the topology contract (thorough tier)"""
    def post(C):
        o, n = C.old, C.new
        fl = faces(o, C.this)
        q = ffq(o, C.this)
        return [('returns-a-slot-of-the-list', z3.And(C.ret >= 0, C.ret < n.len(fl))), ('face-list-does-not-shrink', n.len(fl) >= o.len(fl)),
                ('returns-a-slot-that-was-not-in-use-and-is-in-use-now', z3.And(z3.Or(C.ret >= o.len(fl), z3.Not(o.f(o.elem(fl, C.ret), 'face.is_used_'))), n.f(n.elem(fl, C.ret), 'face.is_used_'))),
                ('faces-in-use-stay-in-use', QForall(lambda j: z3.Implies(z3.And(j >= 0, j < o.len(fl), o.f(o.elem(fl, j), 'face.is_used_')), n.f(o.elem(fl, j), 'face.is_used_')), 1, 'used faces')),
                ('other-vectors-untouched', QForall(lambda r: z3.Implies(z3.And(r != fl, r != q), z3.And(n.f(r, 'vec.len') == o.f(r, 'vec.len'), n.f(r, 'vec.epoch') == o.f(r, 'vec.epoch'))), 1, 'other vectors'))]
    return Contract('cell::add_face', prop, assumed=True, throws=['mesh_integrity_exception'], post=post, ret_model=note_new_face,
                    frame=lambda C: [(k, None) for k in ADD_FACE_ASSIGNS], name='cell::add_face (view: frame and result range; requires discharged by the topology contract)')


def note_label(C, st):
    k = st.ghost.get('label_count', 0)
    st.ghost['label_count'] = k + 1
    st.ghost['label_%d_face' % k] = C.this.ref if hasattr(C.this, 'ref') else C.this
    st.ghost['label_%d_value' % k] = C.val('type_id')
    return None


def set_label_contract(prop):
    """face::set_face_type_id (a one-line setter: type_id_ = id) as split_edge sees it; every call is recorded"""
    def post(C):
        return [('stores-the-label', C.new.f(C.this, 'face.type_id_') == C.val('type_id'))]
    return Contract('face::set_face_type_id', prop, assumed=True, frame=lambda C: [('face.type_id_', [C.this.ref])], post=post, ret_model=note_label,
                    name='face::set_face_type_id (setter; calls recorded)')


def split_light_callees(prop):
    an = add_node_contract(prop, assumed=True); an.ret_model = note_new_node
    return [an, add_face_view(prop), delete_face_view(prop), get_edge_contract(prop, assumed=True), set_label_contract(prop)]


def split_light_pre(C):
    keep = ('cell-non-null', 'the-edge-is-a-stored-manifold-edge', 'its-nodes-and-faces-are-used-slots', 'both-faces-contain-the-edge', 'opposite-nodes-are-used-slots-and-differ',
            'list-sizes', 'free-node-ids-are-slots', 'free-node-ids-are-unused-slots', 'free-node-ids-differ', 'the-set-of-edges-to-check-is-another-object')
    return [(nm, g) for (nm, g) in split_pre(C) if nm in keep]


def split_winding_post(C):
    """the four triangles split_edge asks for are wound like the triangle they replace: their area vector (with the new node at the
    midpoint) points to the side of the cached normal of the replaced face"""
    if C.outcome != 'ret': return []
    o = C.old
    g = split_cfg(C)
    gh = C.post_state.ghost
    if gh.get('nf_count', 0) != 4: return [('four-faces-are-requested', z3.BoolVal(False))]
    nl = g['nl']
    P = lambda k: o.v3(o.elem(nl, k), 'node.pos_')
    E = (P(g['a']) + P(g['b'])) * 0.5
    eid = gh['new_node_id']
    pos = lambda k: V3(*[z3.If(k == eid, E.comps()[i], P(k).comps()[i]) for i in range(3)])
    out = []
    a, b = g['a'], g['b']
    # creation order in the source: f3 = (third, a, e) | (third, e, a); f5 = (third, e, b) | (third, b, e); then f4, f6 for the second face
    want = {0: ((a, eid), (eid, a)), 1: ((eid, b), (b, eid)), 2: ((a, eid), (eid, a)), 3: ((eid, b), (b, eid))}
    for k, (F, third) in enumerate(((g['F1'], g['cc']), (g['F1'], g['cc']), (g['F2'], g['dd']), (g['F2'], g['dd']))):
        n1, n2, n3 = [gh['new_face_%d_n%d' % (k, j)] for j in (1, 2, 3)]
        nrm = o.v3(F, 'face.normal_')
        same_side = (P(a) - P(third)).cross(P(b) - P(third)).dot(nrm) >= 0
        (x1, y1), (x2, y2) = want[k]
        fresh = z3.And(eid != a, eid != b, eid != g['cc'], eid != g['dd'])
        out.append(('requested-face-%d-is-wound-like-the-face-it-replaces' % (k + 3),
                    z3.And(n1 == third, z3.If(same_side, z3.And(n2 == x1, n3 == y1), z3.And(n2 == x2, n3 == y2))), None, [fresh]))
    return out


def split_lemmas(reg, prop):
    # (third, a, e) with e the midpoint of ab has half the area vector of (third, a, b); likewise (third, e, b): so the requested
    # windings of split_post have their area vector on the side of the cached normal of the replaced face
    A, Bv, Cv, N = V3.fresh('wa'), V3.fresh('wb'), V3.fresh('wc'), V3.fresh('wn')
    E = (A + Bv) * 0.5
    cr = (A - Cv).cross(Bv - Cv)
    ins = A.comps() + Bv.comps() + Cv.comps() + N.comps()
    reg.lemma('half-triangles-keep-the-area-vector-direction', prop, [], z3.And(((A - Cv).cross(E - Cv) * 2).eq(cr), ((E - Cv).cross(Bv - Cv) * 2).eq(cr)),
              note='with cr.n >= 0 the triangles (c,a,e),(c,e,b) have area vectors with non-negative component along the cached normal n; with cr.n < 0 the reversed triangles (c,e,a),(c,b,e) do', inputs=ins)


def split_label_post(C):
    """the two triangles that replace face 1 are given the label of face 1, the two that replace face 2 the label of face 2
    (creation order in the source: f3, f5 from face 1; f4, f6 from face 2)"""
    if C.outcome != 'ret': return []
    o, n = C.old, C.new
    g = split_cfg(C)
    gh = C.post_state.ghost
    if gh.get('nf_count', 0) != 4 or gh.get('label_count', 0) != 4:
        return [('each-of-the-four-new-faces-is-labelled-once', z3.BoolVal(False))]
    fl = g['fl']
    t1, t2 = o.f(g['F1'], 'face.type_id_'), o.f(g['F2'], 'face.type_id_')
    ids = [gh['new_face_%d' % k] for k in range(4)]
    want = {0: t1, 1: t1, 2: t2, 3: t2}
    out = []
    for k in range(4):
        slot = n.elem(fl, ids[k])
        # some label call addresses this new face, and every call that addresses it carries the label of the face it replaces
        addressed = z3.Or(*[gh['label_%d_face' % j] == slot for j in range(4)])
        right = z3.And(*[z3.Implies(gh['label_%d_face' % j] == slot, gh['label_%d_value' % j] == want[k]) for j in range(4)])
        distinct = z3.And(*[ids[i] != ids[j] for i in range(4) for j in range(i + 1, 4)])
        calls = z3.And(*[gh['label_%d_face' % j] == n.elem(fl, ids[m]) for j, m in enumerate((0, 2, 1, 3))]) if False else z3.BoolVal(True)
        out.append(('new-face-%d-is-given-the-label-of-the-face-it-replaces' % (k + 3), z3.And(addressed, right), None, [distinct]))
    return out


def split_light_post(C):
    return [it for it in split_post(C) if it[0].startswith(('cover:', 'new-node-sits', 'momentum-', 'no-surviving', 'failure-is', 'a-node-was'))] + split_winding_post(C) + split_label_post(C)


def split_edge_contract(prop, full=False):
    if full:
        c = Contract('local_mesh_refiner::split_edge', prop, pre=split_pre, post=split_post, use=split_callees(prop),
                     safety={'bounds', 'optional', 'dangling-ref', 'null-deref'}, name='local_mesh_refiner::split_edge(topology)')
        c.tier = 'thorough'
        return c
    return Contract('local_mesh_refiner::split_edge', prop, pre=split_light_pre, post=split_light_post, use=split_light_callees(prop),
                    safety={'bounds', 'dangling-ref', 'null-deref'}, name='local_mesh_refiner::split_edge(physics and references)')


# ---- local_mesh_refiner::merge_edge (physical part) ----------------------------------------------------------------------------------------------
def two_edge_lists(C, st):
    import ty
    a = ObjLV(C.e.new_object(), ty.parse('std::vector<edge>')); b = ObjLV(C.e.new_object(), ty.parse('std::vector<edge>'))
    for v in (a, b):
        ln = C.e.fresh('edge_list_len', I); st.pc.append(ln >= 0); C.e.hwrite(st, 'vec.len', v.ref, ln)
    return Rec('pair', {'first': a, 'second': b})


def replace_node_view(prop):
    """cell::replace_node as merge_edge sees it: the topology it rewires is not under contract; of the node data it resets the
    replaced node (delete_node) and touches no other node, and it does not resize the node list"""
    def post(C):
        o, n = C.old, C.new
        nl = nodes(o, C.this)
        old = C.val('old_node_id')
        return [('node-list-keeps-its-size', z3.And(n.len(nl) == o.len(nl), n.f(nl, 'vec.epoch') == o.f(nl, 'vec.epoch'))),
                ('replaced-node-is-deleted', z3.Not(n.f(n.elem(nl, old), 'node.is_used_'))),
                ('other-nodes-untouched', QForall(lambda k: z3.Implies(z3.And(k >= 0, k < o.len(nl), k != old), same_node(n, o, o.elem(nl, k))), 1, 'other nodes'))]
    return Contract('cell::replace_node', prop, assumed=True, frame=lambda C: [('*', [])], post=post, ret_model=two_edge_lists,
                    name='cell::replace_node (view: resets the replaced node only; topology not under contract)')


def delete_face_view(prop):
    def post(C):
        o, n = C.old, C.new
        q = ffq(o, C.this)
        return [('other-vectors-untouched', QForall(lambda r: z3.Implies(r != q, z3.And(n.f(r, 'vec.len') == o.f(r, 'vec.len'), n.f(r, 'vec.epoch') == o.f(r, 'vec.epoch'))), 1, 'other vectors'))]
    return Contract('cell::delete_face', prop, assumed=True, signature='(const unsigned int)', throws=['mesh_integrity_exception'], post=post,
                    frame=lambda C: [(k, None) for k in DELETE_FACE_ASSIGNS], name='cell::delete_face(id) (view: writes what its own contract lists - no node data)')


def merge_callees(prop):
    an = add_node_contract(prop, assumed=True); an.ret_model = note_new_node
    return [an, replace_node_view(prop), get_edge_contract(prop, assumed=True), delete_face_view(prop)]


def merge_pre(C):
    o = C.old
    c = C.arg('c').ref; e = C.val('e_ab')
    nl = nodes(o, c)
    a, b = e.f['n1_id_'], e.f['n2_id_']
    q = fnq(o, c)
    return [('cell-non-null', z3.And(c > 0, C.e.root_of(c) > 0)),
            ('edge-nodes-are-used-slots', z3.And(a >= 0, a < o.len(nl), b >= 0, b < o.len(nl), a != b, e.f['f1_id_'].f['has'], e.f['f2_id_'].f['has'])),
            ('list-size', z3.And(o.len(nl) >= 0, o.len(nl) < 2 ** 31)),
            ('free-node-slot-is-not-an-end-of-the-edge', z3.Implies(o.len(q) > 0, z3.And(o.at(q, o.len(q) - 1, 'int') != a, o.at(q, o.len(q) - 1, 'int') != b))),
            ('the-set-of-edges-to-check-is-another-object', C.e.root_of(C.arg('edge_to_check_set').ref) != C.e.root_of(c))] + free_nodes_wf(o, c)


def merge_post(C):
    o, n = C.old, C.new
    if C.outcome != 'ret':
        return [('failure-is-reported-by-an-exception-of-the-library', z3.BoolVal(C.outcome.startswith('throw:')))]
    c = C.arg('c').ref; e = C.val('e_ab')
    nl = nodes(o, c)
    a, b = e.f['n1_id_'], e.f['n2_id_']
    iid = C.post_state.ghost.get('new_node_id')
    if iid is None: return [('a-node-was-added', z3.BoolVal(False))]
    A, Bn, In = o.elem(nl, a), o.elem(nl, b), n.elem(nl, iid)
    mom = lambda v, r: v.v3(r, 'node.momentum_')
    return [('merged-node-sits-at-the-midpoint', n.v3(In, 'node.pos_').eq((o.v3(A, 'node.pos_') + o.v3(Bn, 'node.pos_')) * 0.5)),
            ('merged-node-carries-the-momentum-of-both-ends', mom(n, In).eq(mom(o, A) + mom(o, Bn))),
            ('both-ends-are-deleted', z3.And(z3.Not(n.f(A, 'node.is_used_')), z3.Not(n.f(Bn, 'node.is_used_')))),
            ('no-other-node-moves-or-changes-momentum', QForall(lambda k: z3.Implies(z3.And(k >= 0, k < o.len(nl), k != iid, k != a, k != b),
                                                                                   z3.And(n.v3(o.elem(nl, k), 'node.pos_').eq(o.v3(o.elem(nl, k), 'node.pos_')), mom(n, o.elem(nl, k)).eq(mom(o, o.elem(nl, k))))), 1, 'others'))]


def merge_edge_contract(prop):
    return Contract('local_mesh_refiner::merge_edge', prop, pre=merge_pre, post=merge_post, use=merge_callees(prop), safety={'bounds', 'dangling-ref', 'null-deref'},
                    name='local_mesh_refiner::merge_edge(physics)')


# ---- cell::rebase: compaction and regeneration of the edge set -----------------------------------------------------------------------------------------
def clocked(tag, ret=None):
    def rm(C, st):
        clk = st.ghost.get('clock', z3.IntVal(0)) + 1
        st.ghost['clock'] = clk
        st.ghost['at:' + tag] = clk
        if ret is not None: return ret(C, st)
        return None
    return rm


REBASE_STAGES = ['remove_faces', 'remove_nodes', 'update_node_ids', 'generate_edge_set', 'clear_edge_set']


def rebase_setup(eng, st, args, this):
    st.ghost['clock'] = z3.IntVal(0)
    for t in REBASE_STAGES: st.ghost['at:' + t] = z3.IntVal(0)


def rebase_callees(prop):
    def hv(C):
        # the compaction helpers and the rebuild of the edge set do not touch the two free-slot queues (remove_index only reads its index list)
        v = C.old
        qs = [fnq(v, C.caller_this), ffq(v, C.caller_this)]
        return [('*', [], [('vec.len', qs), ('vec.data.int', qs)])]
    return [Contract('remove_index', prop, signature='std::vector<face> &', assumed=True, frame=hv, ret_model=clocked('remove_faces'), name='remove_index<face, unsigned> (compacts the face list)'),
            Contract('remove_index', prop, signature='std::vector<node> &', assumed=True, frame=hv, ret_model=clocked('remove_nodes'), name='remove_index<node, unsigned> (compacts the node list)'),
            Contract('face::update_node_ids', prop, assumed=True, frame=hv, ret_model=clocked('update_node_ids'), name='face::update_node_ids (renumbers the nodes of a face)'),
            Contract('cell::generate_edge_set', prop, assumed=True, frame=hv, throws=['mesh_integrity_exception'], ret_model=clocked('generate_edge_set'), name='cell::generate_edge_set (rebuilds the edge set from the faces)')]


def rebase_post(C):
    if C.outcome != 'ret':
        return [('only-the-integrity-exception-escapes', z3.BoolVal(C.outcome == 'throw:mesh_integrity_exception'))]
    o, n = C.old, C.new
    g = C.post_state.ghost
    c = C.this
    nf0 = o.len(ffq(o, c)); nn0 = o.len(fnq(o, c))
    at = lambda t: g['at:' + t]
    renumbered = z3.Or(nf0 > 0, nn0 > 0)
    return [('cover:only-node-slots-were-free', z3.And(nf0 == 0, nn0 > 0)), ('cover:only-face-slots-were-free', z3.And(nf0 > 0, nn0 == 0)), ('cover:nothing-to-compact', z3.And(nf0 == 0, nn0 == 0)),
            ('free-slot-queues-are-empty-afterwards', z3.And(n.len(ffq(o, c)) == 0, n.len(fnq(o, c)) == 0)),
            ('faces-are-compacted-iff-face-slots-were-free', (at('remove_faces') >= 1) == (nf0 > 0)),
            ('nodes-are-compacted-iff-node-slots-were-free', (at('remove_nodes') >= 1) == (nn0 > 0)),
            # ids of nodes and faces are part of every stored edge: any renumbering must be followed by a rebuild of the edge set
            ('edge-set-is-rebuilt-after-every-renumbering', z3.Implies(renumbered, z3.And(at('generate_edge_set') > at('remove_faces'), at('generate_edge_set') > at('remove_nodes'),
                                                                                        at('generate_edge_set') > at('update_node_ids'), at('generate_edge_set') >= 1))),
            ('nothing-is-rebuilt-when-nothing-was-free', z3.Implies(z3.Not(renumbered), at('generate_edge_set') == 0))]


def rebase_loops(reg):
    reg.add_loop(LoopContract('cell::rebase', 0, lambda L: [], modifies=['face.local_face_id_']))
    # the node renumbering loop writes the node ids and fills the local old-id -> new-id map
    reg.add_loop(LoopContract('cell::rebase', 1, lambda L: [], modifies=['node.node_id_', 'sset.member', 'set.size', 'vec.data.int']))
    queues = lambda L: [fnq(L.entry, L.this), ffq(L.entry, L.this)]
    reg.add_loop(LoopContract('cell::rebase', 'for_each#0', lambda L: [], modifies=['*'], keep_at=[('vec.len', queues)]))


def rebase_contract(prop):
    return Contract('cell::rebase', prop, post=rebase_post, use=rebase_callees(prop), setup=rebase_setup, name='cell::rebase(order of compaction and edge-set rebuild)')


# ---- cell::generate_edge_set: one face ---------------------------------------------------------------------------------------------------------------------
def ges_body_pre(C):
    o = C.old
    c = C.this
    return [('stored-edges-match-their-keys', edges_wf(o, c))]


def ges_body_post(C):
    if C.outcome not in (None, 'ret', 'continue', 'end'):
        return [('a-face-is-refused-only-with-the-integrity-exception', z3.BoolVal(C.outcome == 'throw:mesh_integrity_exception'))]
    o, n = C.old, C.new
    c = C.this
    f = None
    for k, v in C.pre_state.env.items():
        if C.e.var_names.get(k) == 'f' and not str(k).startswith(('tmp!', 'glob!', 'param', 'rangeidx!')): f = v
    fr = f.ref
    s = eset(o, c)
    keys, nid = face_keys(o, C.e, fr)
    fid = o.f(fr, 'face.local_face_id_')
    out = []
    for j, k in enumerate(keys):
        out.append(('edge-%d-of-the-face-is-in-the-set-and-lists-the-face' % (j + 1), z3.And(member(n, s, k), has_face(n, s, k, fid))))
    out.append(('stored-edges-still-match-their-keys', edges_wf_after(C, o, n, c)))
    return out


def generate_edge_set_body_contract(prop):
    return Contract('cell::generate_edge_set', prop, pre=ges_body_pre, post=ges_body_post, slice_loop=0, safety={'bounds', 'optional'},
                    name='cell::generate_edge_set::<one face>')


# ------------------------------------------------------------------------------------------------ native replay shared by C01 / C10 / C11
DRIVER = r'''
#include <cstdio>
#include <cstdlib>
#include <cmath>
#include <map>
#include <array>
#include "local_mesh_refiner.hpp"
#include "epithelial_cell.hpp"
// One refinement pass (real local_mesh_refiner::refine_mesh) on an icosphere whose edges are all longer than l_max, so that every
// edge is split; the node list has no spare capacity, so cell::add_node reallocates it. Built with ASan/UBSan: any use of a
// reference into the old storage is reported. Afterwards momentum conservation and 'no surviving node moved' are checked.
static void icosphere(double r, int sub, std::vector<double>& pos, std::vector<unsigned>& faces){
  const double t = (1. + std::sqrt(5.)) / 2.;
  std::vector<std::array<double,3>> v{{-1,t,0},{1,t,0},{-1,-t,0},{1,-t,0},{0,-1,t},{0,1,t},{0,-1,-t},{0,1,-t},{t,0,-1},{t,0,1},{-t,0,-1},{-t,0,1}};
  std::vector<std::array<unsigned,3>> f{{0,11,5},{0,5,1},{0,1,7},{0,7,10},{0,10,11},{1,5,9},{5,11,4},{11,10,2},{10,7,6},{7,1,8},{3,9,4},{3,4,2},{3,2,6},{3,6,8},{3,8,9},{4,9,5},{2,4,11},{6,2,10},{8,6,7},{9,8,1}};
  auto nrm = [](std::array<double,3>& p){ double n = std::sqrt(p[0]*p[0]+p[1]*p[1]+p[2]*p[2]); p[0]/=n; p[1]/=n; p[2]/=n; };
  for(auto& p: v) nrm(p);
  for(int s = 0; s < sub; s++){
    std::map<std::pair<unsigned,unsigned>, unsigned> cache;
    auto mid = [&](unsigned a, unsigned b){ auto k = std::make_pair(std::min(a,b), std::max(a,b)); auto it = cache.find(k); if(it != cache.end()) return it->second;
      std::array<double,3> m{(v[a][0]+v[b][0])/2, (v[a][1]+v[b][1])/2, (v[a][2]+v[b][2])/2}; nrm(m); v.push_back(m); return cache[k] = (unsigned)v.size()-1; };
    std::vector<std::array<unsigned,3>> f2;
    for(auto& tr: f){ unsigned a = mid(tr[0],tr[1]), b = mid(tr[1],tr[2]), c = mid(tr[2],tr[0]); f2.push_back({tr[0],a,c}); f2.push_back({tr[1],b,a}); f2.push_back({tr[2],c,b}); f2.push_back({a,b,c}); }
    f = f2;
  }
  for(auto& p: v){ pos.push_back(r*p[0]); pos.push_back(r*p[1]); pos.push_back(r*p[2]); }
  for(auto& tr: f){ faces.push_back(tr[0]); faces.push_back(tr[1]); faces.push_back(tr[2]); }
}
static int inconsistent_edges(const cell_ptr& c){
  // every edge must be traversed in opposite directions by its two triangles
  std::map<std::pair<unsigned,unsigned>, int> dir; int bad = 0;
  for(const face& f: c->get_face_lst()){ if(!f.is_used()) continue; auto [a,b,d] = f.get_node_ids(); unsigned v[3] = {a,b,d};
    for(int i = 0; i < 3; i++){ unsigned x = v[i], y = v[(i+1)%3]; auto k = std::make_pair(std::min(x,y), std::max(x,y)); dir[k] += (x < y) ? 1 : -1; } }
  for(auto& kv: dir) if(kv.second != 0) bad++;
  return bad;
}
static double signed_volume(const cell_ptr& c){
  double s = 0; for(const face& f: c->get_face_lst()){ if(!f.is_used()) continue; auto [a,b,d] = f.get_node_ids();
    const vec3& p = c->get_node_lst()[a].pos(); const vec3& q = c->get_node_lst()[b].pos(); const vec3& r = c->get_node_lst()[d].pos(); s += p.dot(q.cross(r)); }
  return s / 6.;
}
static int stale_edges(const cell_ptr& c){
  // the stored edge set must agree with the triangle list: every side of every used triangle is a stored edge that lists the triangle
  int bad = 0;
  for(const face& f: c->get_face_lst()){ if(!f.is_used()) continue; auto [a,b,d] = f.get_node_ids(); unsigned v[3] = {a,b,d};
    for(int i = 0; i < 3; i++){ auto e = c->get_edge(v[i], v[(i+1)%3]); if(!e.has_value() || !e.value().has_face(f.get_local_id())) bad++; } }
  return bad;
}
static vec3 total_momentum(const cell_ptr& c){ vec3 m(0,0,0); for(const node& nd: c->node_lst_) if(nd.is_used()) m = m + nd.momentum_; return m; }
int main(int argc, char** argv){
  const std::string mode = argc > 1 ? argv[1] : "split";
  face_type_parameters ft; ft.name_ = "apical"; ft.face_type_global_id_ = 0;
  auto ct = std::make_shared<cell_type_parameters>(); ct->name_ = "epithelial"; ct->global_type_id_ = 0; ct->add_face_type(ft);
  { face_type_parameters ft2 = ft; ft2.name_ = "basal"; ft2.face_type_global_id_ = 1; ct->add_face_type(ft2); }
  std::vector<double> pos; std::vector<unsigned> faces; icosphere(1.0, mode == "dimple" ? 2 : 1, pos, faces);
  if(mode == "dimple"){ for(size_t k = 0; k < pos.size() / 3; k++) if(pos[3*k+2] > 0.3) pos[3*k+2] = 0.6 - pos[3*k+2]; }     // cap reflected into the ball: a deep invagination
  auto c = std::make_shared<epithelial_cell>(pos, faces, 0, ct); c->initialize_cell_properties(true);
  c->node_lst_.shrink_to_fit(); c->face_lst_.shrink_to_fit();
  const size_t n0 = c->node_lst_.size();
  for(size_t k = 0; k < n0; k++) c->node_lst_[k].momentum_ = vec3(0.1*k + 0.3, -0.2*k, 0.05*k*k);
  int bad = 0;
  auto pass = [&](local_mesh_refiner& lmr, const char* what){
    std::vector<vec3> p0; std::vector<bool> used0; for(const node& nd: c->node_lst_){ p0.push_back(nd.pos_); used0.push_back(nd.is_used()); }
    const vec3 mom0 = total_momentum(c); const double vol0 = signed_volume(c);
    const size_t free0 = c->free_node_queue_.size();
    lmr.refine_mesh(c);
    const vec3 mom1 = total_momentum(c);
    if((mom1 - mom0).norm() > 1e-9 * (1 + mom0.norm())){ printf("FAIL %s: total momentum changed from (%g,%g,%g) to (%g,%g,%g)\n", what, mom0.dx(),mom0.dy(),mom0.dz(), mom1.dx(),mom1.dy(),mom1.dz()); bad = 1; }
    if(free0 == 0 && mode != "reuse" && mode != "rebase") for(size_t k = 0; k < p0.size(); k++) if(used0[k] && c->node_lst_[k].is_used() && (c->node_lst_[k].pos_ - p0[k]).norm() != 0){ printf("FAIL %s: surviving node %zu moved\n", what, k); bad = 1; break; }
    if(!c->is_manifold()){ printf("FAIL %s: surface is no longer a closed manifold\n", what); bad = 1; }
    int inc = inconsistent_edges(c); if(inc){ printf("FAIL %s: %d edges are traversed in the same direction by both of their triangles (inconsistent winding)\n", what, inc); bad = 1; }
    if(signed_volume(c) <= 0){ printf("FAIL %s: enclosed volume is not positive any more (%g -> %g)\n", what, vol0, signed_volume(c)); bad = 1; }
    return vol0;
  };
  try{
    if(mode == "split"){
      // two face labels (upper / lower half of the sphere): a split-only pass must hand the label of each triangle to the triangles it is cut into
      struct tri { vec3 a, b, c; unsigned short label; };
      std::vector<tri> old_faces;
      for(face& f: c->face_lst_){ if(!f.is_used()) continue; auto [i,j,k] = f.get_node_ids(); const vec3& A = c->node_lst_[i].pos_; const vec3& B = c->node_lst_[j].pos_; const vec3& C = c->node_lst_[k].pos_;
        unsigned short lab = ((A + B + C).dz() > 0) ? 0 : 1; f.set_face_type_id(lab); old_faces.push_back({A, B, C, lab}); }
      local_mesh_refiner lmr(0.1, 0.4, false); pass(lmr, "split pass");
      int wrong = 0;
      for(const face& f: c->get_face_lst()){ if(!f.is_used()) continue; auto [i,j,k] = f.get_node_ids(); const vec3 g = (c->node_lst_[i].pos_ + c->node_lst_[j].pos_ + c->node_lst_[k].pos_) / 3.;
        int best = -1; double bestd = 1e300;
        for(size_t t = 0; t < old_faces.size(); t++){ const tri& T = old_faces[t]; vec3 n = (T.b - T.a).cross(T.c - T.a); double nn = n.dot(n); if(nn == 0) continue;
          double d = std::fabs((g - T.a).dot(n)) / std::sqrt(nn);
          double w0 = (T.b - g).cross(T.c - g).dot(n) / nn, w1 = (T.c - g).cross(T.a - g).dot(n) / nn, w2 = (T.a - g).cross(T.b - g).dot(n) / nn;
          if(w0 < -1e-9 || w1 < -1e-9 || w2 < -1e-9) continue;
          if(d < bestd){ bestd = d; best = (int)t; } }
        if(best >= 0 && bestd < 1e-9 && f.get_local_face_type_id() != old_faces[best].label) wrong++; }
      if(wrong){ printf("FAIL %d triangles do not carry the face-type label of the triangle they were cut from\n", wrong); bad = 1; }
    }
    else if(mode == "dimple"){ local_mesh_refiner lmr(1e-4, 0.2, false); double v0 = pass(lmr, "split pass on a cell with an invagination");
      if(std::fabs(signed_volume(c) - v0) > 1e-9 * std::fabs(v0)){ printf("FAIL splits changed the enclosed volume %g -> %g\n", v0, signed_volume(c)); bad = 1; } }
    else if(mode == "swap"){
      // every edge of the sphere is offered to swap_edge; afterwards the cached normal of every used face must lie on the side given
      // by its winding (the cache is what split_edge and the force routines read)
      local_mesh_refiner lmr(0.1, 5.0, true); int swaps = 0;
      std::vector<edge> es(c->get_edge_set().begin(), c->get_edge_set().end());
      for(edge e0: es){ auto cur = c->get_edge(e0.n1(), e0.n2()); if(!cur.has_value() || !cur.value().is_manifold()) continue; edge e = cur.value(); size_t nf = c->face_lst_.size(); unsigned f1 = e.f1();
        lmr.swap_edge(e, c); if(!c->get_edge(e0.n1(), e0.n2()).has_value()) swaps++; }
      int wrong = 0; for(const face& f: c->get_face_lst()){ if(!f.is_used()) continue; auto [a,b,d] = f.get_node_ids();
        const vec3& p = c->get_node_lst()[a].pos(); const vec3& q = c->get_node_lst()[b].pos(); const vec3& r = c->get_node_lst()[d].pos();
        if((q - p).cross(r - p).dot(f.get_normal()) < 0) wrong++; }
      printf("%d swaps performed\n", swaps);
      if(wrong){ printf("FAIL after the swaps %d faces have a cached normal on the opposite side of their winding\n", wrong); bad = 1; }
      int inc = inconsistent_edges(c); if(inc){ printf("FAIL after the swaps %d edges are traversed in the same direction by both triangles\n", inc); bad = 1; }
      if(!c->is_manifold()){ printf("FAIL after the swaps the surface is not a closed manifold\n"); bad = 1; }
    }
    else if(mode == "rebase"){
      // a collapse (frees two face and two node slots after adding one node) followed by one split (takes the free face slots and one node
      // slot): face queue empty, node queue not. The compaction must leave an edge set that agrees with the renumbered triangles.
      local_mesh_refiner lmr(0.3, 0.9, false); edge_set tmp;
      c->update_centroid();
      bool merged = false;
      for(const edge& cand: c->get_edge_set()){ edge e1 = cand; if(lmr.can_be_merged(e1, c)){ lmr.merge_edge(e1, c, tmp); merged = true; break; } }
      if(!merged){ printf("INCONCLUSIVE no edge could be collapsed\n"); return 0; }
      { edge e2 = *c->get_edge_set().begin(); lmr.split_edge(e2, c, tmp); }
      printf("free face slots %zu, free node slots %zu before the compaction\n", c->free_face_queue_.size(), c->free_node_queue_.size());
      c->rebase();
      int st = stale_edges(c); if(st){ printf("FAIL after the compaction %d triangle sides are missing from the edge set or do not list their triangle\n", st); bad = 1; }
      if(!c->is_manifold()){ printf("FAIL after the compaction the stored edge set no longer describes a closed manifold\n"); bad = 1; }
    }
    else { // reuse: a collapse frees node slots, the splits of the next pass recycle them
      { const unsigned u = faces[0], w = faces[1];       // two nodes joined by an edge
        c->node_lst_[w].pos_ = c->node_lst_[u].pos_ + (c->node_lst_[w].pos_ - c->node_lst_[u].pos_) * 0.2; }
      local_mesh_refiner lmr(0.3, 0.9, false); pass(lmr, "pass with a collapse");
      size_t far = faces[faces.size() - 1]; c->node_lst_[far].pos_ = c->node_lst_[far].pos_ * 2.2;
      pass(lmr, "pass with splits that recycle freed slots");
    }
  }catch(const std::exception& e){ printf("OK refused: %s\n", e.what()); return bad; }
  if(!bad) printf("OK %s: %zu -> %zu nodes\n", mode.c_str(), n0, c->node_lst_.size());
  return bad;
}
'''

MODES = ['split', 'reuse', 'dimple', 'rebase']
_CACHE = {}


def run_modes():
    import native
    if 'r' not in _CACHE:
        res = []
        for m in MODES:
            code, out = native.run_driver(DRIVER, [m], sanitize=True, timeout=900)
            res.append((m, code, out))
            if code not in (0, 124, 125): break
        _CACHE['r'] = res
    return _CACHE['r']


def replay(ob, ins, run):
    """real local_mesh_refiner / cell operations under ASan/UBSan: (split) an icosphere whose edges are all too long, node list without
    spare capacity; (reuse) a collapse followed by splits that recycle the freed slots; (dimple) a cell with a deep invagination;
    (rebase) one collapse, one split, then the compaction. Checked: total momentum, immobility of surviving nodes, closed manifold,
    consistent winding, positive / unchanged volume, stored edge set against the triangle list"""
    res = run_modes()
    bad = [(m, c, o) for (m, c, o) in res if c not in (0, 124, 125)]
    if bad:
        m, c, o = bad[0]
        return {'confirmed': True, 'exit': c, 'args': [m], 'output': o[-3000:], 'driver': 'specs/meshops.py:DRIVER mode %s (ASan/UBSan build of the current tree)' % m}
    return {'confirmed': False, 'tried': [(m, c) for (m, c, o) in res], 'output': res[-1][2][-500:] if res else '', 'driver': 'specs/meshops.py:DRIVER'}


def replay_recorded(data):
    import native
    args = data.get('native', {}).get('args') or ['split']
    code, out = native.run_driver(DRIVER, args, sanitize=True, timeout=900)
    return {'confirmed': code not in (0, 124, 125), 'output': out}


# ---- local_mesh_refiner::swap_edge (light: what it requests, the face cache of the new faces, what it leaves alone) ---------------------------------
def add_face_view_with_cache(prop):
    """add_face as swap_edge sees it: frame, result range, and (C12 through update_face_normal_and_area, called by add_face) the cached
    normal of the new face lies on the side of the winding it was created with"""
    base = add_face_view(prop)
    def post(C):
        o, n = C.old, C.new
        c = C.this
        fl = faces(o, c); q = ffq(o, c); nl = nodes(o, c)
        src = C.arg('f').ref
        slot = n.elem(fl, C.ret)
        ids = [o.f(src, 'face.n%d_id_' % j) for j in (1, 2, 3)]
        P = [n.v3(n.elem(nl, k), 'node.pos_') for k in ids]
        cr = (P[1] - P[0]).cross(P[2] - P[0])
        return [('returns-a-slot-of-the-list', z3.And(C.ret >= 0, C.ret < n.len(fl))), ('face-list-does-not-shrink', n.len(fl) >= o.len(fl)),
                ('new-face-has-the-requested-nodes', z3.And(*[n.f(slot, 'face.n%d_id_' % j) == ids[j - 1] for j in (1, 2, 3)], n.f(slot, 'face.is_used_'), n.f(slot, 'face.local_face_id_') == C.ret)),
                ('cached-normal-of-the-new-face-follows-its-winding', n.v3(slot, 'face.normal_').dot(cr) >= 0),
                ('other-faces-keep-their-nodes-and-cache', QForall(lambda j: z3.Implies(z3.And(j >= 0, j < o.len(fl), j != C.ret),
                                                                                     z3.And(*[n.f(o.elem(fl, j), 'face.n%d_id_' % i) == o.f(o.elem(fl, j), 'face.n%d_id_' % i) for i in (1, 2, 3)],
                                                                                            n.v3(o.elem(fl, j), 'face.normal_').eq(o.v3(o.elem(fl, j), 'face.normal_')))), 1, 'other faces')),
                ('other-vectors-untouched', QForall(lambda r: z3.Implies(z3.And(r != fl, r != q), z3.And(n.f(r, 'vec.len') == o.f(r, 'vec.len'), n.f(r, 'vec.epoch') == o.f(r, 'vec.epoch'))), 1, 'other vectors'))]
    base.post = post
    base.name = 'cell::add_face (view: frame, result, requested nodes, cached normal follows the winding [C12])'
    return base


def swap_pre(C):
    keep = ('cell-non-null', 'the-edge-is-a-stored-manifold-edge', 'its-nodes-and-faces-are-used-slots', 'both-faces-contain-the-edge', 'opposite-nodes-are-used-slots-and-differ', 'list-sizes',
            'stored-edges-match-their-keys', 'the-other-four-edges-exist-and-list-their-face')
    o = C.old
    g = split_cfg(C)
    s = g['s']
    ek = lambda x, y: ekey(C.e, x, y)
    extra = [('the-four-outer-edges-have-two-faces', z3.And(*[z3.And(stored(o, s, ek(x, y), 'f1_id_.has'), stored(o, s, ek(x, y), 'f2_id_.has'))
                                                              for (x, y) in ((g['a'], g['cc']), (g['cc'], g['b']), (g['b'], g['dd']), (g['dd'], g['a']))])),
             ('the-faces-across-the-outer-edges-are-slots', z3.BoolVal(True))]
    base = []
    for (nm, gl) in split_pre_nosets(C):
        if nm in keep: base.append((nm, gl))
    return base + extra[:1]


def split_pre_nosets(C):
    """split_pre without the clause about the set of edges to check (swap_edge has no such parameter)"""
    o = C.old
    g = split_cfg(C)
    e = g['e']; a, b, f1, f2, cc, dd, s, nl, fl = g['a'], g['b'], g['f1'], g['f2'], g['cc'], g['dd'], g['s'], g['nl'], g['fl']
    ek = lambda x, y: ekey(C.e, x, y)
    used_node = lambda k: z3.And(k >= 0, k < o.len(nl), o.f(o.elem(nl, k), 'node.is_used_'), o.f(o.elem(nl, k), 'node.node_id_') == k)
    used_face = lambda k, F: z3.And(k >= 0, k < o.len(fl), o.f(F, 'face.is_used_'), o.f(F, 'face.local_face_id_') == k)
    return [('cell-non-null', z3.And(g['c'] > 0, C.e.root_of(g['c']) > 0)),
            ('the-edge-is-a-stored-manifold-edge', z3.And(a < b, e.f['f1_id_'].f['has'], e.f['f2_id_'].f['has'], f1 != f2, member(o, s, ek(a, b)),
                                                          stored(o, s, ek(a, b), 'f1_id_.has'), stored(o, s, ek(a, b), 'f2_id_.has'),
                                                          stored(o, s, ek(a, b), 'f1_id_.value') == f1, stored(o, s, ek(a, b), 'f2_id_.value') == f2)),
            ('its-nodes-and-faces-are-used-slots', z3.And(used_node(a), used_node(b), used_face(f1, g['F1']), used_face(f2, g['F2']))),
            ('both-faces-contain-the-edge', z3.And(face_has_nodes(o, g['F1'], a, b), face_has_nodes(o, g['F2'], a, b))),
            ('opposite-nodes-are-used-slots-and-differ', z3.And(used_node(cc), used_node(dd), cc != dd)),
            ('list-sizes', z3.And(o.len(nl) < 2 ** 30, o.len(fl) < 2 ** 30)),
            ('stored-edges-match-their-keys', edges_wf(o, g['c'])),
            ('the-other-four-edges-exist-and-list-their-face', z3.And(edge_can_lose(o, s, ek(a, cc), f1), edge_can_lose(o, s, ek(cc, b), f1), edge_can_lose(o, s, ek(a, dd), f2), edge_can_lose(o, s, ek(dd, b), f2),
                                                                     has_face(o, s, ek(a, cc), f1), has_face(o, s, ek(cc, b), f1), has_face(o, s, ek(a, dd), f2), has_face(o, s, ek(dd, b), f2)))]


def swap_post(C):
    if C.outcome != 'ret':
        return [('failure-is-reported-by-the-integrity-exception', z3.BoolVal(C.outcome == 'throw:mesh_integrity_exception'))]
    o, n = C.old, C.new
    g = split_cfg(C)
    gh = C.post_state.ghost
    nl, fl = g['nl'], g['fl']
    out = [('no-node-moves-or-changes-momentum', QForall(lambda k: z3.Implies(z3.And(k >= 0, k < o.len(nl)), same_node(n, o, o.elem(nl, k))), 1, 'nodes'))]
    cnt = gh.get('nf_count', 0)
    out.append(('cover:swap-performed', z3.BoolVal(cnt == 2)))
    if cnt == 2:
        for k in range(2):
            fid = gh['new_face_%d' % k]
            F = n.elem(fl, fid)
            ids = [n.f(F, 'face.n%d_id_' % j) for j in (1, 2, 3)]
            P = [n.v3(n.elem(nl, i), 'node.pos_') for i in ids]
            cr = (P[1] - P[0]).cross(P[2] - P[0])
            out.append(('cached-normal-of-new-face-%d-lies-on-the-side-of-its-final-winding' % (k + 3), n.v3(F, 'face.normal_').dot(cr) >= 0))
            out.append(('new-face-%d-joins-the-two-opposite-nodes-and-one-end-of-the-old-edge' % (k + 3),
                        z3.And(face_has_nodes(n, F, g['cc'], g['dd']), z3.Or(*[z3.Or(x == g['a'], x == g['b']) for x in ids]))))
    return out


def swap_edge_contract(prop):
    return Contract('local_mesh_refiner::swap_edge', prop, pre=swap_pre, post=swap_post,
                    use=[add_face_view_with_cache(prop), delete_face_view(prop), get_edge_contract(prop, assumed=True), check_winding_contract(prop, assumed=True)],
                    safety={'bounds', 'dangling-ref', 'null-deref', 'optional'}, name='local_mesh_refiner::swap_edge(requests, face cache, frame)')


# ---- local_mesh_refiner::can_be_merged: the link condition -----------------------------------------------------------------------------------------------
def neighbour_list(tag):
    def rm(C, st):
        import ty
        v = ObjLV(C.e.new_object(), ty.parse('std::vector<unsigned int>'))
        ln = C.e.fresh('nb_neighbours', I); st.pc.append(ln >= 0); C.e.hwrite(st, 'vec.len', v.ref, ln)
        k = st.ghost.get('ring_count', 0)
        st.ghost['ring_count'] = k + 1
        st.ghost['ring_%d_node' % k] = C.val('node_id'); st.ghost['ring_%d_list' % k] = v.ref
        return v
    return rm


def can_merge_pre(C):
    c = C.arg('c').ref
    e = C.val('e_ab')
    return [('cell-non-null', z3.And(c > 0, C.e.root_of(c) > 0)), ('edge-is-manifold', z3.And(e.f['f1_id_'].f['has'], e.f['f2_id_'].f['has'])),
            ('edge-nodes-and-faces-are-slots', z3.And(e.f['n1_id_'] >= 0, e.f['n1_id_'] < C.old.len(nodes(C.old, c)), e.f['n2_id_'] >= 0, e.f['n2_id_'] < C.old.len(nodes(C.old, c)),
                                                      e.f['f1_id_'].f['value'] >= 0, e.f['f1_id_'].f['value'] < C.old.len(faces(C.old, c)), e.f['f2_id_'].f['value'] >= 0, e.f['f2_id_'].f['value'] < C.old.len(faces(C.old, c)))),
            ('node-ids-are-their-slots', z3.And(C.old.f(C.old.elem(nodes(C.old, c), e.f['n1_id_']), 'node.node_id_') == e.f['n1_id_'], C.old.f(C.old.elem(nodes(C.old, c), e.f['n2_id_']), 'node.node_id_') == e.f['n2_id_']))]


def can_merge_post(C):
    if C.outcome != 'ret': return [('no-exception', z3.BoolVal(C.outcome == 'throw:mesh_integrity_exception'))]
    g = C.post_state.ghost
    e = C.val('e_ab')
    if g.get('isect_count', 0) != 1 or g.get('ring_count', 0) != 2:
        return [('the-answer-comes-from-the-common-neighbours-of-the-two-end-nodes', z3.BoolVal(False))]
    return [('the-neighbour-rings-of-the-two-end-nodes-are-intersected', z3.And(g['ring_0_node'] == e.f['n1_id_'], g['ring_1_node'] == e.f['n2_id_'],
                                                                                 z3.Or(z3.And(g['isect_a'] == g['ring_0_list'], g['isect_b'] == g['ring_1_list']), z3.And(g['isect_a'] == g['ring_1_list'], g['isect_b'] == g['ring_0_list'])),
                                                                                 g['isect_whole'])),
            ('collapse-is-allowed-iff-exactly-two-common-neighbours', C.ret == (g['isect_card'] == 2))]


def can_be_merged_contract(prop):
    ring = Contract('cell::get_connected_nodes', prop, assumed=True, frame=lambda C: [], ret_model=neighbour_list('ring'),
                    name='cell::get_connected_nodes (the ring of neighbours of a node; side-effect free)')
    return Contract('local_mesh_refiner::can_be_merged', prop, pre=can_merge_pre, post=can_merge_post, use=[ring], safety={'bounds', 'null-deref'},
                    name='local_mesh_refiner::can_be_merged(link condition)')


# ---- cell::check_face_winding_order (static helper) ---------------------------------------------------------------------------------------------------------
def cfwo_pre(C):
    o = C.old
    r = C.arg('ref_face').ref; f = C.arg('f').ref
    rn = [o.f(r, 'face.n%d_id_' % j) for j in (1, 2, 3)]; fn = [o.f(f, 'face.n%d_id_' % j) for j in (1, 2, 3)]
    common = sum([z3.If(x == y, 1, 0) for x in rn for y in fn])
    return [('two-different-faces', r != f), ('faces-have-three-different-nodes-each', z3.And(rn[0] != rn[1], rn[1] != rn[2], rn[0] != rn[2], fn[0] != fn[1], fn[1] != fn[2], fn[0] != fn[2])),
            ('faces-share-exactly-one-edge', common == 2)]


def traverses(nodes, u, v):
    """the cyclic order nodes[0] -> nodes[1] -> nodes[2] -> nodes[0] goes from u to v"""
    return z3.Or(z3.And(nodes[0] == u, nodes[1] == v), z3.And(nodes[1] == u, nodes[2] == v), z3.And(nodes[2] == u, nodes[0] == v))


def cfwo_post(C):
    if C.outcome != 'ret': return [('does-not-throw', z3.BoolVal(False))]
    o, n = C.old, C.new
    r = C.arg('ref_face').ref; f = C.arg('f').ref
    rn = [o.f(r, 'face.n%d_id_' % j) for j in (1, 2, 3)]
    f0 = [o.f(f, 'face.n%d_id_' % j) for j in (1, 2, 3)]; f1 = [n.f(f, 'face.n%d_id_' % j) for j in (1, 2, 3)]
    u, v = z3.Ints('common_u common_v')
    shared = z3.And(u != v, z3.Or(*[x == u for x in rn]), z3.Or(*[x == v for x in rn]), z3.Or(*[x == u for x in f0]), z3.Or(*[x == v for x in f0]))
    return [('face-keeps-its-nodes-possibly-with-first-and-third-exchanged', z3.Or(z3.And(*[a == b for a, b in zip(f1, f0)]), z3.And(f1[0] == f0[2], f1[1] == f0[1], f1[2] == f0[0]))),
            ('the-shared-edge-is-traversed-in-opposite-directions-afterwards', z3.Implies(z3.And(shared, traverses(rn, u, v)), traverses(f1, v, u))),
            ('reference-face-untouched', z3.And(*[n.f(r, 'face.n%d_id_' % j) == o.f(r, 'face.n%d_id_' % j) for j in (1, 2, 3)])),
            ('cover:winding-corrected', f1[0] != f0[0]), ('cover:winding-kept', f1[0] == f0[0])]


def check_winding_contract(prop, assumed=False):
    return Contract('cell::check_face_winding_order', prop, pre=cfwo_pre, post=cfwo_post, assigns=['face.n1_id_', 'face.n3_id_', 'vec.*'], assumed=assumed,
                    safety=() if assumed else {'bounds'}, name='cell::check_face_winding_order' + (' (own contract)' if assumed else ''))


# ---- cell::is_manifold --------------------------------------------------------------------------------------------------------------------------------
def is_manifold_post(C):
    if C.outcome != 'ret': return [('does-not-throw', z3.BoolVal(False))]
    o = C.old
    c = C.this
    s = eset(o, c)
    nbn = o.len(nodes(o, c)) - o.len(fnq(o, c)); nbf = o.len(faces(o, c)) - o.len(ffq(o, c))
    ne = o.f(s, 'set.size')
    return [('yes-only-if-every-stored-edge-has-two-faces', QForall(lambda k: z3.Implies(z3.And(C.ret, member(o, s, k)), z3.And(stored(o, s, k, 'f1_id_.has'), stored(o, s, k, 'f2_id_.has'))), 1, 'edges')),
            ('yes-only-if-the-euler-characteristic-is-two', z3.Implies(C.ret, nbn - ne + nbf == 2))]


def is_manifold_pre(C):
    o = C.old; c = C.this
    big = 2 ** 31 - 1
    return [('counts-fit-in-an-int', z3.And(o.len(nodes(o, c)) <= big, o.len(faces(o, c)) <= big, o.f(eset(o, c), 'set.size') <= big, o.f(eset(o, c), 'set.size') >= 0,
                                            o.len(fnq(o, c)) <= o.len(nodes(o, c)), o.len(ffq(o, c)) <= o.len(faces(o, c))))]


def is_manifold_contract(prop):
    return Contract('cell::is_manifold', prop, pre=is_manifold_pre, post=is_manifold_post, assigns=[], safety={'bounds'}, name='cell::is_manifold')


# ---- cell::replace_node, an arbitrary iteration of its walk around the old node: the visited face keeps its orientation -------------------------------
def replace_node_body_contract(prop, safety=()):
    """the only face whose node triple changes gets exactly 'old id replaced by new id' at the same positions of the triple: the cyclic order
    (winding) of every face is the one it had (hypothesis of the closed-oriented-surface lemma used by the volume / C14; clause of C01)"""
    def pre(C):
        o = C.old
        fl = o.sub(C.this, 'cell.face_lst_'); nl = o.sub(C.this, 'cell.node_lst_')
        it = [v for k_, v in C.pre_state.env.items() if C.e.var_names.get(k_) == 'edge_it'][0]
        s = eset(o, C.this); k = it.f['key']
        old_id = C.arg('old_node_id')
        out = [('node-ids-in-range', z3.And(old_id >= 0, old_id < o.len(nl), C.arg('new_node_id') >= 0, C.arg('new_node_id') < o.len(nl), old_id != C.arg('new_node_id'))),
               ('lists-nonneg', z3.And(o.len(fl) >= 0, o.len(nl) >= 0)),
               # loop invariant of the walk: the current edge is an edge of this cell that ends at the old node and has two faces (C01: manifold)
               ('current-edge-is-a-stored-edge-at-the-old-node', z3.And(it.f['ref'] == s, z3.Not(it.f['end']), member(o, s, k),
                                                                        z3.Or(stored(o, s, k, 'n1_id_') == old_id, stored(o, s, k, 'n2_id_') == old_id),
                                                                        stored(o, s, k, 'f1_id_.has'), stored(o, s, k, 'f2_id_.has')))]
        # mesh invariant (C01): the two faces of a stored edge are live faces of the cell with three distinct nodes, among them the edge's end points
        for side in ('f1_id_', 'f2_id_'):
            fid = stored(o, s, k, side + '.value')
            F = o.elem(fl, fid)
            ids = [o.f(F, 'face.n%d_id_' % j) for j in (1, 2, 3)]
            out.append(('face-%s-of-the-edge-is-a-triangle-at-the-old-node' % side[:2],
                        z3.And(fid >= 0, fid < o.len(fl), z3.Distinct(*ids), z3.Or(*[i == old_id for i in ids]), *[z3.And(i >= 0, i < o.len(nl)) for i in ids])))
        return out

    def post(C):
        o, n = C.old, C.new
        g = z3.Int('any_face')
        old_id, new_id = C.arg('old_node_id'), C.arg('new_node_id')
        sub = lambda x: z3.If(x == old_id, new_id, x)
        ids_o = [o.f(g, 'face.n%d_id_' % k) for k in (1, 2, 3)]
        ids_n = [n.f(g, 'face.n%d_id_' % k) for k in (1, 2, 3)]
        same = z3.And(*[a == b for a, b in zip(ids_n, ids_o)])
        replaced = z3.And(*[a == sub(b) for a, b in zip(ids_n, ids_o)])
        return [('every-face-keeps-its-node-order-up-to-the-replacement', z3.Or(same, replaced))]
    return Contract('cell::replace_node', prop, pre=pre, post=post, slice_loop=0, safety=set(safety),
                    name='cell::replace_node::<walk around the old node, loop body: orientation kept>')


# ---- local_mesh_refiner::refine_mesh, prologue: the work list is a copy of the edge set the length checks will run on ---------------------------------
def refine_prologue_contract(prop):
    """up to the entry of the length-check loop: `edge_to_check_set` holds exactly the edges the cell has at that point (after the sliver removal,
    which rewires edges: a copy taken earlier lists edges that no longer exist and face ids of recycled slots)"""
    anything = lambda qn, note: Contract(qn, prop, frame=lambda C: [('*', None)], name=qn + ' (' + note + ')')

    def post(C):
        if C.outcome != 'loop-entry': return []
        n = C.new
        c = C.val('c').ref
        local = [v for k, v in C.post_state.env.items() if C.e.var_names.get(k) == 'edge_to_check_set'][0]
        s = eset(n, c)
        k = z3.Int('any_edge_key')
        same = z3.And(member(n, local.ref, k) == member(n, s, k), *[z3.Implies(member(n, s, k), stored(n, local.ref, k, l) == stored(n, s, k, l)) for l in EDGE_LEAVES])
        return [('the-work-list-is-the-current-edge-set-of-the-cell', same)]

    return Contract('local_mesh_refiner::refine_mesh', prop, pre=lambda C: [('cell-non-null', C.val('c').ref > 0)], post=post, prefix_loop=0,
                    use=[anything('local_mesh_refiner::remove_elongated_triangles', 'edge swaps: any effect on the mesh'), anything('cell::update_centroid', 'any effect')],
                    name='local_mesh_refiner::refine_mesh::<prologue: the work list is the current edge set>')
