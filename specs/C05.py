"""C05 - point-to-triangle kernel: contract on contact_model_abstract::compute_node_triangle_distance.

Postconditions are the property statement: barycentric coordinates sum to one, are non-negative, the returned
squared distance is |p - q|^2 for q = u a + v b + w c, and q is the closest point of the triangle (first-order
optimality at the three vertices; for a convex set this is equivalent to being the minimiser).
The two non-linear clauses are proved through the Gram abstraction (5 reals instead of 12)."""
import z3
from spec import Contract, V3, Relational
from values import Rec
from prove import Via, Lemma

PROP = 'C05'
FN = 'contact_model_abstract::compute_node_triangle_distance'


def inputs(C):
    return [V3.of(C.val(n)) for n in ('p', 'a', 'b', 'c')]


def pre(C):
    p, a, b, c = inputs(C)
    n = (b - a).cross(c - a)
    return [('non-degenerate', n.sq() > 0)]


def post(C):
    p, a, b, c = inputs(C)
    d2 = C.ret.f['first']; bary = V3.of(C.ret.f['second'])
    u, v, w = bary.x, bary.y, bary.z
    q = a * u + b * v + c * w
    ab, ac, ap = b - a, c - a, p - a
    ghosts = {'A': ab.sq(), 'B': ab.dot(ac), 'C': ac.sq(), 'D1': ab.dot(ap), 'D2': ac.dot(ap)}
    closest = [(p - q).dot(a - q), (p - q).dot(b - q), (p - q).dot(c - q)]

    U, V, W = z3.Real('U!gen'), z3.Real('V!gen'), z3.Real('W!gen')
    qg = a * U + b * V + c * W
    closest_gen = [(p - qg).dot(a - qg), (p - qg).dot(b - qg), (p - qg).dot(c - qg)]

    def common(G):
        A, B, Cc, D1, D2 = G['A'], G['B'], G['C'], G['D1'], G['D2']
        return {'candidates': [D1, D2, D1 - A, D2 - B, D1 - B, D2 - Cc],
                'lemmas': [Lemma('gram-det-positive', A * Cc - B * B > 0, 'pre'),      # Lagrange: |ab x ac|^2 = AC - B^2
                           Lemma('A-nonneg', A >= 0, 'ghost'), Lemma('C-nonneg', Cc >= 0, 'ghost')]}

    def via_nonneg(G):
        r = common(G); r['goal'] = z3.And(u >= 0, v >= 0, w >= 0); return r

    def via_closest(G):
        A, B, Cc, D1, D2 = G['A'], G['B'], G['C'], G['D1'], G['D2']
        r = common(G)

        def gram_form(v_, w_):
            e1 = D1 - v_ * A - w_ * B          # (p-q).ab
            e2 = D2 - v_ * B - w_ * Cc         # (p-q).ac
            return [-(v_ * e1 + w_ * e2), (1 - v_) * e1 - w_ * e2, -v_ * e1 + (1 - w_) * e2]
        gen = gram_form(V, W)
        r['lemmas'] = r['lemmas'] + [
            Lemma('gram-form-of-optimality', z3.Implies(U + V + W == 1, z3.And(*[x == y for x, y in zip(closest_gen, gen)])),
                  'ghost', subst=[(U, u), (V, v), (W, w)]),
            Lemma('bary-sum', u + v + w == 1, 'full')]
        r['goal'] = z3.And(*[g <= 0 for g in gram_form(v, w)])
        # cuts that hold in the interior region only (tried, used when proved): (v,w) solve the 2x2 normal equations
        det = A * Cc - B * B
        r['hints'] = [v * det == Cc * D1 - B * D2, w * det == A * D2 - B * D1,
                      D1 - v * A - w * B == 0, D2 - v * B - w * Cc == 0]
        return r

    return [('bary-sum', u + v + w == 1),
            ('bary-nonneg', z3.And(u >= 0, v >= 0, w >= 0), Via(ghosts, via_nonneg)),
            ('dist', d2 == (p - q).sq()),
            ('closest', z3.And(*[t <= 0 for t in closest]), Via(ghosts, via_closest))]


def safety_via(C, ob):
    # the engine's division-by-zero obligations are stated over the code's own locals: same abstraction, goal unchanged
    p, a, b, c = inputs(C)
    ab, ac, ap = b - a, c - a, p - a
    ghosts = {'A': ab.sq(), 'B': ab.dot(ac), 'C': ac.sq(), 'D1': ab.dot(ap), 'D2': ac.dot(ap)}

    def build(G):
        A, B, Cc, D1, D2 = G['A'], G['B'], G['C'], G['D1'], G['D2']
        return {'candidates': [D1, D2, D1 - A, D2 - B, D1 - B, D2 - Cc],
                'lemmas': [Lemma('gram-det-positive', A * Cc - B * B > 0, 'pre'),
                           Lemma('A-nonneg', A >= 0, 'ghost'), Lemma('C-nonneg', Cc >= 0, 'ghost')]}
    return Via(ghosts, build)


T = V3(z3.Real('t!x'), z3.Real('t!y'), z3.Real('t!z'))


def translate(C):
    def tr(name):
        v = V3.of(C.val(name)) + T
        return Rec('vec3', {'dx_': v.x, 'dy_': v.y, 'dz_': v.z})
    return {n: tr(n) for n in ('p', 'a', 'b', 'c')}


def same_result(C, r1, r2):
    return z3.And(r1.f['first'] == r2.f['first'], V3.of(r1.f['second']).eq(V3.of(r2.f['second'])))


def build(reg):
    reg.add(Contract(FN, PROP, pre=pre, post=post, safety={'fdiv-zero'}, name_locals=1, safety_via=safety_via,
                     relational=[Relational('translation-invariance', translate, same_result, [T.x, T.y, T.z])]))


# ------------------------------------------------------------------------------------------------ native replay
DRIVER = r'''
#include "contact_model_abstract.hpp"
#include <cstdio>
#include <cstdlib>
#include <cmath>
typedef long double LD;
struct P3 { LD x, y, z; };
static P3 sub(P3 a, P3 b){ return {a.x-b.x, a.y-b.y, a.z-b.z}; }
static P3 add(P3 a, P3 b){ return {a.x+b.x, a.y+b.y, a.z+b.z}; }
static P3 mul(P3 a, LD k){ return {a.x*k, a.y*k, a.z*k}; }
static LD dot(P3 a, P3 b){ return a.x*b.x + a.y*b.y + a.z*b.z; }
static LD seg(P3 p, P3 a, P3 b){ P3 ab = sub(b,a); LD t = dot(sub(p,a),ab)/dot(ab,ab); if(t<0) t=0; if(t>1) t=1; P3 q = add(a,mul(ab,t)); return dot(sub(p,q),sub(p,q)); }
// independent oracle: minimum over the three edges and, when the projection falls inside, the face
static LD oracle(P3 p, P3 a, P3 b, P3 c){
  LD best = seg(p,a,b); LD d = seg(p,a,c); if(d<best) best=d; d = seg(p,b,c); if(d<best) best=d;
  P3 ab = sub(b,a), ac = sub(c,a), ap = sub(p,a);
  LD A = dot(ab,ab), B = dot(ab,ac), C = dot(ac,ac), D1 = dot(ab,ap), D2 = dot(ac,ap), det = A*C-B*B;
  LD v = (C*D1-B*D2)/det, w = (A*D2-B*D1)/det;
  if(v>=0 && w>=0 && v+w<=1){ P3 q = add(a, add(mul(ab,v), mul(ac,w))); d = dot(sub(p,q),sub(p,q)); if(d<best) best=d; }
  return best;
}
int main(int argc, char** argv){
  double x[12]; for(int i=0;i<12;i++) x[i] = strtod(argv[1+i], nullptr);
  vec3 p(x[0],x[1],x[2]), a(x[3],x[4],x[5]), b(x[6],x[7],x[8]), c(x[9],x[10],x[11]);
  auto r = contact_model_abstract::compute_node_triangle_distance(p,a,b,c);
  double d2 = r.first; double u = r.second.dx(), v = r.second.dy(), w = r.second.dz();
  P3 P{x[0],x[1],x[2]}, A{x[3],x[4],x[5]}, B{x[6],x[7],x[8]}, C{x[9],x[10],x[11]};
  LD ref = oracle(P,A,B,C);
  P3 q = add(mul(A,u), add(mul(B,v), mul(C,w)));
  LD dq = dot(sub(P,q),sub(P,q));
  LD scale = 1; for(int i=0;i<12;i++) if(std::fabs(x[i])>scale) scale = std::fabs(x[i]); scale *= scale;
  int bad = 0;
  printf("kernel: d2=%.17g bary=(%.17g, %.17g, %.17g)\n", d2, u, v, w);
  printf("oracle: min squared distance=%.17Lg ; |p-q(bary)|^2=%.17Lg\n", ref, dq);
  if(std::fabs(u+v+w-1) > 1e-9){ printf("FAIL bary-sum\n"); bad=1; }
  if(u < -1e-9 || v < -1e-9 || w < -1e-9){ printf("FAIL bary-nonneg\n"); bad=1; }
  if(std::fabs((LD)d2 - dq) > 1e-9*scale){ printf("FAIL dist: returned squared distance differs from |p-q|^2\n"); bad=1; }
  if(std::fabs(dq - ref) > 1e-9*scale){ printf("FAIL closest: designated point is not the closest point\n"); bad=1; }
  if(!bad) printf("OK\n");
  return bad;
}
'''
ORDER = ['p.dx_', 'p.dy_', 'p.dz_', 'a.dx_', 'a.dy_', 'a.dz_', 'b.dx_', 'b.dy_', 'b.dz_', 'c.dx_', 'c.dy_', 'c.dz_']


def _vals(ins):
    out = []
    for nm in ORDER:
        v = [val for k, val in ins.items() if k.split('!')[0] == nm]
        if not v: return None
        try: out.append(float(v[0]))
        except Exception: return None
    return out


def replay(ob, ins, run):
    import native
    vals = _vals(ins)
    if vals is None: return {'confirmed': None, 'output': 'model does not assign every input'}
    code, out = native.run_driver(DRIVER, ['%r' % v for v in vals])
    return {'confirmed': code == 1, 'exit': code, 'output': out, 'args': vals,
            'driver': 'specs/C05.py:DRIVER (calls the real contact_model_abstract::compute_node_triangle_distance built from the current tree)'}


def replay_recorded(data):
    import native
    vals = data.get('native', {}).get('args')
    if not vals: return {'confirmed': False, 'output': 'no recorded inputs'}
    code, out = native.run_driver(DRIVER, ['%r' % v for v in vals])
    return {'confirmed': code == 1, 'output': out}


EXPLANATION = ("One contract on the real kernel, executed from clang's AST of the current tree on symbolic p,a,b,c (12 reals); "
               "7 return paths; per path: barycentric sum, non-negativity, returned d2 == |p-q|^2, first-order optimality of q at the "
               "three vertices (equivalent to q being the closest point of the convex triangle), and no division by zero. "
               "Non-linear clauses go through the Gram abstraction: the code's own dot products are matched (lemma per local) to "
               "D1, D2, D1-A, D2-B, D1-B, D2-C and the goal is proved over (A,B,C,D1,D2) with AC-B^2>0 (Lagrange identity lemma). "
               "Translation invariance follows from the postconditions (they determine d2 and, for a non-degenerate triangle, "
               "(u,v,w) uniquely, and both are functions of differences only); it is additionally stated as lemma obligations.")
ASSUMPTIONS = ["exact real arithmetic: 'up to rounding' in the property is not quantified",
               "rotation invariance is a mathematical consequence of the four postconditions (they characterise the result uniquely), not a separate machine-checked obligation"]
UNVERIFIED = ["callers of the kernel (covered by C06/C07)"]
