"""C06 - contact detection finds every node-face pair within the interaction range.
A chain of contracts (D0 constructor, D1 face boxes, D2 box test + geometric lemma, D3 grid filling, D4 candidate loop) whose
composition is: the broad phase discards a node-face pair only if their distance is at least the cut-off."""
import z3, fractions
from spec import Contract, V3, LoopContract, View
from values import QForall, ObjLV, Ptr
import C18, C20

PROP = 'C06'
CONFIGS = [{'SIMUCELL3D_VERIF_CONTACT_MODEL_INDEX': 1}, {'SIMUCELL3D_VERIF_CONTACT_MODEL_INDEX': 0}, {'SIMUCELL3D_VERIF_CONTACT_MODEL_INDEX': 2}]
I = z3.IntSort(); R = z3.RealSort()
CM = 'contact_model_abstract.'
AX = ('x', 'y', 'z')
EPS = z3.RealVal(fractions.Fraction(1, 2 ** 52))


def lv(C, name, st=None):
    st = st or C.pre_state
    for k, v in st.env.items():
        if C.e.var_names.get(k) == name and not str(k).startswith(('tmp!', 'glob!', 'param', 'rangeidx!')): return v
    raise KeyError(name)


def val(C, name, st=None):
    v = lv(C, name, st)
    from values import LVS
    if isinstance(v, LVS) and not isinstance(v, ObjLV): return C.e.load(st or C.pre_state, v)
    return v


def face_nodes_pos(view, f):
    c = view.f(f, 'face.owner_cell_')
    lst = view.sub(c, 'cell.node_lst_')
    return [view.v3(view.elem(lst, view.f(f, 'face.n%d_id_' % k)), 'node.pos_') for k in (1, 2, 3)]


def mn3(a, b, c):
    m = z3.If(b < a, b, a); return z3.If(c < m, c, m)


def mx3(a, b, c):
    m = z3.If(a < b, b, a); return z3.If(m < c, c, m)


# ---- D1: update_face_aabbs, arbitrary iteration -----------------------------------------------------------------------------
def pre_aabb_body(C):
    o = C.old
    i = val(C, 'i')
    faces = o.sub(C.this, CM + 'face_lst_'); boxes = o.sub(C.this, CM + 'face_aabb_lst_')
    f = o.at(faces, i, 'int')
    c = o.f(f, 'face.owner_cell_')
    n = o.len(o.sub(c, 'cell.node_lst_'))
    return [('face-index-in-range', z3.And(i >= 0, i < o.len(faces))),
            ('boxes-of-the-previous-faces-are-stored', o.len(boxes) == 6 * i),
            ('face-and-owner-non-null', z3.And(f > 0, c > 0)),
            ('node-ids-in-range', z3.And(*[z3.And(o.f(f, 'face.n%d_id_' % k) >= 0, o.f(f, 'face.n%d_id_' % k) < n) for k in (1, 2, 3)])),
            ('padding-nonneg', o.f(C.this, CM + 'aabb_padding_') >= 0)]


def post_aabb_body(C):
    o, n = C.old, C.new
    i = val(C, 'i')
    faces = o.sub(C.this, CM + 'face_lst_'); boxes = o.sub(C.this, CM + 'face_aabb_lst_')
    f = o.at(faces, i, 'int')
    x = face_nodes_pos(o, f)
    pad = o.f(C.this, CM + 'aabb_padding_')
    out = [('one-box-appended', n.len(boxes) == 6 * (i + 1))]
    for a, comps in enumerate(zip(x[0].comps(), x[1].comps(), x[2].comps())):
        lo = mn3(*comps) - pad; hi = mx3(*comps) + pad
        out.append(('box-%s-is-the-padded-extent-of-the-face' % AX[a], z3.And(n.at(boxes, 6 * i + a, 'real') == lo, n.at(boxes, 6 * i + 3 + a, 'real') == hi)))
        gmin0, gmin1 = o.f(C.this, CM + 'global_min_%s_' % AX[a]), n.f(C.this, CM + 'global_min_%s_' % AX[a])
        gmax0, gmax1 = o.f(C.this, CM + 'global_max_%s_' % AX[a]), n.f(C.this, CM + 'global_max_%s_' % AX[a])
        out.append(('global-box-%s-contains-the-face-box-and-only-grows' % AX[a], z3.And(gmin1 <= lo, gmin1 <= gmin0, gmax1 >= hi, gmax1 >= gmax0)))
    k = z3.Int('earlier_entry')
    out.append(('earlier-boxes-untouched', z3.Implies(z3.And(k >= 0, k < 6 * i), n.at(boxes, k, 'real') == o.at(boxes, k, 'real'))))
    return out


def post_aabb_prologue(C):
    n = C.new
    boxes = n.sub(C.this, CM + 'face_aabb_lst_')
    return [('box-list-starts-empty', n.len(boxes) == 0), ('loop-starts-at-the-first-face', val(C, 'i', C.post_state) == 0)]


# ---- D2: the box test and the geometric lemma --------------------------------------------------------------------------------------
def pre_check(C):
    o = C.old
    boxes = o.sub(C.this, CM + 'face_aabb_lst_')
    p = C.val('face_aabb_pos')
    return [('box-position-in-range', z3.And(p >= 0, p + 5 < o.len(boxes)))]


def post_check(C):
    o = C.old
    boxes = o.sub(C.this, CM + 'face_aabb_lst_')
    p = C.val('face_aabb_pos'); q = V3.of(C.val('node_pos')).comps()
    inside = z3.And(*[z3.And(q[a] >= o.at(boxes, p + a, 'real'), q[a] <= o.at(boxes, p + 3 + a, 'real')) for a in range(3)])
    return [('true-iff-the-point-is-inside-the-box', C.ret == inside)]


def lemmas(reg):
    x1, x2, x3, p, u, v, w, pad = z3.Reals('ax1 ax2 ax3 ap au av aw apad')
    q = u * x1 + v * x2 + w * x3
    lo = mn3(x1, x2, x3) - pad; hi = mx3(x1, x2, x3) + pad
    hyps = [u >= 0, v >= 0, w >= 0, u + v + w == 1, pad >= 0, (p - q) * (p - q) < pad * pad]
    reg.lemma('point-within-the-padding-of-the-face-is-inside-its-box', PROP, hyps, z3.And(lo <= p, p <= hi),
              note='per axis: q a convex combination of the three nodes and |p-q| < padding imply min-pad <= p <= max+pad; |p_x-q_x|^2 <= |p-q|^2 gives the per-axis hypothesis from the Euclidean one',
              inputs=[x1, x2, x3, p, u, v, w, pad])
    a, b, m, s = z3.Reals('ma mb mm ms')
    nn = z3.Int('mnn')
    cl = lambda t: z3.If(z3.ToInt(t) < nn - 1, z3.ToInt(t), nn - 1)
    reg.lemma('voxel-index-is-monotone', PROP, [s > 0, a <= b], cl((a - m) / s) <= cl((b - m) / s),
              note='the (clamped) voxel index floor((x-min)/size) is monotone in x: a point inside a face box falls in a voxel between the voxels of the box corners', inputs=[a, b, m, s, nn])


# ---- D3: store_face_in_uspg ---------------------------------------------------------------------------------------------------------------
G = 'uspg_abstract.'


def grid(view, this):
    return view.sub(this, CM + 'grid_')


def update_dims_contract():
    """uspg_4d<face*>::update_dimensions as proved in C20 (postconditions restated on the grid object)"""
    def post(C):
        o, n = C.old, C.new
        this = C.this
        s = o.f(this, G + 'voxel_size_')
        out = [('voxel-size-kept', n.f(this, G + 'voxel_size_') == s)]
        for a in AX:
            lo, hi = C.val('min_' + a), C.val('max_' + a)
            nb = n.f(this, G + 'nb_voxels_%s_' % a)
            out.append(('nb-' + a, z3.And(nb >= 1, nb < C20.MAXV)))
            out.append(('min-' + a, n.f(this, G + 'min_%s_' % a) == lo - EPS))
            q = (hi - (lo - EPS)) / s
            out.append(('count-' + a, z3.And(z3.ToReal(nb) >= q, z3.ToReal(nb) < q + 1)))
        lst = n.sub(this, 'uspg_4d<face *>.voxel_lst_')
        out.append(('slots', n.len(lst) == n.f(this, G + 'nb_voxels_x_') * n.f(this, G + 'nb_voxels_y_') * n.f(this, G + 'nb_voxels_z_')))
        return out
    fr = lambda C: [(G + f, [C.this.ref]) for f in ('nb_voxels_x_', 'nb_voxels_y_', 'nb_voxels_z_', 'min_x_', 'min_y_', 'min_z_', 'max_x_', 'max_y_', 'max_z_')] + \
        [('vec.len', None), ('flist.len', None), ('flist.count', None), ('vec.epoch', None)]
    return Contract('uspg_4d<face *>::update_dimensions', PROP, pre=C20.pre_update, post=post, frame=fr, assumed=True, name='uspg_4d<face*>::update_dimensions (C20 contract)')


def pre_store_prologue(C):
    o = C.old
    g = grid(o, C.this)
    s = o.f(g, G + 'voxel_size_')
    out = [('voxel-size-positive', s > 0)]
    for a in AX:
        lo, hi = o.f(C.this, CM + 'global_min_%s_' % a), o.f(C.this, CM + 'global_max_%s_' % a)
        out += [('global-box-%s-non-empty' % a, lo < hi), ('global-box-%s-fewer-than-2^20-voxels' % a, (hi + EPS - lo) / s < C20.MAXV - 2)]
    return out


def post_store_prologue(C):
    o, n = C.old, C.new
    g = grid(n, C.this)
    out = []
    for a in AX:
        out.append(('grid-origin-%s-is-just-below-the-global-box' % a, n.f(g, G + 'min_%s_' % a) == o.f(C.this, CM + 'global_min_%s_' % a) - EPS))
    return out


def pre_store_face(C):
    """arbitrary face i, state as left by the prologue and by D1"""
    o = C.old
    i = val(C, 'i')
    faces = o.sub(C.this, CM + 'face_lst_'); boxes = o.sub(C.this, CM + 'face_aabb_lst_')
    g = grid(o, C.this)
    s = o.f(g, G + 'voxel_size_')
    out = [('face-index-in-range', z3.And(i >= 0, i < o.len(faces))), ('every-face-has-its-box', o.len(boxes) == 6 * o.len(faces)),
           ('voxel-size-positive', s > 0)]
    for a, ax in enumerate(AX):
        lo, hi = o.at(boxes, 6 * i + a, 'real'), o.at(boxes, 6 * i + 3 + a, 'real')
        gmin = o.f(g, G + 'min_%s_' % ax); nb = o.f(g, G + 'nb_voxels_%s_' % ax)
        gmax = o.f(C.this, CM + 'global_max_%s_' % ax)
        out += [('face-box-%s-ordered' % ax, lo <= hi),
                # D1: the global box contains the face box; prologue: the grid starts just below the global box and counts ceil(extent/size) voxels
                ('face-box-%s-inside-the-global-box' % ax, z3.And(gmin < lo, hi <= gmax)),
                ('grid-counts-the-voxels-of-the-global-box-%s' % ax, z3.And(nb >= 1, nb < C20.MAXV, z3.ToReal(nb) >= (gmax - gmin) / s, z3.ToReal(nb) < (gmax - gmin) / s + 1))]
    return out


def post_store_ranges(C):
    o = C.old
    i = val(C, 'i')
    boxes = o.sub(C.this, CM + 'face_aabb_lst_')
    g = grid(o, C.this); s = o.f(g, G + 'voxel_size_')
    out = []
    for a, ax in enumerate(AX):
        lo, hi = o.at(boxes, 6 * i + a, 'real'), o.at(boxes, 6 * i + 3 + a, 'real')
        gmin = o.f(g, G + 'min_%s_' % ax); nb = o.f(g, G + 'nb_voxels_%s_' % ax)
        st_, sp_ = C.local('voxel_%s_start' % ax), C.local('voxel_%s_stop' % ax)
        clamp = lambda v: z3.If(v < nb - 1, v, nb - 1)
        out.append(('range-%s-starts-at-the-voxel-of-the-box-minimum' % ax, st_ == clamp(z3.ToInt((lo - gmin) / s))))
        out.append(('range-%s-reaches-the-voxel-of-the-box-maximum' % ax, sp_ == clamp(z3.ToInt((hi - gmin) / s))))
        out.append(('range-%s-stays-inside-the-grid' % ax, z3.And(st_ >= 0, sp_ < nb)))
    out.append(('voxel-loop-starts-at-the-range-start', C.local('voxel_x') == C.local('voxel_x_start')))
    return out


def place_contract():
    def post(C):
        o, n = C.old, C.new
        lst = o.sub(C.this, 'uspg_4d<face *>.voxel_lst_')
        vid = C.val('voxel_id'); obj = C.val('object').ref
        return [('placed', n.arr('flist.count')[n.elem(lst, vid)][obj] == o.arr('flist.count')[o.elem(lst, vid)][obj] + 1)]
    return Contract('uspg_4d<face *>::place_object', PROP, signature='const size_t)', pre=C20.pre_place, post=post,
                    frame=lambda C: [('flist.count', None), ('flist.len', None)], assumed=True, name='uspg_4d<face*>::place_object (C20 contract)')


def flat_contract():
    return Contract('uspg_abstract::get_voxel_index', PROP, signature='(const unsigned int, const unsigned int, const unsigned int)', pre=C20.pre_flat, post=C20.post_flat,
                    frame=lambda C: [], assumed=True, name='uspg_abstract::get_voxel_index (C20 contract)')


def pre_store_body(C):
    o = C.old
    g = grid(o, C.this)
    lst = o.sub(g, 'uspg_4d<face *>.voxel_lst_')
    nb = [o.f(g, G + 'nb_voxels_%s_' % a) for a in AX]
    out = [('grid-invariant', z3.And(o.f(g, G + 'voxel_size_') > 0, *[z3.And(n_ >= 1, n_ < C20.MAXV) for n_ in nb])),
           ('one-slot-per-voxel', o.len(lst) == nb[0] * nb[1] * nb[2])]
    for a, ax in enumerate(AX):
        v = val(C, 'voxel_' + ax)
        # loop variable between the range bounds, which the range contract keeps inside the grid
        out.append(('voxel-%s-inside-the-grid' % ax, z3.And(v >= 0, v < nb[a])))
    return out


def post_store_body(C):
    o, n = C.old, C.new
    g = grid(o, C.this)
    lst = o.sub(g, 'uspg_4d<face *>.voxel_lst_')
    nb = [o.f(g, G + 'nb_voxels_%s_' % a) for a in AX]
    vx, vy, vz = [val(C, 'voxel_' + a) for a in AX]
    f = val(C, 'f').ref
    vox = o.elem(lst, vz * nb[0] * nb[1] + vy * nb[0] + vx)
    return [('the-face-is-placed-in-the-visited-voxel', n.arr('flist.count')[vox][f] == o.arr('flist.count')[vox][f] + 1)]


# ---- D4: candidate loop of the node-node model -------------------------------------------------------------------------------------------
def resolve_contract(cls='contact_node_node_via_coupling'):
    def on_call(C, st):
        from values import GuardedLog
        st.ghost['resolved'] = st.ghost.get('resolved', GuardedLog()).add((C.val('c1').ref, C.val('c2').ref, C.arg('n1').ref, C.val('f').ref))
    return Contract(cls + '::resolve_contact', PROP, frame=lambda C: [('*', None)], on_call=on_call, name='resolve_contact (any effect; call recorded)')


def aabb_contract():
    return Contract('contact_model_abstract::aabb_intersection_check', PROP, pre=pre_check, post=post_check, frame=lambda C: [], assumed=True, name='aabb_intersection_check (own contract)')


def pre_candidates(C):
    o = C.old
    f = val(C, 'f').ref
    boxes = o.sub(C.this, CM + 'face_aabb_lst_')
    gid = o.f(f, 'face.global_face_id_')
    return [('face-non-null', f > 0), ('owner-non-null', o.f(f, 'face.owner_cell_') > 0), ('c1-non-null', val(C, 'c1').ref > 0),
            ('face-has-its-box', z3.And(gid >= 0, gid * 6 + 5 < o.len(boxes)))]


def post_candidates(C, cls='contact_node_node_via_coupling'):
    o = C.old
    f = val(C, 'f').ref
    c1 = val(C, 'c1').ref; c2 = o.f(f, 'face.owner_cell_')
    n1 = lv(C, 'n')
    boxes = o.sub(C.this, CM + 'face_aabb_lst_')
    gid = o.f(f, 'face.global_face_id_')
    p = o.v3(n1, 'node.pos_').comps()
    inside = z3.And(*[z3.And(p[a] >= o.at(boxes, gid * 6 + a, 'real'), p[a] <= o.at(boxes, gid * 6 + 3 + a, 'real')) for a in range(3)])
    log = C.post_state.ghost.get('resolved')
    entries = log.entries if log is not None else []
    called = z3.Or(*[z3.And(g_, a == c1, b == c2, c == n1.ref, d == f) for (g_, (a, b, c, d)) in entries]) if entries else z3.BoolVal(False)
    other = o.f(c1, 'cell.cell_id_') != o.f(c2, 'cell.cell_id_')
    # the model's own admissibility rule uses the class constant max_dot_product_repulsion_ (whatever its value is)
    vd = [d for d in C.e.ast.by_id.values() if d.get('kind') == 'VarDecl' and d.get('name') == 'max_dot_product_repulsion_'
          and C.e.ast.record_display_name(C.e.ast.parent.get(d['id'], {})) == cls]
    maxdot = C.e.global_cache.get('glob!' + vd[0]['id']) if vd else None
    if maxdot is None: maxdot = z3.Real('ghost.max_dot_product_repulsion')
    normal_rule = o.v3(n1, 'node.normal_').dot(o.v3(f, 'face.normal_')) < maxdot
    out = [('a-face-of-another-cell-whose-box-contains-the-node-reaches-the-contact-rule', z3.Implies(z3.And(other, inside, normal_rule), called)),
           ('a-face-of-the-same-cell-never-does', z3.Implies(z3.Not(other), z3.Not(called)))]
    return out


# ---- D4 for the node-face spring model (contact model 0): same loops, no normal rule, the rule is apply_contact_forces(c1, n, f) ------------------------
def apply_contract():
    def on_call(C, st):
        from values import GuardedLog
        st.ghost['resolved'] = st.ghost.get('resolved', GuardedLog()).add((C.val('c1').ref, C.arg('n').ref, C.val('f').ref))
    return Contract('contact_node_face_via_spring::apply_contact_forces', PROP, frame=lambda C: [('*', None)], on_call=on_call, name='apply_contact_forces (any effect; call recorded)')


def post_candidates_nf(C):
    o = C.old
    f = val(C, 'f').ref
    c1 = val(C, 'c1').ref; c2 = o.f(f, 'face.owner_cell_')
    n1 = lv(C, 'n')
    boxes = o.sub(C.this, CM + 'face_aabb_lst_')
    gid = o.f(f, 'face.global_face_id_')
    p = o.v3(n1, 'node.pos_').comps()
    inside = z3.And(*[z3.And(p[a] >= o.at(boxes, gid * 6 + a, 'real'), p[a] <= o.at(boxes, gid * 6 + 3 + a, 'real')) for a in range(3)])
    log = C.post_state.ghost.get('resolved')
    entries = log.entries if log is not None else []
    called = z3.Or(*[z3.And(g_, a == c1, c == n1.ref, d == f) for (g_, (a, c, d)) in entries]) if entries else z3.BoolVal(False)
    other = o.f(c1, 'cell.cell_id_') != o.f(c2, 'cell.cell_id_')
    return [('a-face-of-another-cell-whose-box-contains-the-node-reaches-the-contact-rule', z3.Implies(z3.And(other, inside), called)),
            ('a-face-of-the-same-cell-never-does', z3.Implies(z3.Not(other), z3.Not(called)))]


def post_spring_ctor(C):
    """the node-face spring model tests distances against its own cut-off: it must not exceed the padding of the boxes (D0, model 0)"""
    n = C.new; sp = C.arg('sim_parameters')
    ca = n.f(sp, C18.GSP + 'contact_cutoff_adhesion_'); cr = n.f(sp, C18.GSP + 'contact_cutoff_repulsion_')
    mx = z3.If(ca > cr, ca, cr)
    NF = 'contact_node_face_via_spring.'
    return C18.post_contact_ctor(C) + [('own-cutoff-is-the-largest-cutoff', z3.And(n.f(C.this, NF + 'interaction_cutoff_') == mx, n.f(C.this, NF + 'interaction_cutoff_square_') == mx * mx)),
                                       ('own-cutoff-does-not-exceed-the-box-padding', n.f(C.this, NF + 'interaction_cutoff_') <= n.f(C.this, CM + 'aabb_padding_'))]


def post_cell_threshold(C):
    """cell-loop body up to the node loop: the threshold used by the node loop is the one of the cell's own type, and the nodes visited are the cell's"""
    if C.outcome != 'loop-entry': return [('every-listed-cell-has-its-nodes-visited', z3.BoolVal(False))]
    o = C.old
    lst = lv(C, 'cell_lst').ref
    c1 = val(C, 'c1', C.post_state).ref
    cont = C.post_state.ghost.get('stopped_container')
    return [('the-cell-visited-is-the-listed-one', c1 == o.at(lst, val(C, 'cell_id'), 'int')),
            ('threshold-is-the-one-of-the-cell-type', val(C, 'surface_coupling_max_curvature', C.post_state) == o.f(o.f(c1, 'cell.cell_type_'), 'cell_type_parameters.surface_coupling_max_curvature_')),
            ('the-node-loop-runs-over-the-nodes-of-that-cell', z3.BoolVal(cont is not None) if cont is None else cont.ref == o.sub(c1, 'cell.node_lst_'))]


def pre_cell_threshold(C):
    o = C.old
    lst = lv(C, 'cell_lst').ref
    i = val(C, 'cell_id')
    return [('index-is-a-size_t', i >= 0), ('cell-non-null', z3.And(o.at(lst, i, 'int') > 0, o.f(o.at(lst, i, 'int'), 'cell.cell_type_') > 0))]


# ---- D(-1): run() registers every live face of every cell, and numbers it with its position in face_lst_ ---------------------------------------------
RUN_CLS = {1: 'contact_node_node_via_coupling', 0: 'contact_node_face_via_spring', 2: 'contact_face_face_via_coupling'}


def registered(view, this, c, j):
    """face slot j of cell c is registered: its global id is a position of this->face_lst_ and that position holds a pointer to it"""
    fl = view.sub(this, CM + 'face_lst_')
    F = view.elem(view.sub(c, 'cell.face_lst_'), j)
    gid = view.f(F, 'face.global_face_id_')
    return z3.Implies(view.f(F, 'face.is_used_'), z3.And(gid >= 0, gid < view.len(fl), view.at(fl, gid, 'int') == F))


def inv_collect(L):
    if not L.st.ghost.get('collect'): return []
    cur = L.cur
    this = L.this.ref if hasattr(L.this, 'ref') else L.this
    c = L.var('c'); c = c.ref if hasattr(c, 'ref') else c
    fl = cur.sub(this, CM + 'face_lst_')
    faces_c = cur.sub(c, 'cell.face_lst_')
    if L.range_info is not None:          # for(auto& f : c->face_lst_)
        i = L.index; same = L.container.ref == faces_c
    else:                                  # an index loop over the slots of c->face_lst_ (for(size_t k = ...; ...; k++))
        nm = L.counter_name
        if nm is None: return [('the-face-loop-has-a-recognisable-counter', z3.BoolVal(False))]
        i = L.var(nm); same = z3.BoolVal(True)
    return [('numbering-follows-the-list', L.var('face_global_id') == cur.len(fl)),
            ('index-in-range', z3.And(i >= 0, i <= cur.len(faces_c))),
            ('the-faces-are-those-of-the-cell', same),
            ('every-live-face-visited-so-far-is-registered', QForall(lambda j: z3.Implies(z3.And(j >= 0, j < i), registered(cur, this, c, j)), 1, 'registered prefix'))]


def setup_collect(eng, st, args, this):
    st.ghost['collect'] = True


def pre_collect(C):
    o = C.old
    c = val(C, 'c').ref
    fl = o.sub(C.this, CM + 'face_lst_')
    return [('cell-non-null', c > 0), ('numbering-follows-the-list', val(C, 'face_global_id') == o.len(fl)), ('list-length-nonneg', o.len(fl) >= 0),
            ('the-list-of-registered-faces-is-not-a-container-of-a-cell', fl != o.sub(c, 'cell.face_lst_'))]


def post_collect(C):
    n = C.new
    c = val(C, 'c').ref
    fl = n.sub(C.this, CM + 'face_lst_')
    faces_c = n.sub(c, 'cell.face_lst_')
    return [('every-live-face-of-the-cell-is-registered-under-its-position-in-the-list', QForall(lambda j: z3.Implies(z3.And(j >= 0, j < n.len(faces_c)), registered(n, C.this, c, j)), 1, 'all registered')),
            ('numbering-still-follows-the-list', val(C, 'face_global_id', C.post_state) == n.len(fl))]


def post_collect_prologue(C):
    if C.outcome != 'loop-entry': return []
    n = C.new
    fl = n.sub(C.this, CM + 'face_lst_')
    return [('the-list-of-registered-faces-starts-empty', n.len(fl) == 0), ('the-numbering-starts-at-zero', val(C, 'face_global_id', C.post_state) == 0)]


def stage(qn, tag):
    def on_call(C, st):
        st.ghost['stages'] = st.ghost.get('stages', ()) + (tag,)
    return Contract(qn, PROP, frame=lambda C: [('*', None)], on_call=on_call, name=qn + ' (any effect; call recorded)')


def post_run_stages(C):
    if C.outcome not in (None, 'ret', 'end'): return []
    got = C.post_state.ghost.get('stages', ())
    return [('the-stages-run-once-each-in-the-order-boxes-grid-contacts', z3.BoolVal(tuple(got) == ('boxes', 'grid', 'contacts')))]


# ---- the iteration presents the tissue to the contact model: once, on the refined meshes, before the forces are integrated -------------------------------
def it_stage(qn, tag):
    def on_call(C, st):
        # only the unconditional top-level stages are recorded (a record made on one branch only would be lost at the join)
        if tag in ('refine', 'contacts', 'integrate'): st.ghost['it_stages'] = st.ghost.get('it_stages', ()) + (tag,)
    return Contract(qn, PROP, frame=lambda C: [('*', None)], on_call=on_call, assumed=True, name=qn + ' (any effect; call recorded)')


def post_iteration_stages(C):
    if C.outcome != 'ret': return []
    got = tuple(t_ for t_ in C.post_state.ghost.get('it_stages', ()) if t_ in ('refine', 'contacts', 'integrate'))
    return [('every-iteration-runs-the-contact-model-once-after-the-remeshing-and-before-the-integration', z3.BoolVal(got == ('refine', 'contacts', 'integrate')))]


def build_iteration(reg):
    hv = [it_stage('solver::save_mesh', 'save'), it_stage('cell_divider::run', 'divide'), it_stage('cell::update_face_types', 'types'),
          it_stage('local_mesh_refiner::refine_meshes', 'refine'), it_stage('contact_model_abstract::run', 'contacts'),
          it_stage('cell::special_polarization_update', 'polarize'), it_stage('cell::apply_internal_forces', 'internal'),
          it_stage('abstract_statistics_writer::write_data', 'stats'), it_stage('time_integration_scheme::update_nodes_positions', 'integrate')]
    for k in range(3):
        reg.add_loop(LoopContract('solver::run_iteration', k, lambda L: [], modifies=['*']))
    reg.add_loop(LoopContract('solver::run_iteration', 3, lambda L: [], modifies=['cell.local_id_']))
    reg.add(Contract('solver::run_iteration', PROP, pre=lambda C: [('integrator-non-null', C.old.f(C.this, 'solver.time_integrator_ptr_') > 0)], post=post_iteration_stages, use=hv,
                     name='solver::run_iteration::<the contact model runs once per iteration, between remeshing and integration>'))


def pre_node_voxel(C):
    o = C.old
    g = grid(o, C.this)
    lst = o.sub(g, 'uspg_4d<face *>.voxel_lst_')
    nb = [o.f(g, G + 'nb_voxels_%s_' % a) for a in AX]
    s = o.f(g, G + 'voxel_size_')
    n1 = lv(C, 'n')
    p = o.v3(n1, 'node.pos_').comps()
    out = [('grid-invariant', z3.And(s > 0, *[z3.And(n_ >= 1, n_ < C20.MAXV) for n_ in nb])), ('one-slot-per-voxel', o.len(lst) == nb[0] * nb[1] * nb[2]),
           ('c1-non-null', val(C, 'c1').ref > 0)]
    for a, ax in enumerate(AX):
        gmin = o.f(g, G + 'min_%s_' % ax)
        # a live node is a vertex of a live face (C01); its position lies strictly inside that face's padded box, hence inside the grid (D1, D3)
        out.append(('node-%s-inside-the-grid' % ax, z3.And(p[a] >= gmin, z3.ToInt((p[a] - gmin) / s) < nb[a])))
    return out


def post_node_voxel(C, curvature_rule=True):
    o = C.old
    if C.outcome != 'loop-entry':
        # the iteration ended without a candidate search: only a dead slot (and, in the coupling models, a node whose curvature is at or above
        # the coupling threshold of its cell type - the models' own rule) may be passed over
        n1 = lv(C, 'n')
        skip_ok = z3.Not(o.f(n1.ref, 'node.is_used_'))
        if curvature_rule:
            skip_ok = z3.Or(skip_ok, o.f(n1.ref, 'node.curvature_') >= val(C, 'surface_coupling_max_curvature'))      # the threshold variable: see <threshold of the cell>
        return [('a-node-is-passed-over-only-if-it-is-dead-or-too-curved-for-the-model' if curvature_rule else 'a-node-is-passed-over-only-if-it-is-dead', skip_ok)]
    g = grid(o, C.this)
    lst = o.sub(g, 'uspg_4d<face *>.voxel_lst_')
    nb = [o.f(g, G + 'nb_voxels_%s_' % a) for a in AX]
    s = o.f(g, G + 'voxel_size_')
    n1 = lv(C, 'n')
    p = o.v3(n1, 'node.pos_').comps()
    idx = [z3.ToInt((p[a] - o.f(g, G + 'min_%s_' % ax)) / s) for a, ax in enumerate(AX)]
    cont = C.post_state.ghost.get('stopped_container')
    if cont is None: return [('candidate-list-known', z3.BoolVal(False))]
    return [('candidates-are-the-faces-stored-in-the-voxel-of-the-node', cont.ref == o.elem(lst, idx[2] * nb[0] * nb[1] + idx[1] * nb[0] + idx[0])),
            # a dead slot keeps whatever position node::reset() left in it (the origin): it must never take part in the contact search
            ('only-live-nodes-search-for-contacts', o.f(n1.ref, 'node.is_used_'))]


def setup_maxdot(eng, st, args, this):
    pass


def build(reg, cfg):
    reg.add(Contract('contact_model_abstract::contact_model_abstract', PROP, signature='global_simulation_parameters', pre=C18.pre_contact_ctor, post=C18.post_contact_ctor,
                     name='contact_model_abstract::contact_model_abstract (D0)'))
    reg.add(Contract('contact_model_abstract::update_face_aabbs', PROP, pre=pre_aabb_body, post=post_aabb_body, slice_loop=0, safety={'bounds'},
                     name='contact_model_abstract::update_face_aabbs::<per-face body> (D1)'))
    reg.add(Contract('contact_model_abstract::update_face_aabbs', PROP, post=post_aabb_prologue, prefix_loop=0, name='contact_model_abstract::update_face_aabbs::<prologue> (D1)'))
    reg.add(Contract('contact_model_abstract::aabb_intersection_check', PROP, pre=pre_check, post=post_check, safety={'bounds'}, assigns=[],
                     name='contact_model_abstract::aabb_intersection_check (D2)'))
    reg.add(Contract('contact_model_abstract::store_face_in_uspg', PROP, pre=pre_store_prologue, post=post_store_prologue, prefix_loop=0, use=[update_dims_contract()],
                     name='contact_model_abstract::store_face_in_uspg::<prologue> (D3)'))
    reg.add(Contract('contact_model_abstract::store_face_in_uspg', PROP, pre=pre_store_face, post=post_store_ranges, slice_loop=0, prefix_loop=1, safety={'bounds', 'narrowing'},
                     name='contact_model_abstract::store_face_in_uspg::<voxel ranges of a face> (D3)'))
    reg.add(Contract('contact_model_abstract::store_face_in_uspg', PROP, pre=pre_store_body, post=post_store_body, slice_loop=3, use=[place_contract(), flat_contract()],
                     safety={'wrap'}, name='contact_model_abstract::store_face_in_uspg::<innermost body> (D3)'))
    if cfg['SIMUCELL3D_VERIF_CONTACT_MODEL_INDEX'] == 1:
        reg.add(Contract('contact_node_node_via_coupling::resolve_all_contacts', PROP, pre=pre_candidates, post=post_candidates, slice_loop=2,
                         use=[resolve_contract(), aabb_contract()], name='contact_node_node_via_coupling::resolve_all_contacts::<candidate loop body> (D4)'))
        reg.add(Contract('contact_node_node_via_coupling::resolve_all_contacts', PROP, pre=pre_node_voxel, post=post_node_voxel, slice_loop=1, prefix_loop=2,
                         safety={'bounds', 'wrap', 'narrowing'}, use=[flat_contract()],
                         name='contact_node_node_via_coupling::resolve_all_contacts::<voxel of the node> (D4)'))
    if cfg['SIMUCELL3D_VERIF_CONTACT_MODEL_INDEX'] in (1, 2):
        cls_ = {1: 'contact_node_node_via_coupling', 2: 'contact_face_face_via_coupling'}[cfg['SIMUCELL3D_VERIF_CONTACT_MODEL_INDEX']]
        reg.add(Contract(cls_ + '::resolve_all_contacts', PROP, pre=pre_cell_threshold, post=post_cell_threshold, slice_loop=0, prefix_loop=1, safety={'bounds'},
                         name=cls_ + '::resolve_all_contacts::<threshold of the cell> (D4)'))
    if cfg['SIMUCELL3D_VERIF_CONTACT_MODEL_INDEX'] == 2:
        FF = 'contact_face_face_via_coupling'
        reg.add(Contract(FF + '::resolve_all_contacts', PROP, pre=pre_candidates, post=lambda C: post_candidates(C, FF), slice_loop=2,
                         use=[resolve_contract(FF), aabb_contract()], name=FF + '::resolve_all_contacts::<candidate loop body> (D4, model 2)'))
        reg.add(Contract(FF + '::resolve_all_contacts', PROP, pre=pre_node_voxel, post=post_node_voxel, slice_loop=1, prefix_loop=2,
                         safety={'bounds', 'wrap', 'narrowing'}, use=[flat_contract()], name=FF + '::resolve_all_contacts::<voxel of the node> (D4, model 2)'))
    if cfg['SIMUCELL3D_VERIF_CONTACT_MODEL_INDEX'] == 0:
        reg.add(Contract('contact_node_face_via_spring::contact_node_face_via_spring', PROP, signature='global_simulation_parameters', pre=C18.pre_contact_ctor,
                         post=post_spring_ctor, name='contact_node_face_via_spring::contact_node_face_via_spring (D0, model 0)'))
        reg.add(Contract('contact_node_face_via_spring::resolve_contacts', PROP, pre=pre_candidates, post=post_candidates_nf, slice_loop=2,
                         use=[apply_contract(), aabb_contract()], name='contact_node_face_via_spring::resolve_contacts::<candidate loop body> (D4, model 0)'))
        reg.add(Contract('contact_node_face_via_spring::resolve_contacts', PROP, pre=pre_node_voxel, post=lambda C: post_node_voxel(C, False), slice_loop=1, prefix_loop=2,
                         safety={'bounds', 'wrap', 'narrowing'}, use=[flat_contract()],
                         name='contact_node_face_via_spring::resolve_contacts::<voxel of the node> (D4, model 0)'))
    m_ = cfg['SIMUCELL3D_VERIF_CONTACT_MODEL_INDEX']
    if m_ == 1: build_iteration(reg)
    reg.add_loop(LoopContract(RUN_CLS[m_] + '::run', 1, inv_collect, modifies=['face.global_face_id_', 'vec.len', 'vec.data.int', 'vec.epoch']))
    reg.add(Contract(RUN_CLS[m_] + '::run', PROP, pre=pre_collect, post=post_collect, slice_loop=0, setup=setup_collect, safety={'bounds'},
                     **({'prefix_loop': 2} if m_ in (1, 2) else {}),
                     name=RUN_CLS[m_] + '::run::<faces of one cell are registered and numbered> (D-1)'))
    # the statements after the registration loop (suffix that starts one statement after loop 0)
    reg.add(Contract(RUN_CLS[m_] + '::run', PROP, post=post_run_stages, suffix_loop=0, suffix_back=-1, name=RUN_CLS[m_] + '::run::<stages> (composition of D1, D3, D4)',
                     use=[stage('contact_model_abstract::update_face_aabbs', 'boxes'), stage('contact_model_abstract::store_face_in_uspg', 'grid'),
                          stage(RUN_CLS[m_] + ('::resolve_contacts' if m_ == 0 else '::resolve_all_contacts'), 'contacts')]))
    reg.add_loop(LoopContract(RUN_CLS[m_] + '::run', 'accumulate#0', lambda L: [], modifies=[]))      # the face count used for reserve(): reads only
    reg.add(Contract(RUN_CLS[m_] + '::run', PROP, post=post_collect_prologue, prefix_loop=0, name=RUN_CLS[m_] + '::run::<prologue: empty list, numbering from zero> (D-1)'))
    lemmas(reg)


# ---- bounded native check (tissue level; a stand-in for the composition of the chain, never counted as proved) -------------------------------------------
TISSUE_DRIVER = r'''
#include <cstdio>
#include <cstdlib>
#include <cmath>
#include <array>
#include <map>
#include <vector>
#include "lumen_cell.hpp"
#include "contact_model_abstract.hpp"
#if CONTACT_MODEL_INDEX == 0
  #include "contact_node_face_via_spring.hpp"
  typedef contact_node_face_via_spring model_t;
#elif CONTACT_MODEL_INDEX == 1
  #include "contact_node_node_via_coupling.hpp"
  typedef contact_node_node_via_coupling model_t;
#else
  #include "contact_face_face_via_coupling.hpp"
  typedef contact_face_face_via_coupling model_t;
#endif
// A small tissue of overlapping non-epithelial cells (no couplings: the contact forces are a plain sum over node/face pairs) placed at argv[1..3]:
// the forces computed by the real run() of the compiled contact model (grid, boxes, candidate loops) are compared with the forces obtained by
// applying the model's own per-pair rule to every node of every cell against every live face of every other cell (with the model's own
// node / normal admissibility rules and no spatial structure). Also: the contact forces of the tissue add up to zero.
static void icosphere(int sub, std::vector<double>& pos, std::vector<unsigned>& faces){
  const double t = (1. + std::sqrt(5.)) / 2.;
  std::vector<std::array<double,3>> v{{-1,t,0},{1,t,0},{-1,-t,0},{1,-t,0},{0,-1,t},{0,1,t},{0,-1,-t},{0,1,-t},{t,0,-1},{t,0,1},{-t,0,-1},{-t,0,1}};
  std::vector<std::array<unsigned,3>> f{{0,11,5},{0,5,1},{0,1,7},{0,7,10},{0,10,11},{1,5,9},{5,11,4},{11,10,2},{10,7,6},{7,1,8},{3,9,4},{3,4,2},{3,2,6},{3,6,8},{3,8,9},{4,9,5},{2,4,11},{6,2,10},{8,6,7},{9,8,1}};
  auto nrm = [](std::array<double,3>& p){ double n = std::sqrt(p[0]*p[0]+p[1]*p[1]+p[2]*p[2]); p[0]/=n; p[1]/=n; p[2]/=n; };
  for(auto& p: v) nrm(p);
  for(int s = 0; s < sub; s++){
    std::map<std::pair<unsigned,unsigned>, unsigned> cache;
    auto mid = [&](unsigned a, unsigned b){ auto k = std::make_pair(std::min(a,b), std::max(a,b)); auto it = cache.find(k); if(it != cache.end()) return it->second;
      std::array<double,3> m{(v[a][0]+v[b][0])/2, (v[a][1]+v[b][1])/2, (v[a][2]+v[b][2])/2}; nrm(m); v.push_back(m); return cache[k] = (unsigned)v.size()-1; };
    std::vector<std::array<unsigned,3>> f2;
    for(auto& tr: f){ unsigned a = mid(tr[0],tr[1]), b = mid(tr[1],tr[2]), c = mid(tr[2],tr[0]); f2.push_back({tr[0],a,c}); f2.push_back({tr[1],b,a}); f2.push_back({tr[2],c,b}); f2.push_back({a,b,c}); }
    f = f2;
  }
  for(auto& p: v){ pos.push_back(p[0]); pos.push_back(p[1]); pos.push_back(p[2]); }
  for(auto& tr: f){ faces.push_back(tr[0]); faces.push_back(tr[1]); faces.push_back(tr[2]); }
}
int main(int argc, char** argv){
  const double ox = argc > 1 ? atof(argv[1]) : 0., oy = argc > 2 ? atof(argv[2]) : 0., oz = argc > 3 ? atof(argv[3]) : 0.;
  face_type_parameters ft; ft.name_ = "f"; ft.face_type_global_id_ = 4; ft.adherence_strength_ = 0.7; ft.repulsion_strength_ = 3.0;
  auto ct = std::make_shared<cell_type_parameters>(); ct->name_ = "lumen"; ct->global_type_id_ = 2; ct->mass_density_ = 1.0; ct->surface_coupling_max_curvature_ = 1e30; ct->add_face_type(ft);
  std::vector<cell_ptr> cells;
  const double centres[4][3] = {{0,0,0},{1.85,0.1,0.05},{0.9,1.6,-0.1},{0.8,0.5,1.65}};
  for(unsigned k = 0; k < 4; k++){
    std::vector<double> pos; std::vector<unsigned> faces; icosphere(1, pos, faces);
    for(size_t j = 0; j < pos.size() / 3; j++){ pos[3*j] += centres[k][0] + ox; pos[3*j+1] += centres[k][1] + oy; pos[3*j+2] += centres[k][2] + oz; }
    auto c = std::make_shared<lumen_cell>(pos, faces, 7 + 2 * k, ct);      // persistent ids differ from the list positions
    c->initialize_cell_properties(true); c->set_local_id(k);
    c->update_all_face_normals_and_areas();
    #if CONTACT_MODEL_INDEX != 0
      c->compute_node_curvature_and_normals();
    #endif
    cells.push_back(c);
  }
  global_simulation_parameters sp; sp.min_edge_len_ = 0.25; sp.contact_cutoff_adhesion_ = 0.12; sp.contact_cutoff_repulsion_ = 0.2;
  model_t cm(sp);
  auto zero = [&](){ for(auto& c: cells) for(node& n: c->node_lst_) n.force_ = vec3(0,0,0); };
  zero();
  cm.run(cells);
  std::vector<std::vector<vec3>> got;
  for(auto& c: cells){ got.emplace_back(); for(node& n: c->node_lst_) got.back().push_back(n.force_); }
  // reference: the same rule on all pairs
  zero();
  size_t pairs = 0;
  for(auto& c1: cells){
    for(node& n: c1->node_lst_){
      if(!n.is_used()) continue;
      #if CONTACT_MODEL_INDEX != 0
        if(!(n.curvature_ < c1->get_cell_type()->surface_coupling_max_curvature_)) continue;
      #endif
      for(auto& c2: cells){
        if(c2.get() == c1.get()) continue;
        for(face& f: c2->face_lst_){
          if(!f.is_used()) continue;
          #if CONTACT_MODEL_INDEX == 0
            cm.apply_contact_forces(c1, n, &f);
          #else
            if(!(n.normal_.dot(f.normal_) < model_t::max_dot_product_repulsion_)) continue;
            cm.resolve_contact(c1, c2, n, &f);
          #endif
          pairs++;
        }
      }
    }
  }
  int bad = 0; double fmax = 0; vec3 net(0,0,0); size_t touched = 0;
  for(size_t c = 0; c < cells.size(); c++) for(size_t k = 0; k < got[c].size(); k++){ fmax = std::max(fmax, cells[c]->node_lst_[k].force_.norm()); }
  for(size_t c = 0; c < cells.size(); c++) for(size_t k = 0; k < got[c].size(); k++){
    const vec3 ref = cells[c]->node_lst_[k].force_;
    net = net + got[c][k];
    if(ref.norm() > 0) touched++;
    if((got[c][k] - ref).norm() > 1e-9 * std::max(fmax, 1e-300)){
      if(bad < 8) printf("FAIL node %zu of the cell at position %zu: run() gives (%.9g %.9g %.9g), the rule applied to all node/face pairs gives (%.9g %.9g %.9g)\n", k, c, got[c][k].dx(), got[c][k].dy(), got[c][k].dz(), ref.dx(), ref.dy(), ref.dz());
      bad++;
    }
  }
  if(touched == 0 || fmax == 0){ printf("INCONCLUSIVE: no contact in the scenario\n"); return 3; }
  if(net.norm() > 1e-9 * fmax){ printf("FAIL the contact forces of the tissue add up to (%.9g %.9g %.9g), not zero\n", net.dx(), net.dy(), net.dz()); bad++; }
  if(bad){ printf("FAIL %d node(s) / sums differ (contact model %d, tissue at (%g %g %g), %zu nodes in contact)\n", bad, CONTACT_MODEL_INDEX, ox, oy, oz, touched); return 1; }
  printf("OK contact model %d at (%g %g %g): %zu nodes in contact, %zu node/face pairs, forces of run() equal the all-pairs forces, net force zero\n", CONTACT_MODEL_INDEX, ox, oy, oz, touched, pairs);
  return 0;
}
'''
TISSUE_POSITIONS = [('0', '0', '0'), ('-317.3', '251.9', '173.1'), ('0.4', '-0.3', '0.2'), ('1e4', '2e4', '-1.5e4'), ('-0.95', '-0.8', '-0.825')]


def tissue_runs(model, positions):
    import native
    out = []
    for pos in positions:
        code, txt = native.run_driver(TISSUE_DRIVER, list(pos), defines={'SIMUCELL3D_VERIF_CONTACT_MODEL_INDEX': model}, timeout=600)
        out.append((pos, code, txt))
        if code == 1: break
    return out


def extra_checks(run, prop='C06'):
    import json, os
    out = []
    positions = TISSUE_POSITIONS if run.tier == 'thorough' else TISSUE_POSITIONS[:2]
    for model in (1, 0, 2):
        res = tissue_runs(model, positions)
        bad = [r for r in res if r[1] == 1]
        broken = [r for r in res if r[1] not in (0, 1)]
        name = '%s/bounded/tissue-forces-equal-the-all-pairs-forces[contact model %d]' % (prop, model)
        rec = {'name': name, 'bound': 'four overlapping icospheres (162 faces each, non-epithelial: no couplings) placed at %s; real run() of the compiled contact model against its own '
                                      'per-pair rule applied to every node / live face pair of different cells; net contact force; IEEE doubles, relative tolerance 1e-9' % (', '.join('(%s)' % ' '.join(p) for p in positions)),
               'result': 'equal' if not bad and not broken else ('forces differ' if bad else 'driver failed (%d)' % broken[0][1]), 'output': (bad or broken or res)[-1][2][-600:]}
        if bad:
            rp = os.path.join(os.path.dirname(os.path.dirname(os.path.abspath(__file__))), 'replays', '%s-bounded-tissue-%d.json' % (prop, model))
            os.makedirs(os.path.dirname(rp), exist_ok=True)
            json.dump({'property': prop, 'obligation': name, 'native': {'args': list(bad[0][0]), 'defines': {'CONTACT_MODEL_INDEX': model}, 'output': bad[0][2], 'driver': 'specs/C06.py:TISSUE_DRIVER'}, 'confirmed': True}, open(rp, 'w'), indent=1)
            rec.update({'violation': True, 'replay': rp, 'confirmed': True})
        out.append(rec)
    return out


_TISSUE_CACHE = {}


def replay(ob, ins, run):
    """a refuted obligation is replayed natively by the tissue scenario in the obligation's own contact-model configuration"""
    import re
    m = re.search(r'CONTACT_MODEL_INDEX=(\d)', ob.info.get('config') or '')
    model = int(m.group(1)) if m else 1
    if model not in _TISSUE_CACHE: _TISSUE_CACHE[model] = tissue_runs(model, TISSUE_POSITIONS)
    res = _TISSUE_CACHE[model]
    bad = [r for r in res if r[1] == 1]
    if bad: return {'confirmed': True, 'exit': 1, 'args': list(bad[0][0]), 'defines': {'CONTACT_MODEL_INDEX': model}, 'output': bad[0][2][-2500:], 'driver': 'specs/C06.py:TISSUE_DRIVER'}
    return {'confirmed': False, 'tried': [(r[0], r[1]) for r in res], 'output': res[-1][2][-400:] if res else '', 'driver': 'specs/C06.py:TISSUE_DRIVER'}


def replay_recorded(data):
    import native
    nat = data.get('native') or {}
    if 'defines' not in nat: return {'confirmed': False, 'output': 'no native scenario recorded for this obligation; re-run ./check'}
    code, out = native.run_driver(TISSUE_DRIVER, nat.get('args') or ['0', '0', '0'], defines={'SIMUCELL3D_VERIF_' + k: v for k, v in nat['defines'].items()}, timeout=600)
    return {'confirmed': code == 1, 'output': out}



EXPLANATION = ("Chain of contracts for the shipped contact model (node-node coupling); each link is an obligation set on the real code, the composition "
               "is written here. D0 constructor: padding = max(cut-offs), voxel size = 3*l_min + 2*padding. D1 update_face_aabbs: box list starts "
               "empty; an arbitrary iteration appends exactly the padded extent [min - pad, max + pad] of the face's three nodes at position 6*i, "
               "keeps earlier boxes, and the global box contains the face box and only grows. D2 aabb_intersection_check is true iff the point "
               "is inside the stored box; lemma: a point within the padding of any point of the triangle is inside the padded box. "
               "D3 store_face_in_uspg: the grid is rebuilt on the global box; for an arbitrary face the voxel range starts at the voxel of the "
               "box minimum, reaches the voxel of the box maximum and stays inside the grid; an arbitrary iteration of the innermost loop places "
               "the face in the visited voxel (grid contracts of C20); lemma: the voxel index is monotone, so the voxel of any point of the box "
               "lies in the range. D4 resolve_all_contacts: the candidates of a node are the faces stored in the voxel of the node; every "
               "candidate face of another cell whose box contains the node and which passes the model's normal rule reaches resolve_contact, "
               "faces of the same cell never do. Composition: node within the cut-off of a triangle => (D2 lemma, pad >= cut-off by D0) inside "
               "the face box => (monotonicity) its voxel is in the face's range => (D3) the face is in that voxel's list => (D4) presented to "
               "the contact rule, whose own distance test (C05/C07) does the rest. The whole chain is checked in the three compile-time configurations: "
               "contact model 1 (node-node coupling), contact model 2 (face-face coupling, same candidate rule) and contact model 0 (node-face springs: D0 also for the derived constructor - its own cut-off "
               "is the largest cut-off and does not exceed the box padding - and D4 for contact_node_face_via_spring::resolve_contacts).")
ASSUMPTIONS = ["exact reals", "grid contracts (update_dimensions, get_voxel_index, place_object) are used as proved in C20",
               "live nodes lie inside the grid box: every live node is a vertex of a live face (C01) whose padded box is inside the global box (D1)",
               "for-loop semantics compose the per-iteration contracts (boxes stored at 6*i for every i; every voxel of the range visited)",
               
               "double -> float conversions round to nearest with a relative error of at most 2^-24 (normal range; overflow and subnormals not modelled); every other floating-point operation is exact-real"]
UNVERIFIED = ["contact_node_face_via_spring::resolve_contacts and contact_face_face_via_coupling::resolve_all_contacts (candidate loops of the other two compile-time models)",
              "construction of face_lst_ / global_face_id_ in run() (face i of face_lst_ has global id i)"]
