"""C07 - contact forces: reciprocal, short-ranged, pushing overlapping cells apart.
Contracts on the per-pair rule of each contact model (resolve_contact / apply_contact_forces); the closest-point kernel enters
through its C05 contract (barycentric sum 1, non-negative, d2 = |p-q|^2)."""
import z3
from spec import Contract, V3, LoopContract
from values import QForall, Rec
import C05

PROP = 'C07'
CONFIGS = [{'SIMUCELL3D_VERIF_CONTACT_MODEL_INDEX': 1}, {'SIMUCELL3D_VERIF_CONTACT_MODEL_INDEX': 0}, {'SIMUCELL3D_VERIF_CONTACT_MODEL_INDEX': 2}]
I = z3.IntSort(); R = z3.RealSort()
CM = 'contact_model_abstract.'


def kernel_contract():
    """the kernel as its callers see it: the four postconditions proved under C05"""
    def post(C):
        p, a, b, c = C05.inputs(C)
        d2 = C.ret.f['first']; bary = V3.of(C.ret.f['second'])
        q = a * bary.x + b * bary.y + c * bary.z
        return [('bary-sum', bary.x + bary.y + bary.z == 1), ('bary-nonneg', z3.And(bary.x >= 0, bary.y >= 0, bary.z >= 0)),
                ('dist', d2 == (p - q).sq()), ('d2-nonneg', d2 >= 0)]
    return Contract(C05.FN, PROP, pre=C05.pre, post=post, frame=lambda C: [], name='kernel (C05 contract)')


def nodes_of_face(view, c2, f):
    lst = view.sub(c2, 'cell.node_lst_')
    return [view.elem(lst, view.f(f, 'face.n%d_id_' % k)) for k in (1, 2, 3)]


def pre_nn(C):
    o = C.old
    c1, c2, n1, f = C.val('c1').ref, C.val('c2').ref, C.arg('n1').ref, C.val('f').ref
    fn = nodes_of_face(o, c2, f)
    lst2 = o.sub(c2, 'cell.node_lst_')
    pos = [o.v3(r, 'node.pos_') for r in fn]
    nrm = (pos[1] - pos[0]).cross(pos[2] - pos[0])
    ids = [o.f(f, 'face.n%d_id_' % k) for k in (1, 2, 3)]
    ft = o.sub(o.f(c2, 'cell.cell_type_'), 'cell_type_parameters.face_types_')
    ftype = o.elem(ft, o.f(f, 'face.type_id_'))
    return [('cells-and-face-non-null', z3.And(c1 > 0, c2 > 0, f > 0)),
            ('two-different-cells', c1 != c2),                                                   # the caller's guard c1->get_id() != c2->get_id() (C06-D4) with unique ids (C08)
            ('face-belongs-to-c2', z3.And(o.f(f, 'face.owner_cell_') == c2, *[z3.And(i >= 0, i < o.len(lst2)) for i in ids])),
            ('face-is-stored-in-its-own-slot', z3.And(o.f(f, 'face.local_face_id_') >= 0, o.f(f, 'face.local_face_id_') < o.len(o.sub(c2, 'cell.face_lst_')),
                                                       f == o.elem(o.sub(c2, 'cell.face_lst_'), o.f(f, 'face.local_face_id_')))),       # C01 bookkeeping
            ('face-has-three-distinct-nodes', z3.And(ids[0] != ids[1], ids[0] != ids[2], ids[1] != ids[2])),     # C01
            ('node-belongs-to-another-cell', C.e.uf('elem_v', I, I)(n1) != lst2),
            ('face-non-degenerate', nrm.sq() > 0),
            ('face-area-nonneg', o.f(f, 'face.area_') >= 0),                                       # face-cache invariant (C02/C12)
            ('repulsion-strengths-nonneg', QForall(lambda k: o.f(o.elem(ft, k), 'face_type_parameters.repulsion_strength_') >= 0, 1, 'every face type has a non-negative repulsion strength')),     # C18
            ('cutoffs', z3.And(o.f(C.this, CM + 'max_interaction_cutoff_square_') >= o.f(C.this, CM + 'interaction_cutoff_square_adhesion_'),
                               o.f(C.this, CM + 'max_interaction_cutoff_square_') >= o.f(C.this, CM + 'interaction_cutoff_square_repulsion_'))),
            ('face-type-index-valid', z3.And(o.f(f, 'face.type_id_') >= 0, o.f(f, 'face.type_id_') < o.len(ft)))]


def post_nn(C, couplings=True):
    o, n = C.old, C.new
    c1, c2, n1, f = C.val('c1').ref, C.val('c2').ref, C.arg('n1').ref, C.val('f').ref
    fn = nodes_of_face(o, c2, f)
    d = lambda r: n.v3(r, 'node.force_') - o.v3(r, 'node.force_')
    dn, df = d(n1), [d(r) for r in fn]
    total = dn + df[0] + df[1] + df[2]
    zero = V3(z3.RealVal(0), z3.RealVal(0), z3.RealVal(0))
    other = z3.Int('any_other_node')
    p = o.v3(n1, 'node.pos_'); tri = [o.v3(r, 'node.pos_') for r in fn]
    # closest point / distance through the kernel's contract: the witness is whatever the call returned (ghost)
    g = C.post_state.ghost
    t1 = o.f(o.f(c1, 'cell.cell_type_'), 'cell_type_parameters.global_type_id_'); t2 = o.f(o.f(c2, 'cell.cell_type_'), 'cell_type_parameters.global_type_id_')
    forced = z3.Not(dn.eq(zero))
    out = [('action-equals-reaction', total.eq(zero)),
           ('only-the-four-nodes-receive-force', z3.Implies(z3.And(other != n1, other != fn[0], other != fn[1], other != fn[2]), n.v3(other, 'node.force_').eq(o.v3(other, 'node.force_')))),
           ('positions-untouched', z3.And(n.arr('node.pos_.dx_') == o.arr('node.pos_.dx_'), n.arr('node.pos_.dy_') == o.arr('node.pos_.dy_'), n.arr('node.pos_.dz_') == o.arr('node.pos_.dz_')))]
    if 'kernel_ret' in g:
        d2 = g['kernel_ret'].f['first']; bary = V3.of(g['kernel_ret'].f['second'])
        q = tri[0] * bary.x + tri[1] * bary.y + tri[2] * bary.z
        nf = o.v3(f, 'face.normal_')
        side = (p - q).dot(nf)
        flipped = z3.Or(z3.And(t1 == 0, t2 == 1), z3.And(t1 == 3, t2 == 0))
        out += [('force-only-within-the-cutoff', z3.Implies(forced, d2 < o.f(C.this, CM + 'max_interaction_cutoff_square_'))),
                ('force-on-node-is-parallel-to-the-line-to-the-closest-surface-point', dn.cross(q - p).eq(zero)),
                ('force-on-node-points-toward-the-closest-surface-point', dn.dot(q - p) >= 0),
                ('reaction-is-distributed-by-the-barycentric-weights', z3.And(df[0].eq(dn * (-bary.x)), df[1].eq(dn * (-bary.y)), df[2].eq(dn * (-bary.z)))),
                ('force-only-on-the-forbidden-side', z3.Implies(forced, z3.If(flipped, side >= 0, side < 0)))]
    else:
        out += [('no-force-without-a-distance-test', z3.Not(forced))]
    if not couplings: return out
    # couplings
    cpl_new = n.f(n1, 'node.coupled_node_.has'); cpl_changed = z3.Or(n.f(n1, 'node.coupled_node_.has') != o.f(n1, 'node.coupled_node_.has'),
                                                                       n.f(n1, 'node.coupled_node_.value.first') != o.f(n1, 'node.coupled_node_.value.first'),
                                                                       n.f(n1, 'node.coupled_node_.value.second') != o.f(n1, 'node.coupled_node_.value.second'))
    c2i = n.f(n1, 'node.coupled_node_.value.first'); n2i = n.f(n1, 'node.coupled_node_.value.second')
    partner = n.elem(n.sub(c2, 'cell.node_lst_'), n2i)
    dist2 = (p - o.v3(partner, 'node.pos_')).sq()
    out += [('coupling-only-between-epithelial-cells', z3.Implies(cpl_changed, z3.And(t1 == 0, t2 == 0))),
            ('coupling-designates-a-node-of-the-face-of-c2', z3.Implies(cpl_changed, z3.And(cpl_new, c2i == o.f(c2, 'cell.local_id_'),
                                                                                                 z3.Or(*[n2i == o.f(r, 'node.node_id_') for r in fn])))),
            ('coupling-only-within-the-adhesion-cutoff', z3.Implies(cpl_changed, n.f(n1, 'node.squared_distance_to_closest_node_') < o.f(C.this, CM + 'interaction_cutoff_square_adhesion_'))),
            ('coupling-or-force-never-both', z3.Implies(cpl_changed, z3.Not(forced)))]
    return out


def record_kernel(C, st):
    pass


def kernel_ret_model(C, st):
    v = C.e.fresh_value(__import__('ty').parse('std::pair<double, vec3>'), 'kernel')
    st.ghost['kernel_ret'] = v
    return v


def post_reset(C):
    import sys as _sys, fractions
    o, n = C.old, C.new
    nd = [v for k, v in C.post_state.env.items() if C.e.var_names.get(k) == 'n' and not str(k).startswith(('tmp!', 'param'))][0]
    used = o.f(nd, 'node.is_used_')
    return [('every-live-node-starts-the-contact-phase-uncoupled', z3.Implies(used, z3.Not(n.f(nd, 'node.coupled_node_.has')))),
            ('closest-distance-reset', z3.Implies(used, n.f(nd, 'node.squared_distance_to_closest_node_') == z3.RealVal(fractions.Fraction(_sys.float_info.max))))]


# ---------------------------------------------------------------------------------------------------------------------------------
# contact model 0: node-face springs (adhesion on the allowed side, repulsion on the forbidden side)
NF = 'contact_node_face_via_spring.'


def pre_nf(C):
    o = C.old
    c1, n1, f = C.val('c1').ref, C.arg('n').ref, C.val('f').ref
    c2 = o.f(f, 'face.owner_cell_')
    fn = nodes_of_face(o, c2, f)
    lst2 = o.sub(c2, 'cell.node_lst_')
    pos = [o.v3(r, 'node.pos_') for r in fn]
    nrm = (pos[1] - pos[0]).cross(pos[2] - pos[0])
    ids = [o.f(f, 'face.n%d_id_' % k) for k in (1, 2, 3)]
    ft = o.sub(o.f(c2, 'cell.cell_type_'), 'cell_type_parameters.face_types_')
    adh = o.f(C.this, CM + 'interaction_cutoff_adhesion_')
    return [('cells-and-face-non-null', z3.And(c1 > 0, c2 > 0, f > 0, o.f(c2, 'cell.cell_type_') > 0, o.f(c1, 'cell.cell_type_') > 0)),
            ('two-different-cells', c1 != c2),
            ('face-nodes-in-range', z3.And(*[z3.And(i >= 0, i < o.len(lst2)) for i in ids])),
            ('face-is-stored-in-its-own-slot', z3.And(o.f(f, 'face.local_face_id_') >= 0, o.f(f, 'face.local_face_id_') < o.len(o.sub(c2, 'cell.face_lst_')),
                                                       f == o.elem(o.sub(c2, 'cell.face_lst_'), o.f(f, 'face.local_face_id_')))),
            ('face-has-three-distinct-nodes', z3.And(ids[0] != ids[1], ids[0] != ids[2], ids[1] != ids[2])),
            ('node-belongs-to-another-cell', C.e.uf('elem_v', I, I)(n1) != lst2),
            ('face-non-degenerate', nrm.sq() > 0),
            ('face-area-nonneg', o.f(f, 'face.area_') >= 0),
            ('strengths-nonneg', QForall(lambda k: z3.And(o.f(o.elem(ft, k), 'face_type_parameters.repulsion_strength_') >= 0,
                                                           o.f(o.elem(ft, k), 'face_type_parameters.adherence_strength_') >= 0), 1, 'every face type has non-negative strengths')),     # C18
            ('cutoffs', z3.And(adh >= 0, o.f(C.this, CM + 'interaction_cutoff_square_adhesion_') == adh * adh,                            # constructor of the base class
                               o.f(C.this, NF + 'interaction_cutoff_square_') >= o.f(C.this, CM + 'interaction_cutoff_square_adhesion_'),
                               o.f(C.this, NF + 'interaction_cutoff_square_') >= o.f(C.this, CM + 'interaction_cutoff_square_repulsion_'))),
            ('face-type-index-valid', z3.And(o.f(f, 'face.type_id_') >= 0, o.f(f, 'face.type_id_') < o.len(ft))),
            ('an-epithelial-cell-type-defines-the-three-labels-apical-lateral-basal',
             z3.Implies(C.e.uf('dyntype', I, I)(c2) == C.e.class_id('epithelial_cell'), o.len(ft) >= 3))]


def post_nf(C):
    o, n = C.old, C.new
    c1, n1, f = C.val('c1').ref, C.arg('n').ref, C.val('f').ref
    c2 = o.f(f, 'face.owner_cell_')
    fn = nodes_of_face(o, c2, f)
    d = lambda r: n.v3(r, 'node.force_') - o.v3(r, 'node.force_')
    dn, df = d(n1), [d(r) for r in fn]
    total = dn + df[0] + df[1] + df[2]
    zero = V3(z3.RealVal(0), z3.RealVal(0), z3.RealVal(0))
    other = z3.Int('any_other_node')
    p = o.v3(n1, 'node.pos_'); tri = [o.v3(r, 'node.pos_') for r in fn]
    g = C.post_state.ghost
    t1 = o.f(o.f(c1, 'cell.cell_type_'), 'cell_type_parameters.global_type_id_'); t2 = o.f(o.f(c2, 'cell.cell_type_'), 'cell_type_parameters.global_type_id_')
    forced = z3.Not(dn.eq(zero))
    out = [('action-equals-reaction', total.eq(zero)),
           ('only-the-four-nodes-receive-force', z3.Implies(z3.And(other != n1, other != fn[0], other != fn[1], other != fn[2]), n.v3(other, 'node.force_').eq(o.v3(other, 'node.force_')))),
           ('positions-untouched', z3.And(n.arr('node.pos_.dx_') == o.arr('node.pos_.dx_'), n.arr('node.pos_.dy_') == o.arr('node.pos_.dy_'), n.arr('node.pos_.dz_') == o.arr('node.pos_.dz_')))]
    d2 = g['kernel_ret'].f['first']; bary = V3.of(g['kernel_ret'].f['second'])
    q = tri[0] * bary.x + tri[1] * bary.y + tri[2] * bary.z
    nf = o.v3(f, 'face.normal_')
    side = (p - q).dot(nf)
    flipped = z3.Or(z3.And(t1 == 0, t2 == 1), z3.And(t1 == 3, t2 == 0))
    forbidden = z3.If(flipped, side > 0, side <= 0)
    ft = o.sub(o.f(c2, 'cell.cell_type_'), 'cell_type_parameters.face_types_')
    ftype = o.elem(ft, n.f(f, 'face.type_id_'))            # the repulsion branch reads the face type after the polarisation relabelling
    krep = o.f(ftype, 'face_type_parameters.repulsion_strength_'); area = o.f(f, 'face.area_')
    out += [('force-only-within-the-cutoff-of-its-kind', z3.Implies(forced, z3.If(forbidden, d2 < o.f(C.this, CM + 'interaction_cutoff_square_repulsion_'),
                                                                                  d2 < o.f(C.this, CM + 'interaction_cutoff_square_adhesion_')))),
            ('force-on-node-is-parallel-to-the-line-to-the-closest-surface-point', dn.cross(q - p).eq(zero)),
            ('force-on-node-points-toward-the-closest-surface-point', dn.dot(q - p) >= 0),
            ('reaction-is-distributed-by-the-barycentric-weights', z3.And(df[0].eq(dn * (-bary.x)), df[1].eq(dn * (-bary.y)), df[2].eq(dn * (-bary.z)))),
            ('on-the-forbidden-side-within-the-cutoff-the-spring-pushes-back', z3.Implies(z3.And(forbidden, d2 != 0, d2 < o.f(C.this, CM + 'interaction_cutoff_square_repulsion_')),
                                                                                         dn.eq((q - p) * (krep * area))))]
    return out


def build_model0(reg, k):
    # the virtual call c2->face_is_in_contact(face, c1) is executed by dynamic dispatch over every concrete cell class (the base version does nothing,
    # the epithelial override relabels that one face)
    reg.add(Contract('contact_node_face_via_spring::apply_contact_forces', PROP, pre=pre_nf, post=post_nf, use=[k], safety={'bounds'}, split_heap_ifs=True,
                     assigns=['node.force_.dx_', 'node.force_.dy_', 'node.force_.dz_', 'face.type_id_']))


# ---------------------------------------------------------------------------------------------------------------------------------
# contact model 2: face-face coupling (couplings kept in a per-node map keyed by the partner cell); the repulsion rule is the one of model 1
def post_ff(C):
    o, n = C.old, C.new
    out = post_nn(C, couplings=False)
    c1, c2, n1, f = C.val('c1').ref, C.val('c2').ref, C.arg('n1').ref, C.val('f').ref
    fn = nodes_of_face(o, c2, f)
    t1 = o.f(o.f(c1, 'cell.cell_type_'), 'cell_type_parameters.global_type_id_'); t2 = o.f(o.f(c2, 'cell.cell_type_'), 'cell_type_parameters.global_type_id_')
    keys = ('sset.member', 'vec.data.pair.first', 'vec.data.pair.second')
    anymap = z3.Int('any_coupling_map')
    changed = lambda m: z3.Or(*[z3.Select(n.arr(k), m) != z3.Select(o.arr(k), m) for k in keys])
    m1 = o.sub(n1, 'node.coupled_nodes_map_'); mf = [o.sub(r, 'node.coupled_nodes_map_') for r in fn]
    sel = lambda view, k, m, key: z3.Select(z3.Select(view.arr(k), m), key)
    l1 = o.f(c1, 'cell.local_id_'); l2 = o.f(c2, 'cell.local_id_')
    d = lambda r: n.v3(r, 'node.force_') - o.v3(r, 'node.force_')
    zero = V3(z3.RealVal(0), z3.RealVal(0), z3.RealVal(0))
    forced = z3.Not(d(n1).eq(zero))
    adh2 = o.f(C.this, CM + 'interaction_cutoff_square_adhesion_')
    p = o.v3(n1, 'node.pos_')
    partner = lambda r, m: z3.And(sel(n, 'sset.member', m1, l2), sel(n, 'vec.data.pair.first', m1, l2) == o.f(r, 'node.node_id_'),
                                  sel(n, 'vec.data.pair.second', m1, l2) == (p - o.v3(r, 'node.pos_')).sq(), (p - o.v3(r, 'node.pos_')).sq() < adh2,
                                  sel(n, 'sset.member', m, l1), sel(n, 'vec.data.pair.first', m, l1) == o.f(n1, 'node.node_id_'),
                                  sel(n, 'vec.data.pair.second', m, l1) == (p - o.v3(r, 'node.pos_')).sq())
    out += [('coupling-only-between-epithelial-cells', z3.Implies(changed(anymap), z3.And(t1 == 0, t2 == 0))),
            ('only-the-maps-of-the-node-and-of-the-face-nodes-change', z3.Implies(changed(anymap), z3.Or(anymap == m1, *[anymap == m for m in mf]))),
            ('a-new-coupling-is-mutual-designates-a-node-of-the-face-and-lies-within-the-adhesion-cutoff',
             z3.Implies(changed(anymap), z3.Or(*[partner(r, m) for r, m in zip(fn, mf)]))),
            ('coupling-or-force-never-both', z3.Implies(changed(anymap), z3.Not(forced)))]
    return out


def pre_ff(C):
    o = C.old
    c2, n1, f = C.val('c2').ref, C.arg('n1').ref, C.val('f').ref
    fn = nodes_of_face(o, c2, f)
    maps = [o.sub(r, 'node.coupled_nodes_map_') for r in [n1] + fn]
    import sys as _sys, fractions
    return pre_nn(C) + [('the-adhesion-cutoff-is-a-finite-double', o.f(C.this, CM + 'interaction_cutoff_square_adhesion_') <= z3.RealVal(fractions.Fraction(_sys.float_info.max))),
                        ('the-coupling-maps-of-the-four-nodes-are-four-objects', z3.Distinct(*maps)),
                        ('face-nodes-are-three-objects', z3.Distinct(n1, *fn))]


def build_model2(reg, k):
    reg.add(Contract('contact_face_face_via_coupling::resolve_contact', PROP, pre=pre_ff, post=post_ff, use=[k], safety={'bounds'}, split_heap_ifs=True,
                     assigns=['node.force_.dx_', 'node.force_.dy_', 'node.force_.dz_', 'sset.member', 'set.size', 'vec.data.pair.first', 'vec.data.pair.second']))


# ---------------------------------------------------------------------------------------------------------------------------------
# call sites: the candidate loops hand a pair to the contact rule only if the face belongs to another cell
def site_contract(qname, c1name, c2expr):
    def pre(C):
        c1 = C.val(c1name).ref; f = C.val('f').ref
        c2 = c2expr(C, f)
        return [('the-face-belongs-to-another-cell', c1 != c2)]
    return Contract(qname, PROP, pre=pre, frame=lambda C: [('*', None)], name=qname.split('::')[-1] + ' (precondition of the contact rule at its call site)')


def build_sites(reg, cfg):
    import C06
    m = cfg['SIMUCELL3D_VERIF_CONTACT_MODEL_INDEX']
    if m in (1, 2):
        cls = {1: 'contact_node_node_via_coupling', 2: 'contact_face_face_via_coupling'}[m]
        callee = site_contract(cls + '::resolve_contact', 'c1', lambda C, f: C.val('c2').ref)
        reg.add(Contract(cls + '::resolve_all_contacts', PROP, pre=C06.pre_candidates, post=lambda C: [], slice_loop=2,
                         use=[callee, C06.aabb_contract()], name=cls + '::resolve_all_contacts::<candidate loop body: same-cell exclusion>'))
    if m == 0:
        callee = site_contract('contact_node_face_via_spring::apply_contact_forces', 'c1', lambda C, f: C.old.f(f, 'face.owner_cell_'))
        reg.add(Contract('contact_node_face_via_spring::resolve_contacts', PROP, pre=C06.pre_candidates, post=lambda C: [], slice_loop=2,
                         use=[callee, C06.aabb_contract()], name='contact_node_face_via_spring::resolve_contacts::<candidate loop body: same-cell exclusion>'))


def build(reg, cfg):
    k = kernel_contract(); k.ret_model = kernel_ret_model
    if cfg['SIMUCELL3D_VERIF_CONTACT_MODEL_INDEX'] == 1:
        reg.add(Contract('contact_node_node_via_coupling::resolve_contact', PROP, pre=pre_nn, post=post_nn, use=[k], safety={'bounds'}, split_heap_ifs=True,
                         assigns=['node.force_.dx_', 'node.force_.dy_', 'node.force_.dz_', 'node.coupled_node_.has', 'node.coupled_node_.value.first',
                                  'node.coupled_node_.value.second', 'node.squared_distance_to_closest_node_']))
        # couplings of the previous iteration never survive: body of the per-node reset loop of run()
        reg.add(Contract('contact_node_node_via_coupling::run', PROP, post=post_reset, slice_loop=2, name='contact_node_node_via_coupling::run::<coupling reset loop>'))
    if cfg['SIMUCELL3D_VERIF_CONTACT_MODEL_INDEX'] == 0:
        build_model0(reg, k)
    if cfg['SIMUCELL3D_VERIF_CONTACT_MODEL_INDEX'] == 2:
        build_model2(reg, k)
    build_sites(reg, cfg)


# native side: the tissue scenario of C06 (real run() against the per-pair rule on all pairs; net contact force zero) also serves C07
def extra_checks(run):
    import C06
    return C06.extra_checks(run, prop='C07')


def replay(ob, ins, run):
    import C06
    return C06.replay(ob, ins, run)


def replay_recorded(data):
    import C06
    return C06.replay_recorded(data)


EXPLANATION = ("Contracts on the per-pair rule of each of the three compile-time contact models, executed from the AST with the closest-point kernel replaced "
               "by its C05 contract, plus the call sites. Model 1 (node-node coupling, the configuration the repository ships), "
               "contact_node_node_via_coupling::resolve_contact: four kinds of paths (coupling created, no contact, contact not on the forbidden "
               "side, repulsion applied) are kept apart. Proved on every path: sum of the force increments of the four nodes is zero; only those "
               "four nodes receive force; positions untouched; any force implies d2 < max cut-off^2; the node's force is parallel to and points "
               "toward the closest surface point; the reaction on the face nodes is minus the node force times the barycentric weights; force "
               "only on the forbidden side (inside for ordinary pairs, the reverse for epithelial-in-ECM and nucleus-in-cell); a coupling is "
               "created only between two epithelial cells, to a node of that face, within the adhesion cut-off, never together with a force. "
               "Plus the body of the reset loop of run(): every live node starts the contact phase uncoupled. Model 0 (node-face springs), "
               "contact_node_face_via_spring::apply_contact_forces with the virtual polarisation call dispatched over every concrete cell class: "
               "same reciprocity / frame / direction / distribution clauses; a force implies d2 below the cut-off of its kind (repulsion cut-off "
               "on the forbidden side, adhesion cut-off on the allowed side); on the forbidden side within the repulsion cut-off the force on the "
               "node is exactly (closest point - node) * repulsion strength * face area. Model 2 (face-face coupling, couplings in a std::map per "
               "node), contact_face_face_via_coupling::resolve_contact: the force clauses of model 1, and: a map changes only between two "
               "epithelial cells, only the maps of the node and of the three face nodes change, a new coupling is mutual (node -> (position index "
               "of c2, node of the face, squared distance) and that node -> (position index of c1, the node, same distance)), lies within the "
               "adhesion cut-off, and never comes with a force. Call sites (all three models): in an arbitrary iteration of the candidate loop "
               "the contact rule is called only with a face whose owner is another cell object than the node's cell (precondition "
               "'two-different-cells' of the rule checked at the call).")
ASSUMPTIONS = ["exact reals; std::numeric_limits<double>::max() is the real number DBL_MAX; the adhesion cut-off squared is a finite double",
               "caller obligations taken as preconditions of the per-pair rule: the face is a live face of c2 stored in its own slot with three distinct node ids in range (C01), non-degenerate, cached area >= 0 (C12), all strengths >= 0 and max cut-off >= both cut-offs (C18 / constructors, C06-D0); 'the two cells differ' is checked at the call sites",
               "the kernel is used through its contract (proved in C05) rather than re-executed",
               "model 0: an epithelial cell type defines at least the three face types apical / lateral / basal (the polarisation relabels a face to 0, 1 or 2 and the repulsion branch then reads that face type; the parameter reader only requires one face type per cell type)",
               "model 2: the coupling maps of the four nodes are four different objects (one map per node)"]
UNVERIFIED = ["the midpoint snap of coupled nodes at the end of resolve_all_contacts (models 1 and 2)",
              "mutuality of couplings in model 1 (a node's previous partner keeps pointing at it): observed, not required by the property",
              "model 2 looks up an existing coupling with the partner cell's persistent id (find(c2->get_id())) but stores it under the position index (get_local_id()): after a division the two differ and the 'closest so far' comparison reads another cell's entry; the clauses of this property (reciprocity, cut-offs, same-cell exclusion, direction) do not depend on it"]
