"""C07 - contact forces: reciprocal, short-ranged, pushing overlapping cells apart.
Contracts on the per-pair rule of each contact model (resolve_contact / apply_contact_forces); the closest-point kernel enters
through its C05 contract (barycentric sum 1, non-negative, d2 = |p-q|^2)."""
import z3
from spec import Contract, V3, LoopContract
from values import QForall, Rec
import C05

PROP = 'C07'
CONFIGS = [{'SIMUCELL3D_VERIF_CONTACT_MODEL_INDEX': 1}]
I = z3.IntSort(); R = z3.RealSort()
CM = 'contact_model_abstract.'


def kernel_contract():
    """the kernel as its callers see it: the four postconditions proved under C05"""
    def post(C):
        p, a, b, c = C05.inputs(C)
        d2 = C.ret.f['first']; bary = V3.of(C.ret.f['second'])
        q = a * bary.x + b * bary.y + c * bary.z
        return [('bary-sum', bary.x + bary.y + bary.z == 1), ('bary-nonneg', z3.And(bary.x >= 0, bary.y >= 0, bary.z >= 0)),
                ('dist', d2 == (p - q).sq()), ('d2-nonneg', d2 >= 0)]
    return Contract(C05.FN, PROP, pre=C05.pre, post=post, frame=lambda C: [], name='kernel (C05 contract)')


def nodes_of_face(view, c2, f):
    lst = view.sub(c2, 'cell.node_lst_')
    return [view.elem(lst, view.f(f, 'face.n%d_id_' % k)) for k in (1, 2, 3)]


def pre_nn(C):
    o = C.old
    c1, c2, n1, f = C.val('c1').ref, C.val('c2').ref, C.arg('n1').ref, C.val('f').ref
    fn = nodes_of_face(o, c2, f)
    lst2 = o.sub(c2, 'cell.node_lst_')
    pos = [o.v3(r, 'node.pos_') for r in fn]
    nrm = (pos[1] - pos[0]).cross(pos[2] - pos[0])
    ids = [o.f(f, 'face.n%d_id_' % k) for k in (1, 2, 3)]
    ft = o.sub(o.f(c2, 'cell.cell_type_'), 'cell_type_parameters.face_types_')
    ftype = o.elem(ft, o.f(f, 'face.type_id_'))
    return [('cells-and-face-non-null', z3.And(c1 > 0, c2 > 0, f > 0)),
            ('two-different-cells', c1 != c2),                                                   # the caller's guard c1->get_id() != c2->get_id() (C06-D4) with unique ids (C08)
            ('face-belongs-to-c2', z3.And(o.f(f, 'face.owner_cell_') == c2, *[z3.And(i >= 0, i < o.len(lst2)) for i in ids])),
            ('face-is-stored-in-its-own-slot', z3.And(o.f(f, 'face.local_face_id_') >= 0, o.f(f, 'face.local_face_id_') < o.len(o.sub(c2, 'cell.face_lst_')),
                                                       f == o.elem(o.sub(c2, 'cell.face_lst_'), o.f(f, 'face.local_face_id_')))),       # C01 bookkeeping
            ('face-has-three-distinct-nodes', z3.And(ids[0] != ids[1], ids[0] != ids[2], ids[1] != ids[2])),     # C01
            ('node-belongs-to-another-cell', C.e.uf('elem_v', I, I)(n1) != lst2),
            ('face-non-degenerate', nrm.sq() > 0),
            ('face-area-nonneg', o.f(f, 'face.area_') >= 0),                                       # face-cache invariant (C02/C12)
            ('repulsion-strengths-nonneg', QForall(lambda k: o.f(o.elem(ft, k), 'face_type_parameters.repulsion_strength_') >= 0, 1, 'every face type has a non-negative repulsion strength')),     # C18
            ('cutoffs', z3.And(o.f(C.this, CM + 'max_interaction_cutoff_square_') >= o.f(C.this, CM + 'interaction_cutoff_square_adhesion_'),
                               o.f(C.this, CM + 'max_interaction_cutoff_square_') >= o.f(C.this, CM + 'interaction_cutoff_square_repulsion_'))),
            ('face-type-index-valid', z3.And(o.f(f, 'face.type_id_') >= 0, o.f(f, 'face.type_id_') < o.len(ft)))]


def post_nn(C):
    o, n = C.old, C.new
    c1, c2, n1, f = C.val('c1').ref, C.val('c2').ref, C.arg('n1').ref, C.val('f').ref
    fn = nodes_of_face(o, c2, f)
    d = lambda r: n.v3(r, 'node.force_') - o.v3(r, 'node.force_')
    dn, df = d(n1), [d(r) for r in fn]
    total = dn + df[0] + df[1] + df[2]
    zero = V3(z3.RealVal(0), z3.RealVal(0), z3.RealVal(0))
    other = z3.Int('any_other_node')
    p = o.v3(n1, 'node.pos_'); tri = [o.v3(r, 'node.pos_') for r in fn]
    # closest point / distance through the kernel's contract: the witness is whatever the call returned (ghost)
    g = C.post_state.ghost
    t1 = o.f(o.f(c1, 'cell.cell_type_'), 'cell_type_parameters.global_type_id_'); t2 = o.f(o.f(c2, 'cell.cell_type_'), 'cell_type_parameters.global_type_id_')
    forced = z3.Not(dn.eq(zero))
    out = [('action-equals-reaction', total.eq(zero)),
           ('only-the-four-nodes-receive-force', z3.Implies(z3.And(other != n1, other != fn[0], other != fn[1], other != fn[2]), n.v3(other, 'node.force_').eq(o.v3(other, 'node.force_')))),
           ('positions-untouched', z3.And(n.arr('node.pos_.dx_') == o.arr('node.pos_.dx_'), n.arr('node.pos_.dy_') == o.arr('node.pos_.dy_'), n.arr('node.pos_.dz_') == o.arr('node.pos_.dz_')))]
    if 'kernel_ret' in g:
        d2 = g['kernel_ret'].f['first']; bary = V3.of(g['kernel_ret'].f['second'])
        q = tri[0] * bary.x + tri[1] * bary.y + tri[2] * bary.z
        nf = o.v3(f, 'face.normal_')
        side = (p - q).dot(nf)
        flipped = z3.Or(z3.And(t1 == 0, t2 == 1), z3.And(t1 == 3, t2 == 0))
        out += [('force-only-within-the-cutoff', z3.Implies(forced, d2 < o.f(C.this, CM + 'max_interaction_cutoff_square_'))),
                ('force-on-node-is-parallel-to-the-line-to-the-closest-surface-point', dn.cross(q - p).eq(zero)),
                ('force-on-node-points-toward-the-closest-surface-point', dn.dot(q - p) >= 0),
                ('reaction-is-distributed-by-the-barycentric-weights', z3.And(df[0].eq(dn * (-bary.x)), df[1].eq(dn * (-bary.y)), df[2].eq(dn * (-bary.z)))),
                ('force-only-on-the-forbidden-side', z3.Implies(forced, z3.If(flipped, side >= 0, side < 0)))]
    else:
        out += [('no-force-without-a-distance-test', z3.Not(forced))]
    # couplings
    cpl_new = n.f(n1, 'node.coupled_node_.has'); cpl_changed = z3.Or(n.f(n1, 'node.coupled_node_.has') != o.f(n1, 'node.coupled_node_.has'),
                                                                       n.f(n1, 'node.coupled_node_.value.first') != o.f(n1, 'node.coupled_node_.value.first'),
                                                                       n.f(n1, 'node.coupled_node_.value.second') != o.f(n1, 'node.coupled_node_.value.second'))
    c2i = n.f(n1, 'node.coupled_node_.value.first'); n2i = n.f(n1, 'node.coupled_node_.value.second')
    partner = n.elem(n.sub(c2, 'cell.node_lst_'), n2i)
    dist2 = (p - o.v3(partner, 'node.pos_')).sq()
    out += [('coupling-only-between-epithelial-cells', z3.Implies(cpl_changed, z3.And(t1 == 0, t2 == 0))),
            ('coupling-designates-a-node-of-the-face-of-c2', z3.Implies(cpl_changed, z3.And(cpl_new, c2i == o.f(c2, 'cell.local_id_'),
                                                                                                 z3.Or(*[n2i == o.f(r, 'node.node_id_') for r in fn])))),
            ('coupling-only-within-the-adhesion-cutoff', z3.Implies(cpl_changed, n.f(n1, 'node.squared_distance_to_closest_node_') < o.f(C.this, CM + 'interaction_cutoff_square_adhesion_'))),
            ('coupling-or-force-never-both', z3.Implies(cpl_changed, z3.Not(forced)))]
    return out


def record_kernel(C, st):
    pass


def kernel_ret_model(C, st):
    v = C.e.fresh_value(__import__('ty').parse('std::pair<double, vec3>'), 'kernel')
    st.ghost['kernel_ret'] = v
    return v


def build(reg, cfg):
    k = kernel_contract(); k.ret_model = kernel_ret_model
    if cfg['SIMUCELL3D_VERIF_CONTACT_MODEL_INDEX'] == 1:
        reg.add(Contract('contact_node_node_via_coupling::resolve_contact', PROP, pre=pre_nn, post=post_nn, use=[k], safety={'bounds'}, split_heap_ifs=True,
                         assigns=['node.force_.dx_', 'node.force_.dy_', 'node.force_.dz_', 'node.coupled_node_.has', 'node.coupled_node_.value.first',
                                  'node.coupled_node_.value.second', 'node.squared_distance_to_closest_node_']))
