"""C07 - contact forces: reciprocal, short-ranged, pushing overlapping cells apart.
Contracts on the per-pair rule of each contact model (resolve_contact / apply_contact_forces); the closest-point kernel enters
through its C05 contract (barycentric sum 1, non-negative, d2 = |p-q|^2)."""
import z3
from spec import Contract, V3, LoopContract
from values import QForall, Rec
import C05

PROP = 'C07'
CONFIGS = [{'SIMUCELL3D_VERIF_CONTACT_MODEL_INDEX': 1}]
I = z3.IntSort(); R = z3.RealSort()
CM = 'contact_model_abstract.'


def kernel_contract():
    """the kernel as its callers see it: the four postconditions proved under C05"""
    def post(C):
        p, a, b, c = C05.inputs(C)
        d2 = C.ret.f['first']; bary = V3.of(C.ret.f['second'])
        q = a * bary.x + b * bary.y + c * bary.z
        return [('bary-sum', bary.x + bary.y + bary.z == 1), ('bary-nonneg', z3.And(bary.x >= 0, bary.y >= 0, bary.z >= 0)),
                ('dist', d2 == (p - q).sq()), ('d2-nonneg', d2 >= 0)]
    return Contract(C05.FN, PROP, pre=C05.pre, post=post, frame=lambda C: [], name='kernel (C05 contract)')


def nodes_of_face(view, c2, f):
    lst = view.sub(c2, 'cell.node_lst_')
    return [view.elem(lst, view.f(f, 'face.n%d_id_' % k)) for k in (1, 2, 3)]


def pre_nn(C):
    o = C.old
    c1, c2, n1, f = C.val('c1').ref, C.val('c2').ref, C.arg('n1').ref, C.val('f').ref
    fn = nodes_of_face(o, c2, f)
    lst2 = o.sub(c2, 'cell.node_lst_')
    pos = [o.v3(r, 'node.pos_') for r in fn]
    nrm = (pos[1] - pos[0]).cross(pos[2] - pos[0])
    ids = [o.f(f, 'face.n%d_id_' % k) for k in (1, 2, 3)]
    ft = o.sub(o.f(c2, 'cell.cell_type_'), 'cell_type_parameters.face_types_')
    ftype = o.elem(ft, o.f(f, 'face.type_id_'))
    return [('cells-and-face-non-null', z3.And(c1 > 0, c2 > 0, f > 0)),
            ('two-different-cells', c1 != c2),                                                   # the caller's guard c1->get_id() != c2->get_id() (C06-D4) with unique ids (C08)
            ('face-belongs-to-c2', z3.And(o.f(f, 'face.owner_cell_') == c2, *[z3.And(i >= 0, i < o.len(lst2)) for i in ids])),
            ('face-is-stored-in-its-own-slot', z3.And(o.f(f, 'face.local_face_id_') >= 0, o.f(f, 'face.local_face_id_') < o.len(o.sub(c2, 'cell.face_lst_')),
                                                       f == o.elem(o.sub(c2, 'cell.face_lst_'), o.f(f, 'face.local_face_id_')))),       # C01 bookkeeping
            ('face-has-three-distinct-nodes', z3.And(ids[0] != ids[1], ids[0] != ids[2], ids[1] != ids[2])),     # C01
            ('node-belongs-to-another-cell', C.e.uf('elem_v', I, I)(n1) != lst2),
            ('face-non-degenerate', nrm.sq() > 0),
            ('face-area-nonneg', o.f(f, 'face.area_') >= 0),                                       # face-cache invariant (C02/C12)
            ('repulsion-strengths-nonneg', QForall(lambda k: o.f(o.elem(ft, k), 'face_type_parameters.repulsion_strength_') >= 0, 1, 'every face type has a non-negative repulsion strength')),     # C18
            ('cutoffs', z3.And(o.f(C.this, CM + 'max_interaction_cutoff_square_') >= o.f(C.this, CM + 'interaction_cutoff_square_adhesion_'),
                               o.f(C.this, CM + 'max_interaction_cutoff_square_') >= o.f(C.this, CM + 'interaction_cutoff_square_repulsion_'))),
            ('face-type-index-valid', z3.And(o.f(f, 'face.type_id_') >= 0, o.f(f, 'face.type_id_') < o.len(ft)))]


def post_nn(C):
    o, n = C.old, C.new
    c1, c2, n1, f = C.val('c1').ref, C.val('c2').ref, C.arg('n1').ref, C.val('f').ref
    fn = nodes_of_face(o, c2, f)
    d = lambda r: n.v3(r, 'node.force_') - o.v3(r, 'node.force_')
    dn, df = d(n1), [d(r) for r in fn]
    total = dn + df[0] + df[1] + df[2]
    zero = V3(z3.RealVal(0), z3.RealVal(0), z3.RealVal(0))
    other = z3.Int('any_other_node')
    p = o.v3(n1, 'node.pos_'); tri = [o.v3(r, 'node.pos_') for r in fn]
    # closest point / distance through the kernel's contract: the witness is whatever the call returned (ghost)
    g = C.post_state.ghost
    t1 = o.f(o.f(c1, 'cell.cell_type_'), 'cell_type_parameters.global_type_id_'); t2 = o.f(o.f(c2, 'cell.cell_type_'), 'cell_type_parameters.global_type_id_')
    forced = z3.Not(dn.eq(zero))
    out = [('action-equals-reaction', total.eq(zero)),
           ('only-the-four-nodes-receive-force', z3.Implies(z3.And(other != n1, other != fn[0], other != fn[1], other != fn[2]), n.v3(other, 'node.force_').eq(o.v3(other, 'node.force_')))),
           ('positions-untouched', z3.And(n.arr('node.pos_.dx_') == o.arr('node.pos_.dx_'), n.arr('node.pos_.dy_') == o.arr('node.pos_.dy_'), n.arr('node.pos_.dz_') == o.arr('node.pos_.dz_')))]
    if 'kernel_ret' in g:
        d2 = g['kernel_ret'].f['first']; bary = V3.of(g['kernel_ret'].f['second'])
        q = tri[0] * bary.x + tri[1] * bary.y + tri[2] * bary.z
        nf = o.v3(f, 'face.normal_')
        side = (p - q).dot(nf)
        flipped = z3.Or(z3.And(t1 == 0, t2 == 1), z3.And(t1 == 3, t2 == 0))
        out += [('force-only-within-the-cutoff', z3.Implies(forced, d2 < o.f(C.this, CM + 'max_interaction_cutoff_square_'))),
                ('force-on-node-is-parallel-to-the-line-to-the-closest-surface-point', dn.cross(q - p).eq(zero)),
                ('force-on-node-points-toward-the-closest-surface-point', dn.dot(q - p) >= 0),
                ('reaction-is-distributed-by-the-barycentric-weights', z3.And(df[0].eq(dn * (-bary.x)), df[1].eq(dn * (-bary.y)), df[2].eq(dn * (-bary.z)))),
                ('force-only-on-the-forbidden-side', z3.Implies(forced, z3.If(flipped, side >= 0, side < 0)))]
    else:
        out += [('no-force-without-a-distance-test', z3.Not(forced))]
    # couplings
    cpl_new = n.f(n1, 'node.coupled_node_.has'); cpl_changed = z3.Or(n.f(n1, 'node.coupled_node_.has') != o.f(n1, 'node.coupled_node_.has'),
                                                                       n.f(n1, 'node.coupled_node_.value.first') != o.f(n1, 'node.coupled_node_.value.first'),
                                                                       n.f(n1, 'node.coupled_node_.value.second') != o.f(n1, 'node.coupled_node_.value.second'))
    c2i = n.f(n1, 'node.coupled_node_.value.first'); n2i = n.f(n1, 'node.coupled_node_.value.second')
    partner = n.elem(n.sub(c2, 'cell.node_lst_'), n2i)
    dist2 = (p - o.v3(partner, 'node.pos_')).sq()
    out += [('coupling-only-between-epithelial-cells', z3.Implies(cpl_changed, z3.And(t1 == 0, t2 == 0))),
            ('coupling-designates-a-node-of-the-face-of-c2', z3.Implies(cpl_changed, z3.And(cpl_new, c2i == o.f(c2, 'cell.local_id_'),
                                                                                                 z3.Or(*[n2i == o.f(r, 'node.node_id_') for r in fn])))),
            ('coupling-only-within-the-adhesion-cutoff', z3.Implies(cpl_changed, n.f(n1, 'node.squared_distance_to_closest_node_') < o.f(C.this, CM + 'interaction_cutoff_square_adhesion_'))),
            ('coupling-or-force-never-both', z3.Implies(cpl_changed, z3.Not(forced)))]
    return out


def record_kernel(C, st):
    pass


def kernel_ret_model(C, st):
    v = C.e.fresh_value(__import__('ty').parse('std::pair<double, vec3>'), 'kernel')
    st.ghost['kernel_ret'] = v
    return v


def post_reset(C):
    import sys as _sys, fractions
    o, n = C.old, C.new
    nd = [v for k, v in C.post_state.env.items() if C.e.var_names.get(k) == 'n' and not str(k).startswith(('tmp!', 'param'))][0]
    used = o.f(nd, 'node.is_used_')
    return [('every-live-node-starts-the-contact-phase-uncoupled', z3.Implies(used, z3.Not(n.f(nd, 'node.coupled_node_.has')))),
            ('closest-distance-reset', z3.Implies(used, n.f(nd, 'node.squared_distance_to_closest_node_') == z3.RealVal(fractions.Fraction(_sys.float_info.max))))]


def build(reg, cfg):
    k = kernel_contract(); k.ret_model = kernel_ret_model
    if cfg['SIMUCELL3D_VERIF_CONTACT_MODEL_INDEX'] == 1:
        reg.add(Contract('contact_node_node_via_coupling::resolve_contact', PROP, pre=pre_nn, post=post_nn, use=[k], safety={'bounds'}, split_heap_ifs=True,
                         assigns=['node.force_.dx_', 'node.force_.dy_', 'node.force_.dz_', 'node.coupled_node_.has', 'node.coupled_node_.value.first',
                                  'node.coupled_node_.value.second', 'node.squared_distance_to_closest_node_']))
        # couplings of the previous iteration never survive: body of the per-node reset loop of run()
        reg.add(Contract('contact_node_node_via_coupling::run', PROP, post=post_reset, slice_loop=2, name='contact_node_node_via_coupling::run::<coupling reset loop>'))


EXPLANATION = ("Contract on the per-pair rule of the node-node coupling contact model (contact_node_node_via_coupling::resolve_contact, the "
               "configuration the repository ships), executed from the AST with the closest-point kernel replaced by its C05 contract. "
               "Four kinds of paths (coupling created, no contact, contact not on the forbidden side, repulsion applied) are kept apart. "
               "Proved on every path: sum of the force increments of the four nodes is zero; only those four nodes receive force; positions "
               "untouched; any force implies d2 < max cut-off^2; the node's force is parallel to and points toward the closest surface point; "
               "the reaction on the face nodes is minus the node force times the barycentric weights; force only on the forbidden side "
               "(inside for ordinary pairs, the reverse for epithelial-in-ECM and nucleus-in-cell); a coupling is created only between two "
               "epithelial cells, to a node of that face, within the adhesion cut-off, never together with a force. Plus the body of the "
               "reset loop of run(): every live node starts the contact phase uncoupled (no coupling survives from the previous iteration).")
ASSUMPTIONS = ["exact reals; std::numeric_limits<double>::max() is the real number DBL_MAX",
               "caller obligations taken as preconditions: the two cells differ (guard in resolve_all_contacts + unique ids, C08), the face is a live face of c2 stored in its own slot with three distinct node ids in range (C01), non-degenerate, cached area >= 0 (C12), all repulsion strengths >= 0 and max cut-off >= both cut-offs (C18 / constructor)",
               "the kernel is used through its contract (proved in C05) rather than re-executed",
               "contact models 0 (node-face springs) and 2 (face-face coupling) are not under contract in this check"]
UNVERIFIED = ["contact_node_face_via_spring::apply_contact_forces and contact_face_face_via_coupling::resolve_contact (other compile-time configurations)",
              "the midpoint snap of coupled nodes at the end of resolve_all_contacts",
              "mutuality of couplings (a node's previous partner keeps pointing at it): observed, not required by the property"]
