"""C12 - volume, area, centroid, bounding box, normals: contracts on the geometric queries of cell."""
import z3, sys as _sys, fractions
from spec import Contract, V3, LoopContract
from values import QForall

PROP = 'C12'
I = z3.IntSort(); R = z3.RealSort()
ZERO = V3(z3.RealVal(0), z3.RealVal(0), z3.RealVal(0))
DBL_MAX = z3.RealVal(fractions.Fraction(_sys.float_info.max))


def face_at(view, this, k):
    return view.elem(view.sub(this, 'cell.face_lst_'), k)


def nodes_of(view, this, f):
    lst = view.sub(this, 'cell.node_lst_')
    return [view.elem(lst, view.f(f, 'face.n%d_id_' % j)) for j in (1, 2, 3)]


def det_of(view, this, f):
    x = [view.v3(r, 'node.pos_') for r in nodes_of(view, this, f)]
    return x[0].dot(x[1].cross(x[2]))


def ids_ok(view, this, k):
    f = face_at(view, this, k)
    n = view.len(view.sub(this, 'cell.node_lst_'))
    return z3.And(*[z3.And(view.f(f, 'face.n%d_id_' % j) >= 0, view.f(f, 'face.n%d_id_' % j) < n) for j in (1, 2, 3)])


# ---- face cache: update_face_normal_and_area establishes FC(f) --------------------------------------------------------------
def pre_face_update(C):
    o = C.old
    f = C.arg('f').ref
    n = o.len(o.sub(C.this, 'cell.node_lst_'))
    return [('node-ids-in-range', z3.And(*[z3.And(o.f(f, 'face.n%d_id_' % j) >= 0, o.f(f, 'face.n%d_id_' % j) < n) for j in (1, 2, 3)]))]


def post_face_update(C):
    o, n = C.old, C.new
    f = C.arg('f').ref
    x = [o.v3(r, 'node.pos_') for r in nodes_of(o, C.this, f)]
    cr = (x[1] - x[0]).cross(x[2] - x[0])
    area = n.f(f, 'face.area_'); nrm = n.v3(f, 'face.normal_'); nn = 2 * area
    return [('area-is-half-the-norm-of-the-area-vector', z3.And(area >= 0, nn * nn == cr.sq())),
            ('normal-times-norm-is-the-area-vector', (nrm * nn).eq(cr)),
            ('degenerate-face-gets-a-zero-normal', z3.Implies(cr.sq() == 0, nrm.eq(ZERO))),
            ('unit-normal', z3.Implies(cr.sq() > 0, nrm.sq() == 1), None,
             [(nrm * nn).eq(cr), nn * nn == cr.sq(), nn * nn * nrm.sq() == cr.sq(), z3.Implies(cr.sq() > 0, nn * nn * (nrm.sq() - 1) == 0)]),
            ('normal-points-to-the-side-given-by-the-winding', z3.Implies(cr.sq() > 0, nrm.dot(cr) > 0), None,
             [(nrm * nn).eq(cr), nn * nrm.dot(cr) == cr.sq(), nn >= 0])]


# ---- volume: whole function, loop by contract; S(k) = sum over the first k slots of the used faces' determinants --------------
def vol_sum(e):
    return e.uf('ghost.signed_volume_sum', I, R)


def vol_axioms(C, view):
    S = vol_sum(C.e)
    this = C.this
    return [S(0) == 0,
            QForall(lambda k: z3.Implies(k >= 0, S(k + 1) == S(k) + z3.If(view.f(face_at(view, this, k), 'face.is_used_'), det_of(view, this, face_at(view, this, k)), 0)), 1,
                    'definition of the partial sums of the signed volume', [])]


def pre_volume(C):
    o = C.old
    nf = o.len(o.sub(C.this, 'cell.face_lst_'))
    return [('sum-definition-%d' % i, a) for i, a in enumerate(vol_axioms(C, o))] + \
           [('node-ids-of-every-face-in-range', QForall(lambda k: z3.Implies(z3.And(k >= 0, k < nf), ids_ok(o, C.this, k)), 1, 'face node ids in range'))]


def inv_volume(L):
    S = vol_sum(L.e)
    i = L.index
    n = L.cur.len(L.container.ref)
    return [('index-in-range', z3.And(i >= 0, i <= n)), ('partial-sum', L.var('vol') == S(i))]


def post_volume(C):
    o = C.old
    S = vol_sum(C.e)
    nf = o.len(o.sub(C.this, 'cell.face_lst_'))
    tot = S(nf)
    return [('volume-is-a-sixth-of-the-absolute-sum-of-the-determinants', C.ret == z3.If(tot >= 0, tot, -tot) / 6),
            ('volume-nonneg', C.ret >= 0)]


# ---- area: std::accumulate over the faces ---------------------------------------------------------------------------------------
def area_sum(e):
    return e.uf('ghost.area_sum', I, R)


def pre_area(C):
    o = C.old
    A = area_sum(C.e)
    this = C.this
    return [('sum-definition-0', A(0) == 0),
            ('sum-definition-1', QForall(lambda k: z3.Implies(k >= 0, A(k + 1) == A(k) + z3.If(o.f(face_at(o, this, k), 'face.is_used_'), o.f(face_at(o, this, k), 'face.area_'), 0)), 1, 'partial sums of the used faces areas'))]


def inv_area(L):
    A = area_sum(L.e)
    i = L.index
    n = L.cur.len(L.container.ref)
    return [('index-in-range', z3.And(i >= 0, i <= n)), ('partial-sum', L.acc == A(i))]


def post_area(C):
    o = C.old
    A = area_sum(C.e)
    return [('area-is-the-sum-of-the-used-faces-areas', C.ret == A(o.len(o.sub(C.this, 'cell.face_lst_'))))]


# ---- centroid: body of the loop -----------------------------------------------------------------------------------------------------
def lv(C, name, st=None):
    st = st or C.pre_state
    for k, v in st.env.items():
        if C.e.var_names.get(k) == name and not str(k).startswith(('tmp!', 'glob!', 'param', 'rangeidx!')):
            return v
    raise KeyError(name)


def pre_centroid_body(C):
    o = C.old
    f = lv(C, 'f')
    n = o.len(o.sub(C.this, 'cell.node_lst_'))
    return [('node-ids-in-range', z3.And(*[z3.And(o.f(f, 'face.n%d_id_' % j) >= 0, o.f(f, 'face.n%d_id_' % j) < n) for j in (1, 2, 3)]))]


def post_centroid_body(C):
    o = C.old
    f = lv(C, 'f')
    c0 = V3.of(C.local('cell_centroid', C.pre_state)); c1 = V3.of(C.local('cell_centroid', C.post_state))
    x = [o.v3(r, 'node.pos_') for r in nodes_of(o, C.this, f)]
    used = o.f(f, 'face.is_used_')
    contrib = (x[0] + x[1] + x[2]) * (o.f(f, 'face.area_') / 3)
    return [('used-face-adds-its-area-weighted-centroid', z3.Implies(used, (c1 - c0).eq(contrib))),
            ('unused-face-adds-nothing', z3.Implies(z3.Not(used), c1.eq(c0)))]


def post_centroid_epilogue(C):
    return []


# ---- bounding box: body of the loop over the nodes ---------------------------------------------------------------------------------------
def post_aabb_body(C):
    o = C.old
    nd = lv(C, 'n')
    used = o.f(nd, 'node.is_used_')
    p = o.v3(nd, 'node.pos_')
    out = []
    for a, comp in (('x', p.x), ('y', p.y), ('z', p.z)):
        mn0, mn1 = C.local('min_' + a, C.pre_state), C.local('min_' + a, C.post_state)
        mx0, mx1 = C.local('max_' + a, C.pre_state), C.local('max_' + a, C.post_state)
        out.append(('live-node-tightens-the-box-%s' % a, z3.Implies(used, z3.And(mn1 == z3.If(comp < mn0, comp, mn0), mx1 == z3.If(comp > mx0, comp, mx0)))))
        out.append(('dead-slot-ignored-%s' % a, z3.Implies(z3.Not(used), z3.And(mn1 == mn0, mx1 == mx0))))
    return out


def post_aabb_prologue(C):
    out = []
    for a in 'xyz':
        out.append(('box-starts-empty-%s' % a, z3.And(C.local('min_' + a) > DBL_MAX, C.local('max_' + a) < -DBL_MAX)))
    return out


# ---- winding: check_face_winding_order -------------------------------------------------------------------------------------------------------
def pre_winding(C):
    o = C.old
    r, f = C.arg('ref_face').ref, C.arg('f').ref
    a = [o.f(r, 'face.n%d_id_' % j) for j in (1, 2, 3)]; b = [o.f(f, 'face.n%d_id_' % j) for j in (1, 2, 3)]
    shared = sum([z3.If(x == y, 1, 0) for x in a for y in b])
    return [('two-different-faces', r != f),
            ('each-face-has-three-distinct-nodes', z3.And(a[0] != a[1], a[0] != a[2], a[1] != a[2], b[0] != b[1], b[0] != b[2], b[1] != b[2])),
            ('the-faces-share-exactly-one-edge', shared == 2)]


def directed_edges(ids):
    return [(ids[0], ids[1]), (ids[1], ids[2]), (ids[2], ids[0])]


def post_winding(C):
    o, n = C.old, C.new
    r, f = C.arg('ref_face').ref, C.arg('f').ref
    a = [n.f(r, 'face.n%d_id_' % j) for j in (1, 2, 3)]; b = [n.f(f, 'face.n%d_id_' % j) for j in (1, 2, 3)]
    b0 = [o.f(f, 'face.n%d_id_' % j) for j in (1, 2, 3)]
    same_dir = z3.Or(*[z3.And(p[0] == q[0], p[1] == q[1]) for p in directed_edges(a) for q in directed_edges(b)])
    opp_dir = z3.Or(*[z3.And(p[0] == q[1], p[1] == q[0]) for p in directed_edges(a) for q in directed_edges(b)])
    return [('shared-edge-is-traversed-in-opposite-directions', z3.And(opp_dir, z3.Not(same_dir))),
            ('reference-face-untouched', z3.And(*[n.f(r, 'face.n%d_id_' % j) == o.f(r, 'face.n%d_id_' % j) for j in (1, 2, 3)])),
            ('same-three-nodes', z3.And(*[z3.Or(*[x == y for y in b0]) for x in b]))]


# ---- longest axis: the matrix handed to the eigen-solver is the covariance of the live nodes about the centroid -------------
PAIRS = [('xx', 0, 0), ('xy', 0, 1), ('xz', 0, 2), ('yy', 1, 1), ('yz', 1, 2), ('zz', 2, 2)]


def cov_sum(e, nm):
    return e.uf('ghost.cov_sum_' + nm, I, R)


def node_at(view, this, k):
    return view.elem(view.sub(this, 'cell.node_lst_'), k)


def pre_axis(C):
    o = C.old
    out = []
    c = [z3.Real('ghost.centroid_' + a) for a in 'xyz']
    for nm, a, b in PAIRS:
        S = cov_sum(C.e, nm)
        def term(k, a=a, b=b):
            p = o.v3(node_at(o, C.this, k), 'node.pos_').comps()
            return z3.If(o.f(node_at(o, C.this, k), 'node.is_used_'), (p[a] - c[a]) * (p[b] - c[b]), 0)
        out.append(('cov-sum-%s-0' % nm, S(0) == 0))
        out.append(('cov-sum-%s-step' % nm, QForall(lambda k, S=S, term=term: z3.Implies(k >= 0, S(k + 1) == S(k) + term(k)), 1, 'partial sums of the second moments about the centroid')))
    return out


def centroid_ret(C, st):
    from values import Rec
    c = [z3.Real('ghost.centroid_' + a) for a in 'xyz']
    return Rec('vec3', {'dx_': c[0], 'dy_': c[1], 'dz_': c[2]})


def inv_axis(L):
    i = L.index
    n = L.cur.len(L.container.ref)
    out = [('index-in-range', z3.And(i >= 0, i <= n))]
    for nm, a, b in PAIRS:
        out.append(('partial-sum-' + nm, L.var('cov_' + nm) == cov_sum(L.e, nm)(i)))
    return out


def record_matrix(C, st):
    m = C.e.load(st, C.this) if not hasattr(C.this, 'f') else C.this
    st.ghost['eigen_input'] = m


def eigen_ret(C, st):
    import ty
    return C.e.fresh_value(ty.parse('std::pair<vec3, mat33>'), 'eigen')


def post_axis(C):
    o = C.old
    g = C.post_state.ghost
    if 'eigen_input' not in g: return [('covariance-matrix-is-decomposed', z3.BoolVal(False))]
    m = g['eigen_input']
    rows = [m.f['row_1_'], m.f['row_2_'], m.f['row_3_']]
    N = z3.ToReal(o.len(o.sub(C.this, 'cell.node_lst_')) - o.len(o.sub(C.this, 'cell.free_node_queue_')))
    n = o.len(o.sub(C.this, 'cell.node_lst_'))
    out = []
    for nm, a, b in PAIRS:
        S = cov_sum(C.e, nm)
        out.append(('matrix-entry-%s-is-the-covariance-about-the-centroid' % nm, z3.And(rows[a].f[str(b)] == S(n) / N, rows[b].f[str(a)] == S(n) / N)))
    return out


# ---- initialisation: the cached normals / areas, the cell area and the volume are computed after the faces got their final winding -----------------------
def init_stage(qn, tag, frame=None):
    def on_call(C, st):
        # a logical clock (integers merge across the two arms of the integrity-check branch; a tuple log would be lost at the join)
        clk = st.ghost.get('init_clock', z3.IntVal(0))
        st.ghost['init_t_' + tag] = clk
        st.ghost['init_n_' + tag] = st.ghost.get('init_n_' + tag, z3.IntVal(0)) + 1
        st.ghost['init_clock'] = clk + 1
    return Contract(qn, PROP, frame=(frame or (lambda C: [('*', None)])), on_call=on_call, assumed=True, name=qn + ' (any effect; call recorded)')


def setup_init_stages(eng, st, args, this):
    st.ghost['init_clock'] = z3.IntVal(0)
    for tag in ('orient', 'cache', 'area', 'volume'):
        st.ghost['init_t_' + tag] = z3.IntVal(-1); st.ghost['init_n_' + tag] = z3.IntVal(0)


def post_init_stages(C):
    if C.outcome not in (None, 'ret', 'end'): return []
    g = C.post_state.ghost
    T = lambda tag: g['init_t_' + tag]; N = lambda tag: g['init_n_' + tag]
    with_check = C.val('check_cell_integrity')
    return [('face-cache-then-cell-area-and-volume-are-each-computed-once', z3.And(N('cache') == 1, N('area') == 1, N('volume') == 1, T('area') > T('cache'), T('volume') > T('cache'))),
            ('the-face-cache-is-filled-after-the-orientation-pass', z3.Implies(N('orient') > 0, T('cache') > T('orient'))),
            ('the-orientation-pass-runs-whenever-the-integrity-check-is-requested', z3.Implies(with_check, N('orient') == 1))]


def build(reg):
    reg.add(Contract('cell::update_face_normal_and_area', PROP, signature='(face &)', pre=pre_face_update, post=post_face_update, safety={'bounds'},
                     assigns=['face.area_', 'face.normal_.dx_', 'face.normal_.dy_', 'face.normal_.dz_'], name='cell::update_face_normal_and_area(face&)'))
    reg.add_loop(LoopContract('cell::compute_volume', 0, inv_volume, modifies=[]))
    reg.add(Contract('cell::compute_volume', PROP, pre=pre_volume, post=post_volume, safety={'bounds'}, assigns=[]))
    reg.add_loop(LoopContract('cell::compute_area', 'accumulate#0', inv_area, modifies=[]))
    reg.add(Contract('cell::compute_area', PROP, pre=pre_area, post=post_area, assigns=[]))
    reg.add(Contract('cell::compute_centroid', PROP, pre=pre_centroid_body, post=post_centroid_body, slice_loop=0, safety={'bounds'}, assigns=[],
                     name='cell::compute_centroid::<per-face body>'))
    reg.add(Contract('cell::get_aabb', PROP, post=post_aabb_body, slice_loop=0, assigns=[], name='cell::get_aabb::<per-node body>'))
    reg.add(Contract('cell::get_aabb', PROP, post=post_aabb_prologue, prefix_loop=0, assigns=[], name='cell::get_aabb::<prologue>'))
    reg.add_loop(LoopContract('cell::get_cell_longest_axis', 0, inv_axis, modifies=[]))
    reg.add(Contract('cell::get_cell_longest_axis', PROP, pre=pre_axis, post=post_axis, assigns=[], use=[
        Contract('cell::compute_centroid', PROP, frame=lambda C: [], ret_model=centroid_ret, assumed=True, name='cell::compute_centroid (value named by a ghost symbol)'),
        Contract('mat33::eigen_decomposition', PROP, frame=lambda C: [], on_call=record_matrix, ret_model=eigen_ret, name='mat33::eigen_decomposition (not under contract: any result)')]))
    reg.add(Contract('cell::check_face_winding_order', PROP, pre=pre_winding, post=post_winding,
                     assigns=['face.n1_id_', 'face.n2_id_', 'face.n3_id_', 'vec.len', 'vec.data.int', 'vec.epoch']))
    reg.add(Contract('cell::initialize_cell_properties', PROP, post=post_init_stages, setup=setup_init_stages, name='cell::initialize_cell_properties::<order of the stages>', use=[
        init_stage('cell::check_face_normal_orientation', 'orient'), init_stage('cell::update_all_face_normals_and_areas', 'cache'),
        init_stage('cell::compute_area', 'area', lambda C: []), init_stage('cell::compute_volume', 'volume', lambda C: []),
        init_stage('cell::set_local_ids', 'ids'), init_stage('cell::remove_unused_nodes', 'unused'), init_stage('cell::set_face_owner_cell', 'owner'),
        init_stage('cell::generate_edge_set', 'edges'), init_stage('cell::is_manifold', 'manifold'), init_stage('cell::initialize_random_properties', 'random')]))


EXPLANATION = ("Contracts on the geometric queries: update_face_normal_and_area establishes the face-cache invariant (area >= 0, (2 area)^2 = |cr|^2, "
               "normal*(2 area) = cr, unit normal on the side given by the winding, zero normal for a degenerate face) and writes nothing else; "
               "compute_volume: loop contract against the ghost partial sums S(k) of x1.(x2 x x3) over the used faces, result |S(n)|/6 >= 0 (the "
               "six-term expression in the code equals the triple product); compute_area: std::accumulate under a loop contract, result = sum of "
               "the used faces' cached areas; compute_centroid (arbitrary iteration): a used face adds area*(x1+x2+x3)/3, an unused one nothing; "
               "get_aabb: the box starts empty (beyond +-DBL_MAX) and an arbitrary iteration tightens it with a live node and ignores dead slots; "
               "get_cell_longest_axis: the matrix handed to the eigen-solver is the covariance of the live nodes about the centroid (loop contract "
               "on six ghost sums, eigen-solver itself treated as 'any result'); check_face_winding_order: if two faces share exactly one edge, "
               "afterwards that edge is traversed in opposite directions, the reference face is untouched, the node set of the face is kept.")
ASSUMPTIONS = ["exact reals; numeric_limits<double>::infinity() modelled as a real constant above DBL_MAX (coordinates are finite doubles)",
               "node ids of the faces are in range (C01)",
               "'equals the enclosed volume' and translation/rotation invariance of volume and centroid need the closed-surface lemma (divergence theorem) and are not machine-checked; area is a sum of per-face quantities that depend only on differences of positions",
               "independence of element order: the results are finite sums / min / max over the set of used elements (stated through the partial-sum ghost functions); permutation invariance of a finite sum is arithmetic, not code"]
UNVERIFIED = ["check_face_normal_orientation: the flood fill over the surface (std::list work queue) and the final sign-flip block are not under contract",
              "the eigen-solver (include/math_modules/eigen_solver.hpp, mat33::eigen_decomposition) and the choice of the column of the largest eigenvalue",
              "scaling laws (volume ~ s^3, area ~ s^2) follow from the homogeneity of the per-face expressions; not separate obligations"]
