"""C12 - volume, area, centroid, bounding box, normals: contracts on the geometric queries of cell."""
import z3, sys as _sys, fractions
from spec import Contract, V3, LoopContract
from values import QForall

PROP = 'C12'
I = z3.IntSort(); R = z3.RealSort()
ZERO = V3(z3.RealVal(0), z3.RealVal(0), z3.RealVal(0))
DBL_MAX = z3.RealVal(fractions.Fraction(_sys.float_info.max))


def face_at(view, this, k):
    return view.elem(view.sub(this, 'cell.face_lst_'), k)


def nodes_of(view, this, f):
    lst = view.sub(this, 'cell.node_lst_')
    return [view.elem(lst, view.f(f, 'face.n%d_id_' % j)) for j in (1, 2, 3)]


def det_of(view, this, f):
    x = [view.v3(r, 'node.pos_') for r in nodes_of(view, this, f)]
    return x[0].dot(x[1].cross(x[2]))


def ids_ok(view, this, k):
    f = face_at(view, this, k)
    n = view.len(view.sub(this, 'cell.node_lst_'))
    return z3.And(*[z3.And(view.f(f, 'face.n%d_id_' % j) >= 0, view.f(f, 'face.n%d_id_' % j) < n) for j in (1, 2, 3)])


# ---- face cache: update_face_normal_and_area establishes FC(f) --------------------------------------------------------------
def pre_face_update(C):
    o = C.old
    f = C.arg('f').ref
    n = o.len(o.sub(C.this, 'cell.node_lst_'))
    return [('node-ids-in-range', z3.And(*[z3.And(o.f(f, 'face.n%d_id_' % j) >= 0, o.f(f, 'face.n%d_id_' % j) < n) for j in (1, 2, 3)]))]


def post_face_update(C):
    o, n = C.old, C.new
    f = C.arg('f').ref
    x = [o.v3(r, 'node.pos_') for r in nodes_of(o, C.this, f)]
    cr = (x[1] - x[0]).cross(x[2] - x[0])
    area = n.f(f, 'face.area_'); nrm = n.v3(f, 'face.normal_'); nn = 2 * area
    return [('area-is-half-the-norm-of-the-area-vector', z3.And(area >= 0, nn * nn == cr.sq())),
            ('normal-times-norm-is-the-area-vector', (nrm * nn).eq(cr)),
            ('degenerate-face-gets-a-zero-normal', z3.Implies(cr.sq() == 0, nrm.eq(ZERO))),
            ('unit-normal', z3.Implies(cr.sq() > 0, nrm.sq() == 1), None,
             [(nrm * nn).eq(cr), nn * nn == cr.sq(), nn * nn * nrm.sq() == cr.sq(), z3.Implies(cr.sq() > 0, nn * nn * (nrm.sq() - 1) == 0)]),
            ('normal-points-to-the-side-given-by-the-winding', z3.Implies(cr.sq() > 0, nrm.dot(cr) > 0), None,
             [(nrm * nn).eq(cr), nn * nrm.dot(cr) == cr.sq(), nn >= 0])]


# ---- volume: whole function, loop by contract; S(k) = sum over the first k slots of the used faces' determinants --------------
def vol_sum(e):
    return e.uf('ghost.signed_volume_sum', I, R)


def vol_axioms(C, view):
    S = vol_sum(C.e)
    this = C.this
    return [S(0) == 0,
            QForall(lambda k: z3.Implies(k >= 0, S(k + 1) == S(k) + z3.If(view.f(face_at(view, this, k), 'face.is_used_'), det_of(view, this, face_at(view, this, k)), 0)), 1,
                    'definition of the partial sums of the signed volume', [])]


def pre_volume(C):
    o = C.old
    nf = o.len(o.sub(C.this, 'cell.face_lst_'))
    return [('sum-definition-%d' % i, a) for i, a in enumerate(vol_axioms(C, o))] + \
           [('node-ids-of-every-face-in-range', QForall(lambda k: z3.Implies(z3.And(k >= 0, k < nf), ids_ok(o, C.this, k)), 1, 'face node ids in range'))]


def inv_volume(L):
    S = vol_sum(L.e)
    i = L.index
    n = L.cur.len(L.container.ref)
    return [('index-in-range', z3.And(i >= 0, i <= n)), ('partial-sum', L.var('vol') == S(i))]


def post_volume(C):
    o = C.old
    S = vol_sum(C.e)
    nf = o.len(o.sub(C.this, 'cell.face_lst_'))
    tot = S(nf)
    return [('volume-is-a-sixth-of-the-absolute-sum-of-the-determinants', C.ret == z3.If(tot >= 0, tot, -tot) / 6),
            ('volume-nonneg', C.ret >= 0)]


# ---- area: std::accumulate over the faces ---------------------------------------------------------------------------------------
def area_sum(e):
    return e.uf('ghost.area_sum', I, R)


def pre_area(C):
    o = C.old
    A = area_sum(C.e)
    this = C.this
    return [('sum-definition-0', A(0) == 0),
            ('sum-definition-1', QForall(lambda k: z3.Implies(k >= 0, A(k + 1) == A(k) + z3.If(o.f(face_at(o, this, k), 'face.is_used_'), o.f(face_at(o, this, k), 'face.area_'), 0)), 1, 'partial sums of the used faces areas'))]


def inv_area(L):
    A = area_sum(L.e)
    i = L.index
    n = L.cur.len(L.container.ref)
    return [('index-in-range', z3.And(i >= 0, i <= n)), ('partial-sum', L.acc == A(i))]


def post_area(C):
    o = C.old
    A = area_sum(C.e)
    return [('area-is-the-sum-of-the-used-faces-areas', C.ret == A(o.len(o.sub(C.this, 'cell.face_lst_'))))]


# ---- centroid: body of the loop -----------------------------------------------------------------------------------------------------
def lv(C, name, st=None):
    st = st or C.pre_state
    for k, v in st.env.items():
        if C.e.var_names.get(k) == name and not str(k).startswith(('tmp!', 'glob!', 'param', 'rangeidx!')):
            return v
    raise KeyError(name)


def pre_centroid_body(C):
    o = C.old
    f = lv(C, 'f')
    n = o.len(o.sub(C.this, 'cell.node_lst_'))
    return [('node-ids-in-range', z3.And(*[z3.And(o.f(f, 'face.n%d_id_' % j) >= 0, o.f(f, 'face.n%d_id_' % j) < n) for j in (1, 2, 3)]))]


def post_centroid_body(C):
    o = C.old
    f = lv(C, 'f')
    c0 = V3.of(C.local('cell_centroid', C.pre_state)); c1 = V3.of(C.local('cell_centroid', C.post_state))
    x = [o.v3(r, 'node.pos_') for r in nodes_of(o, C.this, f)]
    used = o.f(f, 'face.is_used_')
    contrib = (x[0] + x[1] + x[2]) * (o.f(f, 'face.area_') / 3)
    return [('used-face-adds-its-area-weighted-centroid', z3.Implies(used, (c1 - c0).eq(contrib))),
            ('unused-face-adds-nothing', z3.Implies(z3.Not(used), c1.eq(c0)))]


def post_centroid_epilogue(C):
    return []


# ---- bounding box: body of the loop over the nodes ---------------------------------------------------------------------------------------
def post_aabb_body(C):
    o = C.old
    nd = lv(C, 'n')
    used = o.f(nd, 'node.is_used_')
    p = o.v3(nd, 'node.pos_')
    out = []
    for a, comp in (('x', p.x), ('y', p.y), ('z', p.z)):
        mn0, mn1 = C.local('min_' + a, C.pre_state), C.local('min_' + a, C.post_state)
        mx0, mx1 = C.local('max_' + a, C.pre_state), C.local('max_' + a, C.post_state)
        out.append(('live-node-tightens-the-box-%s' % a, z3.Implies(used, z3.And(mn1 == z3.If(comp < mn0, comp, mn0), mx1 == z3.If(comp > mx0, comp, mx0)))))
        out.append(('dead-slot-ignored-%s' % a, z3.Implies(z3.Not(used), z3.And(mn1 == mn0, mx1 == mx0))))
    return out


def post_aabb_prologue(C):
    out = []
    for a in 'xyz':
        out.append(('box-starts-empty-%s' % a, z3.And(C.local('min_' + a) > DBL_MAX, C.local('max_' + a) < -DBL_MAX)))
    return out


# ---- winding: check_face_winding_order -------------------------------------------------------------------------------------------------------
def pre_winding(C):
    o = C.old
    r, f = C.arg('ref_face').ref, C.arg('f').ref
    a = [o.f(r, 'face.n%d_id_' % j) for j in (1, 2, 3)]; b = [o.f(f, 'face.n%d_id_' % j) for j in (1, 2, 3)]
    shared = sum([z3.If(x == y, 1, 0) for x in a for y in b])
    return [('two-different-faces', r != f),
            ('each-face-has-three-distinct-nodes', z3.And(a[0] != a[1], a[0] != a[2], a[1] != a[2], b[0] != b[1], b[0] != b[2], b[1] != b[2])),
            ('the-faces-share-exactly-one-edge', shared == 2)]


def directed_edges(ids):
    return [(ids[0], ids[1]), (ids[1], ids[2]), (ids[2], ids[0])]


def post_winding(C):
    o, n = C.old, C.new
    r, f = C.arg('ref_face').ref, C.arg('f').ref
    a = [n.f(r, 'face.n%d_id_' % j) for j in (1, 2, 3)]; b = [n.f(f, 'face.n%d_id_' % j) for j in (1, 2, 3)]
    b0 = [o.f(f, 'face.n%d_id_' % j) for j in (1, 2, 3)]
    same_dir = z3.Or(*[z3.And(p[0] == q[0], p[1] == q[1]) for p in directed_edges(a) for q in directed_edges(b)])
    opp_dir = z3.Or(*[z3.And(p[0] == q[1], p[1] == q[0]) for p in directed_edges(a) for q in directed_edges(b)])
    return [('shared-edge-is-traversed-in-opposite-directions', z3.And(opp_dir, z3.Not(same_dir))),
            ('reference-face-untouched', z3.And(*[n.f(r, 'face.n%d_id_' % j) == o.f(r, 'face.n%d_id_' % j) for j in (1, 2, 3)])),
            ('same-three-nodes', z3.And(*[z3.Or(*[x == y for y in b0]) for x in b]))]


def build(reg):
    reg.add(Contract('cell::update_face_normal_and_area', PROP, signature='(face &)', pre=pre_face_update, post=post_face_update, safety={'bounds'},
                     assigns=['face.area_', 'face.normal_.dx_', 'face.normal_.dy_', 'face.normal_.dz_'], name='cell::update_face_normal_and_area(face&)'))
    reg.add_loop(LoopContract('cell::compute_volume', 0, inv_volume, modifies=[]))
    reg.add(Contract('cell::compute_volume', PROP, pre=pre_volume, post=post_volume, safety={'bounds'}, assigns=[]))
    reg.add_loop(LoopContract('cell::compute_area', 'accumulate#0', inv_area, modifies=[]))
    reg.add(Contract('cell::compute_area', PROP, pre=pre_area, post=post_area, assigns=[]))
    reg.add(Contract('cell::compute_centroid', PROP, pre=pre_centroid_body, post=post_centroid_body, slice_loop=0, safety={'bounds'}, assigns=[],
                     name='cell::compute_centroid::<per-face body>'))
    reg.add(Contract('cell::get_aabb', PROP, post=post_aabb_body, slice_loop=0, assigns=[], name='cell::get_aabb::<per-node body>'))
    reg.add(Contract('cell::get_aabb', PROP, post=post_aabb_prologue, prefix_loop=0, assigns=[], name='cell::get_aabb::<prologue>'))
    reg.add(Contract('cell::check_face_winding_order', PROP, pre=pre_winding, post=post_winding,
                     assigns=['face.n1_id_', 'face.n2_id_', 'face.n3_id_', 'vec.len', 'vec.data.int', 'vec.epoch']))
