"""C08 - cell identities and cross-references stay valid as the population changes.
POP-INV: the cell at list position k has local_id_ == k; persistent ids are unique and never reused (every id handed out is the
current value of a counter that only grows).  REF-INV: a coupling stored in a node designates (local id of a listed cell, id of a
node of that cell)."""
import z3
from spec import Contract, V3, LoopContract
from values import QForall, ObjLV, Ptr
import C07

PROP = 'C08'
CONFIGS = [{'SIMUCELL3D_VERIF_CONTACT_MODEL_INDEX': 1}, {'SIMUCELL3D_VERIF_CONTACT_MODEL_INDEX': 2}]
I = z3.IntSort()


def lv(C, name, st=None):
    st = st or C.pre_state
    for k, v in st.env.items():
        if C.e.var_names.get(k) == name and not str(k).startswith(('tmp!', 'glob!', 'param', 'rangeidx!')): return v
    raise KeyError(name)


def val(C, name, st=None):
    from values import LVS
    v = lv(C, name, st)
    if isinstance(v, LVS) and not isinstance(v, ObjLV): return C.e.load(st or C.pre_state, v)
    return v


# ---- solver constructor: ids of the initial population --------------------------------------------------------------------------
def pre_ctor_ids(C):
    o = C.old
    i = val(C, 'i')
    lst = o.sub(C.this, 'solver.cell_lst_')
    return [('counter-equals-the-number-of-cells-numbered-so-far', o.f(C.this, 'solver.max_cell_id_') == i),
            ('index-in-range', z3.And(i >= 0, i < o.len(lst))), ('cell-non-null', o.at(lst, i, 'int') > 0)]


def post_ctor_ids(C):
    o, n = C.old, C.new
    i = val(C, 'i')
    lst = o.sub(C.this, 'solver.cell_lst_')
    c = o.at(lst, i, 'int')
    return [('persistent-id-is-the-counter-value', n.f(c, 'cell.cell_id_') == i),
            ('position-index-is-the-list-position', n.f(c, 'cell.local_id_') == i),
            ('counter-advances', n.f(C.this, 'solver.max_cell_id_') == i + 1)]


# ---- cell_divider::run ------------------------------------------------------------------------------------------------------------------
def divide_contract():
    """divide_cell: either nullopt or two fresh cells; the population list is not touched (C09)"""
    def rm(C, st):
        from values import Rec
        e = C.e
        d1 = e.fresh('daughter1', I); d2 = e.fresh('daughter2', I)
        has = e.fresh('division_succeeded', z3.BoolSort())
        st.pc.append(z3.Implies(has, z3.And(d1 > 0, d2 > 0, d1 != d2)))
        from values import GuardedLog
        st.ghost['daughters'] = st.ghost.get('daughters', GuardedLog()).add((has, d1, d2))
        return Rec('optional', {'has': has, 'value': Rec('pair', {'first': Ptr(d1, 'cell'), 'second': Ptr(d2, 'cell')})})
    def post(C):
        o = C.old
        return []
    # frame: cells other than the mother are not written; the list object is not written
    return Contract('cell_divider::divide_cell', PROP, frame=lambda C: [('cell.volume_', [C.val('c').ref])], ret_model=rm, post=post, assumed=True,
                    name='cell_divider::divide_cell (nullopt or two fresh cells, list untouched: C09)')


def not_owned_by_a_cell(C, ref):
    """the population list is an object of its own (a member of the solver or a local), not a container inside a cell"""
    tg = C.e.uf('tag', I, I)
    keys = ['cell.node_lst_', 'cell.face_lst_', 'cell.free_node_queue_', 'cell.free_face_queue_', 'cell.edge_set_']
    return z3.And(*[tg(ref) != C.e.tag_of(k) + 1 for k in keys] + [tg(ref) != 1])


def pre_division_body(C):
    o = C.old
    i = val(C, 'i'); lst = lv(C, 'cell_lst').ref
    return [('index-in-range', z3.And(i >= 0, i < o.len(lst))), ('cell-non-null', o.at(lst, i, 'int') > 0),
            ('population-list-is-not-a-container-of-a-cell', not_owned_by_a_cell(C, lst))]


def post_division_body(C):
    o, n = C.old, C.new
    g = C.post_state.ghost
    i = val(C, 'i'); lst = lv(C, 'cell_lst').ref
    mx0 = val(C, 'max_cell_id_', C.pre_state); mx1 = val(C, 'max_cell_id_', C.post_state)
    dl = lv(C, 'cells_to_delete_lst').ref
    k = z3.Int('any_earlier_position')
    keep = z3.Implies(z3.And(k >= 0, k < o.len(lst)), n.at(lst, k, 'int') == o.at(lst, k, 'int'))
    entries = g['daughters'].entries if 'daughters' in g else []
    L = o.len(lst)
    divided = z3.Or(*[z3.And(gd, has) for (gd, (has, d1, d2)) in entries]) if entries else z3.BoolVal(False)
    out = [('no-successful-division-changes-nothing', z3.Implies(z3.Not(divided), z3.And(mx1 == mx0, n.len(lst) == L, n.len(dl) == o.len(dl)))),
           ('population-kept', keep)]
    for (gd, (has, d1, d2)) in entries:
        ok = z3.And(gd, has)
        out += [('daughters-get-the-next-two-unused-ids', z3.Implies(ok, z3.And(n.f(d1, 'cell.cell_id_') == mx0, n.f(d2, 'cell.cell_id_') == mx0 + 1, mx1 == mx0 + 2))),
                ('daughters-are-appended-to-the-population', z3.Implies(ok, z3.And(n.len(lst) == L + 2, n.at(lst, L, 'int') == d1, n.at(lst, L + 1, 'int') == d2))),
                ('mother-position-is-scheduled-for-removal', z3.Implies(ok, z3.And(n.len(dl) == o.len(dl) + 1, n.at(dl, o.len(dl), 'int') == i)))]
    return out


def post_renumber_body(C):
    o, n = C.old, C.new
    k = val(C, 'local_cell_id'); lst = lv(C, 'cell_lst').ref
    return [('position-index-is-the-list-position', n.f(o.at(lst, k, 'int'), 'cell.local_id_') == k)]


def pre_renumber_body(C):
    o = C.old
    k = val(C, 'local_cell_id'); lst = lv(C, 'cell_lst').ref
    return [('index-in-range', z3.And(k >= 0, k < o.len(lst))), ('cell-non-null', o.at(lst, k, 'int') > 0)]


def post_run_structure(C):
    """whenever a mother was scheduled for removal, the removal and the renumbering loop are executed"""
    g = C.post_state.ghost
    if C.outcome != 'ret': return []
    st = g.get('loop_exit:0')
    if st is None: return [('division-loop-executed', z3.BoolVal(False))]
    from spec import View
    xv = View(C.e, st.data)
    dl = [v for k, v in st.data.env.items() if C.e.var_names.get(k) == 'cells_to_delete_lst'][0].ref
    renumbered = z3.BoolVal('loop_exit:1' in g)
    removed = g.get('remove_index_calls', z3.IntVal(0))
    return [('renumbering-follows-every-removal', z3.Implies(xv.len(dl) > 0, z3.And(renumbered, removed == 1)))]


def post_divider_structure(C):
    """cell_divider::run on its own, up to the entry of the renumbering loop: the loop follows the removal and starts at position 0"""
    g = C.post_state.ghost
    removed = g.get('remove_index_calls', z3.IntVal(0))
    if C.outcome == 'loop-entry':
        return [('removal-precedes-the-renumbering', removed == 1),
                ('renumbering-starts-at-the-first-position', val(C, 'local_cell_id', C.post_state) == 0)]
    if C.outcome == 'ret':
        return [('no-renumbering-only-if-nothing-was-removed', removed == 0)]
    return []


# ---- cell_divider::run from the removal to the end: POP-INV is re-established for the WHOLE list ------------------------------------------------------
def setup_popinv(eng, st, args, this):
    st.ghost['popinv'] = True


def listed_once(view, lst, upto=None):
    n_ = view.len(lst) if upto is None else upto
    return QForall(lambda a, b: z3.Implies(z3.And(a >= 0, a < b, b < n_), view.at(lst, a, 'int') != view.at(lst, b, 'int')), 2, 'every cell is listed once')


def all_non_null(view, lst):
    return QForall(lambda a: z3.Implies(z3.And(a >= 0, a < view.len(lst)), view.at(lst, a, 'int') > 0), 1, 'no null entry')


def removal_contract():
    """remove_index as the renumbering needs it: it only shrinks the list (C09 proves: the survivors keep their order), so a list in which every cell
    is listed once and no entry is null stays one"""
    def post(C):
        n = C.new; V = C.arg('vector').ref
        return [('no-null-entry', all_non_null(n, V)), ('every-cell-listed-once', listed_once(n, V)), ('length-nonneg', n.len(V) >= 0)]
    fr = lambda C: [('vec.len', [C.arg('vector').ref]), ('vec.data.int', [C.arg('vector').ref]), ('vec.epoch', [C.arg('vector').ref])]
    return Contract('remove_index', PROP, frame=fr, post=post, assumed=True,
                    name='remove_index (writes only the vector it is given; a duplicate-free list of non-null cells stays one: subsequence, C09)')


def inv_renumber(L):
    if not L.st.ghost.get('popinv'): return []
    lst = L.var('cell_lst').ref; k = L.var('local_cell_id')
    cur = L.cur
    return [('position-in-range', z3.And(k >= 0, k <= cur.len(lst))),
            ('every-earlier-cell-has-its-position-as-index', QForall(lambda j: z3.Implies(z3.And(j >= 0, j < k), cur.f(cur.at(lst, j, 'int'), 'cell.local_id_') == j), 1, 'renumbered prefix'))]


def post_popinv(C):
    if C.outcome not in ('ret', None, 'end'): return []
    n = C.new
    lst = lv(C, 'cell_lst', C.post_state).ref
    return [('after-a-removal-every-cell-has-its-list-position-as-position-index',
             QForall(lambda j: z3.Implies(z3.And(j >= 0, j < n.len(lst)), n.f(n.at(lst, j, 'int'), 'cell.local_id_') == j), 1, 'POP-INV'))]


def pre_popinv(C):
    o = C.old
    dl = lv(C, 'cells_to_delete_lst').ref; lst = lv(C, 'cell_lst').ref
    return [('a-mother-was-scheduled-for-removal', o.len(dl) > 0), ('population-list-is-not-a-container-of-a-cell', not_owned_by_a_cell(C, lst)),
            ('lists-are-distinct-objects', dl != lst)]


def inv_renumber_solver(L):
    if not L.st.ghost.get('popinv'): return []
    cur = L.cur
    lst = cur.sub(L.this.ref if hasattr(L.this, 'ref') else L.this, 'solver.cell_lst_'); k = L.var('local_cell_id')
    return [('position-in-range', z3.And(k >= 0, k <= cur.len(lst))),
            ('every-earlier-cell-has-its-position-as-index', QForall(lambda j: z3.Implies(z3.And(j >= 0, j < k), cur.f(cur.at(lst, j, 'int'), 'cell.local_id_') == j), 1, 'renumbered prefix'))]


def pre_popinv_solver(C):
    o = C.old
    lst = o.sub(C.this, 'solver.cell_lst_')
    return [('no-null-entry', all_non_null(o, lst)), ('every-cell-listed-once', listed_once(o, lst)), ('length-nonneg', o.len(lst) >= 0),
            ('time-integrator-present', o.f(C.this, 'solver.time_integrator_ptr_') > 0)]


def post_popinv_solver(C):
    if C.outcome not in ('ret', None, 'end'): return []
    n = C.new
    lst = n.sub(C.this, 'solver.cell_lst_')
    return [('at-the-end-of-an-iteration-every-cell-has-its-list-position-as-position-index',
             QForall(lambda j: z3.Implies(z3.And(j >= 0, j < n.len(lst)), n.f(n.at(lst, j, 'int'), 'cell.local_id_') == j), 1, 'POP-INV'))]


def remove_index_contract():
    def on_call(C, st):
        st.ghost['remove_index_calls'] = st.ghost.get('remove_index_calls', z3.IntVal(0)) + 1
    fr = lambda C: [('vec.len', [C.arg('vector').ref]), ('vec.data.int', [C.arg('vector').ref]), ('vec.epoch', [C.arg('vector').ref])]
    return Contract('remove_index', PROP, frame=fr, on_call=on_call, assumed=True, name='remove_index (writes only the vector it is given; call recorded)')


# ---- removal of small cells must re-establish POP-INV ------------------------------------------------------------------------------------
def post_iteration_popinv(C):
    """after run_iteration every cell's position index is its list position again (loop-exit state of the renumbering loop)"""
    if C.outcome != 'ret': return []
    g = C.post_state.ghost
    cnt = g.get('removal_count', z3.IntVal(0))
    renumber = [k for k in g if str(k).startswith('loop_exit:')]
    return [('position-indices-are-renumbered-after-the-removal', z3.BoolVal('renumbered_after_removal' in g))]


# ---- the id counter seen by the caller: solver::run_iteration up to the end of the division step, cell_divider::run inlined -----------
def setup_solver(eng, st, args, this):
    st.ghost['solver'] = this.ref


def inv_counter(L):
    s = L.st.ghost.get('solver')
    dl = L.var('cells_to_delete_lst').ref
    e0 = L.entry
    if s is None: return [('removal-list-nonneg', L.cur.len(dl) >= 0)]          # cell_divider::run on its own (no caller in sight)
    return [('caller-counter-advances-by-two-per-scheduled-removal', L.cur.f(s, 'solver.max_cell_id_') == e0.f(s, 'solver.max_cell_id_') + 2 * L.cur.len(dl)),
            ('removal-list-nonneg', L.cur.len(dl) >= 0)]


def post_counter(C):
    o, n = C.old, C.new
    if C.outcome != 'loop-entry': return []
    return [('id-counter-never-decreases', n.f(C.this, 'solver.max_cell_id_') >= o.f(C.this, 'solver.max_cell_id_'))]


def save_mesh_contract():
    return Contract('solver::save_mesh', PROP, frame=lambda C: [('solver.file_number_', [C.this.ref])], assumed=True, name='solver::save_mesh (writes files and file_number_ only)')


def pre_iter_renumber(C):
    o = C.old
    k = val(C, 'local_cell_id'); lst = o.sub(C.this, 'solver.cell_lst_')
    return [('index-in-range', z3.And(k >= 0, k < o.len(lst))), ('cell-non-null', o.at(lst, k, 'int') > 0)]


def post_iter_renumber(C):
    o, n = C.old, C.new
    k = val(C, 'local_cell_id'); lst = o.sub(C.this, 'solver.cell_lst_')
    return [('position-index-is-the-list-position', n.f(o.at(lst, k, 'int'), 'cell.local_id_') == k)]


def havoc_nothing(qn):
    return Contract(qn, PROP, frame=lambda C: [], name=qn + ' (a const getter of the time integrator)')


def havoc(qn):
    return Contract(qn, PROP, frame=lambda C: [('*', None)], name=qn + ' (any effect)')


def post_iter_structure(C):
    """the renumbering loop is entered after the removal on every normal path"""
    if C.outcome != 'loop-entry': return []
    g = C.post_state.ghost
    return [('removal-precedes-the-renumbering', g.get('removal_count', z3.IntVal(0)) == 1),
            ('renumbering-starts-at-the-first-position', val(C, 'local_cell_id', C.post_state) == 0)]


def build(reg, cfg):
    if cfg['SIMUCELL3D_VERIF_CONTACT_MODEL_INDEX'] == 2:
        # the other compile-time form of a stored cross-reference: the per-node map of couplings of the face-face model (C07 contract re-run):
        # key = position index of the partner cell, value = (id of a node of the visited face of that cell, squared distance), entered on both sides
        sub = __import__('spec').Registry()
        C07.build(sub, cfg)
        for c in sub.contracts:
            if c.qname == 'contact_face_face_via_coupling::resolve_contact' and c.post is not None and 'precondition of the contact rule' not in c.name:
                c.prop = PROP; c.name = c.name + ' [as in C07: couplings are stored under the position index of the partner cell and name a node of the visited face]'
                reg.add(c)
        return
    reg.add(Contract('solver::solver', PROP, signature='global_simulation_parameters', pre=pre_ctor_ids, post=post_ctor_ids, slice_loop=0, name='solver::solver::<id loop body>'))
    reg.add(Contract('cell_divider::run', PROP, pre=pre_division_body, post=post_division_body, slice_loop=0, use=[divide_contract()], safety={'bounds'},
                     name='cell_divider::run::<division loop body>'))
    reg.add(Contract('cell_divider::run', PROP, pre=pre_renumber_body, post=post_renumber_body, slice_loop=1, safety={'bounds'},
                     name='cell_divider::run::<renumbering loop body>'))
    reg.add_loop(LoopContract('cell_divider::run', 0, inv_counter, modifies=['*']))
    reg.add(Contract('cell_divider::run', PROP, post=post_divider_structure, prefix_loop=1, use=[divide_contract(), remove_index_contract()],
                     name='cell_divider::run::<removal then renumbering from position 0>'))
    reg.add_loop(LoopContract('cell_divider::run', 1, inv_renumber, modifies=['cell.local_id_']))
    reg.add(Contract('cell_divider::run', PROP, pre=pre_popinv, post=post_popinv, suffix_loop=1, setup=setup_popinv, use=[removal_contract()], safety={'bounds'},
                     name='cell_divider::run::<from the removal to the end: every position index is the list position>'))
    reg.add(Contract('solver::run_iteration', PROP, post=post_counter, prefix_loop=0, setup=setup_solver,
                     use=[save_mesh_contract(), divide_contract(), remove_index_contract()], name='solver::run_iteration::<division step, id counter>'))
    reg.add(Contract('solver::run_iteration', PROP, pre=pre_iter_renumber, post=post_iter_renumber, slice_loop=3, safety={'bounds'},
                     name='solver::run_iteration::<renumbering after removal, loop body>'))
    hv = [havoc(q) for q in ('solver::save_mesh', 'cell_divider::run', 'cell::update_face_types', 'local_mesh_refiner::refine_meshes', 'contact_model_abstract::run',
                             'cell::special_polarization_update', 'cell::apply_internal_forces', 'abstract_statistics_writer::write_data',
                             'time_integration_scheme::update_nodes_positions')]
    for k in range(3):
        reg.add_loop(LoopContract('solver::run_iteration', k, lambda L: [], modifies=['*']))
    reg.add_loop(LoopContract('solver::run_iteration', 3, inv_renumber_solver, modifies=['cell.local_id_']))
    reg.add(Contract('solver::run_iteration', PROP, pre=pre_popinv_solver, post=post_popinv_solver, suffix_loop=3, setup=setup_popinv, safety={'bounds'},
                     use=[havoc_nothing('time_integration_scheme::is_step_tmp'), havoc_nothing('time_integration_scheme::get_simulation_time')],
                     name='solver::run_iteration::<from the renumbering loop to the end: every position index is the list position>'))
    reg.add(Contract('solver::run_iteration', PROP, post=post_iter_structure, prefix_loop=3, use=hv,
                     name='solver::run_iteration::<removal then renumbering>'))
    # contact couplings store (position index of the partner cell, node id): the C07 contract of the per-pair rule
    sub = __import__('spec').Registry()
    C07.build(sub, cfg)
    for c in sub.contracts:
        if 'resolve_contact' in c.name:
            c.prop = PROP; c.name = c.name + ' [as in C07: couplings designate a node of the partner cell by its position index]'
            reg.add(c)
        elif 'coupling reset loop' in c.name:
            # a stored partner is only valid for the iteration it was written in (positions change with every division / removal): every live
            # node must start the contact phase uncoupled, whatever its curvature
            c.prop = PROP; c.name = c.name + ' [as in C07: no stored partner survives into the next iteration]'
            reg.add(c)


# ------------------------------------------------------------------------------------------------ native replay (population level)
def _division_obligation(ob):
    return 'cell_divider::run' in (ob.info.get('contract') or '') or 'cell_divider::run' in (ob.info.get('fn') or '')


def replay(ob, ins, run):
    """refuted obligations about cell_divider::run are replayed on the real routine: a row of six cells, several of them dividing in the same
    pass (driver of C09: position indices against list positions, duplicate ids, emptied mothers, id counter); other obligations have no
    native scenario here"""
    if not _division_obligation(ob): return {'confirmed': False, 'output': 'no native scenario for this obligation'}
    import C09
    return C09.replay(ob, ins, run)


def replay_recorded(data):
    import C09
    return C09.replay_recorded(data)

EXPLANATION = ("Contracts on the places where identities are created and where the population list changes: the id loop of the solver constructor "
               "(arbitrary iteration: persistent id = position index = counter value, counter advances); cell_divider::run - an arbitrary "
               "iteration of the division loop with divide_cell by contract (nullopt or two fresh cells): daughters get the next two unused "
               "ids, the counter advances by two, daughters are appended, the mother's position is scheduled for removal, earlier list entries "
               "are kept, a failed division changes nothing; an arbitrary iteration of the renumbering loop sets local_id_ to the list "
               "position; solver::run_iteration with cell_divider::run inlined: the caller's id counter advances by two per scheduled removal "
               "(loop invariant on the solver's own field, so a counter passed by value is refuted) and never decreases; after the removal of "
               "small cells the renumbering loop is entered (structure contract) and its body re-establishes local_id_ == position; the "
               "per-pair contact rule stores (position index of the partner cell, node id of a node of the visited face) as coupling (C07 "
               "contract re-run). Ids are unique and never reused because every id handed out is the current value of a counter that only grows. "
               "Whole-list form of POP-INV (loop invariants, not only an arbitrary iteration): cell_divider::run from the removal of the mothers to "
               "its end, and solver::run_iteration from its renumbering loop to its end, started in an arbitrary state in which every cell is "
               "listed once and no entry is null: the loop starts at position 0, keeps 'every earlier cell has its position as index' and on "
               "exit every cell of the list has local_id_ == its position (so a loop that starts later, stops earlier or skips is refuted); "
               "cell_divider::run up to the renumbering loop: the loop follows the single remove_index call and starts at position 0.")
ASSUMPTIONS = ["divide_cell returns nullopt or two fresh cells and does not touch the population list (C09)",
               "remove_index leaves a list in which every cell is listed once and no entry is null (it only shrinks the list: C09 proves that the survivors keep their order); the population list has that form before the removal (cells are appended once: constructor loop / daughters)",
               "std::remove_if/erase and remove_index shrink the list without inserting (standard / own contract); save_mesh writes only file_number_ and files",
               "sequential semantics of the parallel division loop (the push_back inside '#pragma omp parallel for' is a data race: C15, not applicable)",
               "virtual calls are dispatched over every class of the AST that can be the dynamic type (closed world)"]
UNVERIFIED = ["face-type index of a face vs number of face types of its cell type (polarisation writes face types 1/2): not under contract",
              "owner_cell_ of faces after copies of cells (cell copy constructor / get_cell_same_type)", "contact model 2 stores couplings under get_local_id() but looks them up with get_id()"]
