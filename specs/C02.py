"""C02 - internal forces: per-element contracts on the force routines of cell (loop bodies, arbitrary face / hinge)."""
import z3
from spec import Contract, V3, LoopContract
from values import QForall
from prove import Via, Lemma

PROP = 'C02'
I = z3.IntSort(); R = z3.RealSort()
ZERO = V3(z3.RealVal(0), z3.RealVal(0), z3.RealVal(0))


def loopvar(C, name, st=None):
    st = st or C.pre_state
    for k, v in st.env.items():
        if C.e.var_names.get(k) == name and not str(k).startswith(('tmp!', 'glob!', 'param', 'rangeidx!')): return v
    raise KeyError(name)


def face_nodes(view, this, f):
    lst = view.sub(this, 'cell.node_lst_')
    ids = [view.f(f, 'face.n%d_id_' % k) for k in (1, 2, 3)]
    return lst, ids, [view.elem(lst, i) for i in ids]


def face_pre(C, fname='f'):
    """what the force loops rely on for the face they visit: node ids valid and distinct (C01), cache invariant FC(f) (C12)"""
    o = C.old
    f = loopvar(C, fname)
    lst, ids, nodes = face_nodes(o, C.this, f)
    x = [o.v3(r, 'node.pos_') for r in nodes]
    cr = (x[1] - x[0]).cross(x[2] - x[0])
    nrm = o.v3(f, 'face.normal_'); area = o.f(f, 'face.area_')
    nn = 2 * area
    return [('node-ids-in-range', z3.And(*[z3.And(i >= 0, i < o.len(lst)) for i in ids])),
            ('three-distinct-nodes', z3.And(ids[0] != ids[1], ids[0] != ids[2], ids[1] != ids[2])),
            ('face-cache-invariant', z3.And(area >= 0, nn * nn == cr.sq(), (nrm * nn).eq(cr)))]


def deltas(C, nodes):
    o, n = C.old, C.new
    return [n.v3(r, 'node.force_') - o.v3(r, 'node.force_') for r in nodes]


def frame_other_nodes(C, nodes):
    o, n = C.old, C.new
    other = z3.Int('any_other_node')
    return z3.Implies(z3.And(*[other != r for r in nodes]), n.v3(other, 'node.force_').eq(o.v3(other, 'node.force_')))


# ---- P1 pressure ----------------------------------------------------------------------------------------------------------
def post_pressure(C):
    o = C.old
    f = loopvar(C, 'f')
    lst, ids, nodes = face_nodes(o, C.this, f)
    x = [o.v3(r, 'node.pos_') for r in nodes]
    cr = (x[1] - x[0]).cross(x[2] - x[0])
    p = o.f(C.this, 'cell.pressure_')
    used = o.f(f, 'face.is_used_')
    d = deltas(C, nodes)
    # p*cr/6 = p * dV_f/dx_i + (antisymmetric edge terms that cancel on a closed surface), V_f = x1.(x2 x x3)/6
    out = [('unused-face-exerts-no-pressure-force', z3.Implies(z3.Not(used), z3.And(*[di.eq(ZERO) for di in d])))]
    for k, di in enumerate(d):
        out.append(('node-%d-receives-pressure-times-a-third-of-the-area-vector' % (k + 1), z3.Implies(used, (di * 6).eq(cr * p))))
    out.append(('no-other-node-receives-force', frame_other_nodes(C, nodes)))
    return out


# ---- P2 surface tension + membrane elasticity -------------------------------------------------------------------------------
def post_tension(C):
    o = C.old
    f = loopvar(C, 'f')
    lst, ids, nodes = face_nodes(o, C.this, f)
    x = [o.v3(r, 'node.pos_') for r in nodes]
    cr = (x[1] - x[0]).cross(x[2] - x[0])
    area = o.f(f, 'face.area_'); nn = 2 * area
    ct = o.f(C.this, 'cell.cell_type_')
    ft = o.elem(o.sub(ct, 'cell_type_parameters.face_types_'), o.f(f, 'face.type_id_'))
    gamma = o.f(ft, 'face_type_parameters.surface_tension_')
    kA = o.f(ct, 'cell_type_parameters.area_elasticity_modulus_')
    At = o.f(C.this, 'cell.target_area_'); Ac = o.f(C.this, 'cell.area_')
    gamma_eff = gamma + (kA / At) * (Ac / At - 1)
    used = o.f(f, 'face.is_used_')
    d = deltas(C, nodes)
    active = z3.And(used, area != 0)
    # dA/dx_i = (1/(2 nn)) cr x (x_k - x_j)  (lemma area-gradient); stated without division: nn * force_i = -gamma_eff/2 * cr x (x_k - x_j)
    opp = [(x[2] - x[1]), (x[0] - x[2]), (x[1] - x[0])]
    nrm = o.v3(f, 'face.normal_')
    out = [('unused-or-degenerate-face-exerts-no-force', z3.Implies(z3.Not(active), z3.And(*[di.eq(ZERO) for di in d])))]
    for k, di in enumerate(d):
        # the cached unit normal times nn IS the area vector cr (face-cache invariant, a precondition), so this reads
        # nn * force_i = -gamma_eff/2 * cr x (x_k - x_j), i.e. force_i = -gamma_eff * dA/dx_i (lemma area-gradient)
        out.append(('node-%d-force-is-minus-effective-tension-times-area-gradient' % (k + 1),
                    z3.Implies(active, (di * nn).eq((nrm * nn).cross(opp[k]) * (-gamma_eff / 2)))))
    out.append(('face-forces-sum-to-zero', (d[0] + d[1] + d[2]).eq(ZERO)))
    e1, e2 = x[1] - x[0], x[2] - x[0]
    perp = [z3.And(cr.dot(e1) == 0, cr.dot(e2) == 0),                                   # the area vector is normal to both edges (identity)
            z3.And(nn * nrm.dot(e1) == cr.dot(e1), nn * nrm.dot(e2) == cr.dot(e2)),     # face-cache invariant
            z3.Implies(area != 0, z3.And(nrm.dot(e1) == 0, nrm.dot(e2) == 0))]
    out.append(('face-torques-sum-to-zero', (x[0].cross(d[0]) + x[1].cross(d[1]) + x[2].cross(d[2])).eq(ZERO), None, perp))
    out.append(('no-other-node-receives-force', frame_other_nodes(C, nodes)))
    return out


def pre_tension(C):
    o = C.old
    ct = o.f(C.this, 'cell.cell_type_')
    f = loopvar(C, 'f')
    fts = o.sub(ct, 'cell_type_parameters.face_types_')
    return face_pre(C) + [('target-area-positive', o.f(C.this, 'cell.target_area_') > 0),
                          ('face-type-index-valid', z3.And(o.f(f, 'face.type_id_') >= 0, o.f(f, 'face.type_id_') < o.len(fts)))]


def post_tension_prologue(C):
    o, n = C.old, C.new
    ct = o.f(C.this, 'cell.cell_type_')
    cbrt = C.e.uf('libm.cbrt', R, R)
    return [('target-area-from-the-isoperimetric-ratio', n.f(C.this, 'cell.target_area_') == cbrt(o.f(ct, 'cell_type_parameters.target_isoperimetric_ratio_') * o.f(C.this, 'cell.volume_') * o.f(C.this, 'cell.volume_')))]


# ---- P4 angle regularisation: the three gradients of one angle sum to zero ------------------------------------------------
def post_angle_gradient(C):
    g = [V3.of(C.ret.f[str(k)]) for k in range(3)]
    return [('gradients-of-an-angle-sum-to-zero', (g[0] + g[1] + g[2]).eq(ZERO))]


def lemmas(reg):
    # area gradient: with Q = |cr|^2 = (2A)^2, dQ/dx1 = 2 cr x (x3 - x2) ... checked as a polynomial identity on the components of the gradient
    x1, x2, x3 = V3.fresh('lx1'), V3.fresh('lx2'), V3.fresh('lx3')
    h = V3.fresh('lh')                    # direction of differentiation
    t = z3.Real('lt')
    def Q(a): cr = (x2 - a).cross(x3 - a); return cr.sq()
    # directional derivative of Q at x1 along h equals 2 * (cr x (x3 - x2)) . h : compare coefficients of t in Q(x1 + t h)
    cr = (x2 - x1).cross(x3 - x1)
    lin = cr.cross(x3 - x2).dot(h) * 2
    lhs = Q(x1 + h * t) - Q(x1)
    # Q(x1 + t h) - Q(x1) - t*lin is divisible by t^2: check at the level of d/dt at t=0 via the exact quadratic form
    quad = ((x2 - x1).cross(h * (-1)) + (h * (-1)).cross(x3 - x1))
    reg.lemma('area-gradient', PROP, [], lhs == t * lin + t * t * quad.sq(),
              note='|cr(x1 + t h)|^2 = |cr|^2 + 2 t (cr x (x3-x2)).h + t^2 |h x (x3-x2)|^2, hence d|cr|^2/dx1 = 2 cr x (x3 - x2) and dA/dx1 = cr x (x3-x2)/(2|cr|)',
              inputs=x1.comps() + x2.comps() + x3.comps() + h.comps() + [t])
    # pressure: the area vector is the gradient of the face's signed volume contribution up to terms that cancel on a closed surface
    V = lambda a, b, c: a.dot(b.cross(c))
    lhsV = V(x1 + h * t, x2, x3) - V(x1, x2, x3)
    reg.lemma('volume-gradient', PROP, [], lhsV == t * x2.cross(x3).dot(h),
              note='d(x1.(x2 x x3))/dx1 = x2 x x3; and cr = x2 x x3 + x3 x x1 + x1 x x2, so p*cr/6 = p*dV_f/dx1 + p*(x3 x x1 + x1 x x2)/6 where the last terms cancel between the faces around a vertex of a closed oriented surface (lemma L-closed, quoted)',
              inputs=x1.comps() + x2.comps() + x3.comps() + h.comps() + [t])
    reg.lemma('area-vector-decomposition', PROP, [], (x2 - x1).cross(x3 - x1).eq(x2.cross(x3) + x3.cross(x1) + x1.cross(x2)),
              inputs=x1.comps() + x2.comps() + x3.comps())


# ---- which force routines an iteration applies to a cell, and on which cache --------------------------------------------------------------------------
def force_stage(qn, tag):
    def on_call(C, st):
        st.ghost['force_stages'] = st.ghost.get('force_stages', ()) + (tag,)
    return Contract(qn, PROP, frame=lambda C: [('*', None)], on_call=on_call, assumed=True, name=qn + ' (any effect; call recorded)')


def post_force_stages(C):
    if C.outcome not in (None, 'ret', 'end'): return []
    got = tuple(C.post_state.ghost.get('force_stages', ()))
    want = ('cache', 'pressure', 'tension', 'bending', 'angles')
    return [('the-face-cache-is-refreshed-first-then-each-force-routine-is-applied-exactly-once', z3.BoolVal(got == want))]



def build(reg):
    reg.add(Contract('cell::apply_pressure_on_surface', PROP, pre=face_pre, post=post_pressure, slice_loop=0, safety={'bounds'},
                     name='cell::apply_pressure_on_surface::<per-face body>'))
    reg.add(Contract('cell::apply_surface_tension_and_membrane_elasticity', PROP, pre=pre_tension, post=post_tension, slice_loop=0, safety={'bounds'},
                     name='cell::apply_surface_tension_and_membrane_elasticity::<per-face body>'))
    reg.add(Contract('cell::apply_surface_tension_and_membrane_elasticity', PROP, post=post_tension_prologue, prefix_loop=0,
                     name='cell::apply_surface_tension_and_membrane_elasticity::<prologue>'))
    reg.add(Contract('cell::get_angle_gradient', PROP, post=post_angle_gradient, name_locals=1))
    lemmas(reg)
    # the face cache the force routines read (FC(f): area = |cr|/2, unit normal = cr/|cr|, zero normal only for a face of zero area) is C12's
    # contract of update_face_normal_and_area, re-checked here because every force of this property is computed from that cache
    import C12
    sub = __import__('spec').Registry(); C12.build(sub)
    for c in sub.contracts:
        if c.qname == 'cell::update_face_normal_and_area' and c.post is not None and not getattr(c, 'assumed', False):
            c.prop = PROP; c.name = c.name + ' [as in C12: the cache the forces are computed from]'; reg.add(c)
    for k, lc in sub.loops.items(): reg.loops.setdefault(k, lc)
    reg.add(Contract('cell::apply_internal_forces', PROP, post=post_force_stages, name='cell::apply_internal_forces::<which forces, on which cache>', use=[
        force_stage('cell::update_all_face_normals_and_areas', 'cache'), force_stage('cell::apply_pressure_on_surface', 'pressure'),
        force_stage('cell::apply_surface_tension_and_membrane_elasticity', 'tension'), force_stage('cell::apply_bending_forces', 'bending'),
        force_stage('cell::regularize_all_face_angles', 'angles'),
        Contract('cell::compute_area', PROP, frame=lambda C: [], assumed=True, name='cell::compute_area (reads only)'),
        Contract('cell::compute_volume', PROP, frame=lambda C: [], assumed=True, name='cell::compute_volume (reads only)'),
        Contract('cell::update_target_volume', PROP, frame=lambda C: [('cell.target_volume_', None)], assumed=True, name='cell::update_target_volume (C04)'),
        Contract('cell::update_pressure', PROP, frame=lambda C: [('cell.pressure_', None), ('cell.pressure_energy_', None)], assumed=True, name='cell::update_pressure (C04)'),
        Contract('cell::compute_node_curvature_and_normals', PROP, frame=lambda C: [('*', None)], assumed=True, name='cell::compute_node_curvature_and_normals (any effect)')]))


# The hinge (bending) forces and the angle-regularisation forces are not under a deductive contract (cot / acos / sin / cos of the
# dihedral angle). Their zero-net-force / zero-net-torque clause is exercised natively on the real routines for a fixed list of closed
# meshes: a BOUNDED stand-in (stated bound: the listed shapes), reported under bounded_checks, never as proved.
SUM_DRIVER = r'''
#include <cstdio>
#include <cstdlib>
#include <cmath>
#include <map>
#include <array>
#include "epithelial_cell.hpp"
// argv[1]: "bending" | "angles"; argv[2]: shape id. The named internal force routine of the real cell class is applied alone to a
// closed mesh away from the origin; net force and net torque (about the origin) must vanish relative to the largest nodal force.
static void icosphere(int sub, std::vector<double>& pos, std::vector<unsigned>& faces){
  const double t = (1. + std::sqrt(5.)) / 2.;
  std::vector<std::array<double,3>> v{{-1,t,0},{1,t,0},{-1,-t,0},{1,-t,0},{0,-1,t},{0,1,t},{0,-1,-t},{0,1,-t},{t,0,-1},{t,0,1},{-t,0,-1},{-t,0,1}};
  std::vector<std::array<unsigned,3>> f{{0,11,5},{0,5,1},{0,1,7},{0,7,10},{0,10,11},{1,5,9},{5,11,4},{11,10,2},{10,7,6},{7,1,8},{3,9,4},{3,4,2},{3,2,6},{3,6,8},{3,8,9},{4,9,5},{2,4,11},{6,2,10},{8,6,7},{9,8,1}};
  auto nrm = [](std::array<double,3>& p){ double n = std::sqrt(p[0]*p[0]+p[1]*p[1]+p[2]*p[2]); p[0]/=n; p[1]/=n; p[2]/=n; };
  for(auto& p: v) nrm(p);
  for(int s = 0; s < sub; s++){
    std::map<std::pair<unsigned,unsigned>, unsigned> cache;
    auto mid = [&](unsigned a, unsigned b){ auto k = std::make_pair(std::min(a,b), std::max(a,b)); auto it = cache.find(k); if(it != cache.end()) return it->second;
      std::array<double,3> m{(v[a][0]+v[b][0])/2, (v[a][1]+v[b][1])/2, (v[a][2]+v[b][2])/2}; nrm(m); v.push_back(m); return cache[k] = (unsigned)v.size()-1; };
    std::vector<std::array<unsigned,3>> f2;
    for(auto& tr: f){ unsigned a = mid(tr[0],tr[1]), b = mid(tr[1],tr[2]), c = mid(tr[2],tr[0]); f2.push_back({tr[0],a,c}); f2.push_back({tr[1],b,a}); f2.push_back({tr[2],c,b}); f2.push_back({a,b,c}); }
    f = f2;
  }
  for(auto& p: v){ pos.push_back(p[0]); pos.push_back(p[1]); pos.push_back(p[2]); }
  for(auto& tr: f){ faces.push_back(tr[0]); faces.push_back(tr[1]); faces.push_back(tr[2]); }
}
int main(int argc, char** argv){
  const std::string what = argv[1]; const int shape = atoi(argv[2]);
  face_type_parameters ft; ft.name_ = "apical"; ft.face_type_global_id_ = 0; ft.surface_tension_ = 1e-3; ft.bending_modulus_ = 2e-2; ft.adherence_strength_ = 0; ft.repulsion_strength_ = 0;
  auto ct = std::make_shared<cell_type_parameters>(); ct->name_ = "epithelial"; ct->global_type_id_ = 0; ct->angle_regularization_factor_ = 3e-3; ct->add_face_type(ft);
  std::vector<double> pos; std::vector<unsigned> faces; icosphere(shape % 2 ? 1 : 0, pos, faces);
  // anisotropic scaling, a deterministic perturbation of every node, and a shift away from the origin
  for(size_t k = 0; k < pos.size() / 3; k++){
    double s1 = std::sin(12.9898 * (k + 1) + shape), s2 = std::sin(78.233 * (k + 1) + 2 * shape), s3 = std::sin(37.719 * (k + 1) + 3 * shape);
    pos[3*k] = 1.4 * pos[3*k] + 0.08 * s1 + 3.1; pos[3*k+1] = 0.9 * pos[3*k+1] + 0.08 * s2 - 2.3; pos[3*k+2] = 1.1 * pos[3*k+2] + 0.08 * s3 + 1.7;
  }
  if(shape >= 4){ for(size_t k = 0; k < pos.size() / 3; k++){ double z = pos[3*k+2] - 1.7; if(z > 0.35) pos[3*k+2] = 1.7 + 0.7 - z; } }      // a dimple: concave hinges
  auto c = std::make_shared<epithelial_cell>(pos, faces, 0, ct); c->initialize_cell_properties(true);
  for(node& n: c->node_lst_) n.force_ = vec3(0, 0, 0);
  if(what == "bending") c->apply_bending_forces(); else c->regularize_all_face_angles();
  vec3 F(0,0,0), T(0,0,0); double fmax = 0, rmax = 0;
  for(const node& n: c->node_lst_){ if(!n.is_used()) continue; F = F + n.force_; T = T + n.pos_.cross(n.force_); fmax = std::max(fmax, n.force_.norm()); rmax = std::max(rmax, n.pos_.norm()); }
  if(fmax == 0){ printf("INCONCLUSIVE the routine applied no force\n"); return 0; }
  const double rf = F.norm() / fmax, rt = T.norm() / (fmax * rmax);
  printf("%s shape %d: |sum F| / max|f| = %.3g, |sum x cross f| / (max|f| max|x|) = %.3g\n", what.c_str(), shape, rf, rt);
  if(rf > 1e-9 || rt > 1e-9){ printf("FAIL the %s forces of a closed mesh do not add up to zero net force and torque\n", what.c_str()); return 1; }
  printf("OK\n"); return 0;
}
'''
SUM_CASES = [('bending', '0'), ('bending', '1'), ('bending', '5'), ('angles', '0'), ('angles', '5'), ('bending', '2'), ('bending', '3'), ('bending', '4'), ('bending', '7'), ('angles', '2'), ('angles', '3'), ('angles', '4')]


def extra_checks(run):
    import native, json, os
    out = []
    for what, shape in (SUM_CASES if run.tier == 'thorough' else SUM_CASES[:5]):
        code, txt = native.run_driver(SUM_DRIVER, [what, shape], timeout=600)
        name = 'C02/bounded/net-force-and-torque-of-the-%s-forces[shape=%s]' % (what, shape)
        rec = {'name': name, 'bound': 'one perturbed, anisotropically scaled icosphere (id %s) away from the origin; the real cell::%s applied alone; IEEE doubles, tolerance 1e-9 relative to the largest nodal force' % (shape, 'apply_bending_forces' if what == 'bending' else 'regularize_all_face_angles'),
               'result': 'sums vanish' if code == 0 else ('net force / torque not zero' if code == 1 else 'driver failed (%d)' % code), 'output': txt[-400:]}
        if code == 1:
            rp = os.path.join(os.path.dirname(os.path.dirname(os.path.abspath(__file__))), 'replays', 'C02-bounded-sums-%s-%s.json' % (what, shape))
            os.makedirs(os.path.dirname(rp), exist_ok=True)
            json.dump({'property': 'C02', 'obligation': name, 'native': {'args': [what, shape], 'output': txt}, 'confirmed': True}, open(rp, 'w'), indent=1)
            rec.update({'violation': True, 'replay': rp, 'confirmed': True})
        out.append(rec)
    return out


EXPLANATION = ("Per-element contracts (arbitrary iteration of the per-face loops, from an arbitrary state satisfying the stated invariants): "
               "pressure: an unused face exerts nothing; a used face gives each of its three nodes p*cr/6 with cr the area vector of the current "
               "node positions (sign, factor 1/3, normal and area all pinned by this), nothing else is written; "
               "tension + membrane elasticity: unused / zero-area faces exert nothing; nn*force_i = -gamma_eff/2 * cr x (x_k - x_j), i.e. "
               "force_i = -gamma_eff * dA/dx_i with gamma_eff = gamma(face type) + (k_A/A_t)(A_cell/A_t - 1); the three forces of a face sum to "
               "zero and have zero total torque; the target area is cbrt(ratio*V^2) on loop entry (prefix contract). "
               "Lemmas (mathematics, same back ends): d|cr|^2/dx1 = 2 cr x (x3-x2) (area gradient), d(x1.(x2 x x3))/dx1 = x2 x x3 (volume gradient), "
               "cr = x2 x x3 + x3 x x1 + x1 x x2. get_angle_gradient: the three gradients sum to zero on every return path. "
               "Net pressure force/torque zero and 'pressure force = p dV/dx_i' for the whole cell additionally need the quoted lemma L-closed "
               "(antisymmetric edge terms cancel on a closed oriented surface); they are not machine-checked.")
ASSUMPTIONS = ["exact reals", "face-cache invariant FC(f): area >= 0, (2 area)^2 = |cr|^2, normal*(2 area) = cr for the faces visited (established by update_face_normal_and_area, C12; apply_internal_forces refreshes the cache first, C04)",
               "node ids of a live face are in range and pairwise distinct (C01)", "target area > 0",
               "L-closed (quoted): on a closed consistently oriented surface the per-face terms x3 x x1 + x1 x x2 cancel around every vertex and the area vectors sum to zero"]
UNVERIFIED = ["cell::apply_bending_forces (hinge forces) and cell::regularize_face_angles beyond the zero-sum of the angle gradients: not under a deductive contract; their net force / torque is sampled by the bounded native check only",
              "rotation equivariance of the kernels (translation equivariance is immediate: only differences of positions and the cached normal enter)"]
