"""C10 - no invalid memory access or undefined behaviour anywhere in a simulation.
Contracts with memory-safety obligations on the code paths the property names (remeshing primitives and operations, mesh reader),
plus facts read off the AST: initialisation of per-node state, virtual destructors of classes destroyed through a base pointer,
bounded formatting buffer."""
import z3
from spec import Contract, LoopContract, V3
from values import QForall, ObjLV, Ptr, Rec
import meshops as M
import C17

PROP = 'C10'
CONFIGS = [{'SIMUCELL3D_VERIF_DYNAMIC_MODEL_INDEX': 0}]


# ---- facts read off the AST ------------------------------------------------------------------------------------------------------------
def user_ctors(ast, r):
    out = []
    for c in r.get('inner', []):
        if c.get('kind') != 'CXXConstructorDecl' or c.get('isImplicit'): continue
        d = ast.fn_def.get(c['id'], c)
        if d.get('explicitlyDefaulted') or ast.body_of(d) is None: continue
        out.append(d)
    return out


def members_initialised(eng):
    """every scalar data member of node has a value after every user-written constructor (in-class initialiser, mem-initialiser or an
    assignment in the constructor body): the contact phase reads them before anything else writes them"""
    ast = eng.ast
    out = []
    for cls in ('node',):
        r = ast.records[cls]
        fields = [c for c in r.get('inner', []) if c.get('kind') == 'FieldDecl']
        for d in user_ctors(ast, r):
            inits = set()
            for x in d.get('inner', []):
                if x.get('kind') == 'CXXCtorInitializer' and 'anyInit' in x: inits.add(x['anyInit']['name'])
            def visit(n):
                if not isinstance(n, dict): return
                if n.get('kind') == 'BinaryOperator' and n.get('opcode') == '=':
                    t = n['inner'][0]
                    while isinstance(t, dict) and t.get('kind') in ('ImplicitCastExpr', 'ParenExpr'): t = t['inner'][0]
                    if t.get('kind') == 'MemberExpr' and t.get('inner') and t['inner'][0].get('kind') == 'CXXThisExpr': inits.add(t.get('name'))
                for ch in n.get('inner', []): visit(ch)
            visit(ast.body_of(d))
            missing = []
            for f in fields:
                qt = f['type'].get('desugaredQualType') or f['type']['qualType']
                scalar = qt in ('double', 'float', 'int', 'unsigned int', 'bool', 'unsigned short', 'short', 'unsigned long', 'long')
                has_default = any(isinstance(x, dict) and 'kind' in x and x['kind'] != 'FullComment' for x in f.get('inner', []))
                if scalar and not has_default and f['name'] not in inits: missing.append(f['name'])
            sig = d['type']['qualType'].split(')')[0] + ')'
            out.append(('every-scalar-member-of-%s-is-initialised-by-constructor %s' % (cls, sig), not missing, 'uninitialised after the constructor: %r' % missing if missing else 'all scalar members have a value'))
    out.append(('node-constructors-found', len(out) >= 2, '%d user-written constructors of node' % len(out)))
    return out


def virtual_destructors(eng):
    """a class that is owned through std::unique_ptr<Base> and has derived classes is destroyed through Base*: Base needs a virtual destructor"""
    ast = eng.ast
    import re
    derived = {}
    for name, r in ast.records.items():
        for b in ast.bases_of(r):
            derived.setdefault(b.replace('class ', '').strip(), []).append(name)
    owned = set()
    for name, r in ast.records.items():
        for f in r.get('inner', []):
            if f.get('kind') != 'FieldDecl': continue
            m = re.search(r'unique_ptr<([A-Za-z_0-9:]+)', f['type'].get('qualType', ''))
            if m: owned.add(m.group(1))
    out = []
    for b in sorted(owned):
        if b not in derived or b not in ast.records: continue
        r = ast.records[b]
        dt = [c for c in r.get('inner', []) if c.get('kind') == 'CXXDestructorDecl']
        ok = any(d.get('virtual') for d in dt)
        out.append(('class-destroyed-through-unique_ptr-to-base-has-a-virtual-destructor:' + b, ok, 'derived classes: %r' % derived[b]))
    out.append(('owned-polymorphic-bases-found', len(out) >= 1, '%d base classes held by unique_ptr and derived from' % len(out)))
    return out


def _is_fraction_call(n):
    names = []
    def v(x):
        if isinstance(x, dict):
            if x.get('kind') == 'MemberExpr': names.append(x.get('name'))
            for ch in x.get('inner', []): v(ch)
    v(n)
    return 'get_contact_area_fraction' in names


def format_buffers(eng):
    """format_number writes with sprintf into char[30]: every call site passes a literal format whose output cannot exceed 29 characters
    (%d of a 32-bit integer: at most 11; %.Ne of a double with N <= 17: at most 25; inf/nan shorter)"""
    ast = eng.ast
    import re
    sites = []
    def visit(n, fn):
        if not isinstance(n, dict): return
        if n.get('kind') == 'CallExpr':
            callee = n['inner'][0]
            c = callee
            while isinstance(c, dict) and c.get('kind') in ('ImplicitCastExpr', 'ParenExpr'): c = c['inner'][0]
            if isinstance(c, dict) and c.get('kind') == 'DeclRefExpr' and (c.get('referencedDecl') or {}).get('name') == 'format_number':
                lits = []
                def lit(x):
                    if isinstance(x, dict):
                        if x.get('kind') == 'StringLiteral': lits.append(x.get('value', '').strip('"'))
                        for ch in x.get('inner', []): lit(ch)
                for a in n['inner'][1:]: lit(a)
                fmt = lits[0] if lits else None
                ok = fmt is not None and (fmt == '%d' or (re.fullmatch(r'%\.(\d+)e', fmt) is not None and int(re.fullmatch(r'%\.(\d+)e', fmt).group(1)) <= 17))
                # fixed-point formats are bounded only together with a bound on the value (|x| < 1e24 for %.3f): accepted for the one
                # quantity that is a ratio of areas of the same cell (listed in ASSUMPTIONS), reported otherwise
                fixed_ok = fmt is not None and re.fullmatch(r'%\.[0-3]f', fmt) is not None and _is_fraction_call(n)
                sites.append(((n.get('_file') or '?').replace(ast.repo + '/', ''), n.get('_line'), fmt, ok or fixed_ok))
        for ch in n.get('inner', []): visit(ch, fn)
    seen = set()
    for d in ast.fn_def.values():
        if id(d) in seen: continue
        seen.add(id(d)); visit(d, d)
    bad = [s for s in sites if not s[3]]
    # the buffer itself
    buf_ok = False
    for d in ast.find_functions('format_number'):
        def vd(n):
            nonlocal buf_ok
            if isinstance(n, dict):
                if n.get('kind') == 'VarDecl' and n.get('name') == 'buffer_char' and 'char[30]' in n['type'].get('qualType', '').replace(' ', ''): buf_ok = True
                for ch in n.get('inner', []): vd(ch)
        vd(d)
    return [('format_number-call-sites-use-short-literal-formats', not bad and len(sites) >= 10, '%d call sites; offending: %r' % (len(sites), bad[:5])),
            ('format_number-buffer-is-the-30-byte-array-the-bound-was-computed-for', buf_ok, 'char buffer_char[30]')]


def safety_only(c):
    """a contract of meshops with its postconditions removed: C10 keeps the memory-safety obligations (bounds, empty optional, dangling
    reference) and the preconditions of the callees at each call site"""
    c.post = None
    c.name = c.name + ' [memory safety]'
    return c


def build(reg, cfg=None):
    reg.plain_views = True
    reg.default_havoc = '*'
    reg.static_fact(members_initialised)
    reg.static_fact(virtual_destructors)
    reg.static_fact(format_buffers)
    reg.add(M.add_node_contract(PROP))
    reg.add(M.delete_face_contract(PROP))
    reg.add(M.add_face_contract(PROP))
    reg.add(M.generate_edge_set_body_contract(PROP))
    M.rebase_loops(reg)
    reg.add(M.rebase_contract(PROP))
    reg.add(safety_only(M.split_edge_contract(PROP)))
    SETKEYS = ['sset.member', 'set.size'] + ['vec.data.edge.' + l for l in M.EDGE_LEAVES]
    for k in range(4):
        reg.add_loop(LoopContract('local_mesh_refiner::merge_edge', 'for_each#%d' % k, lambda L: [], modifies=SETKEYS))
    reg.add(M.merge_edge_contract(PROP))
    # the mesh reader (C17): memory safety of get_cell_mesh for every pair of vectors
    sub = __import__('spec').Registry()
    C17.build(sub)
    for c in sub.contracts:
        if c.qname == 'mesh_reader::get_cell_mesh' and c.slice_loop == 0:
            c.prop = PROP; c.name = c.name + ' [as in C17]'; reg.add(c)
    for k, lc in sub.loops.items(): reg.loops.setdefault(k, lc)


replay = M.replay
replay_recorded = M.replay_recorded

EXPLANATION = ("Memory-safety obligations generated while the real code is executed symbolically under contracts: every vector indexing in "
               "bounds, no value() on an empty optional, no dereference of an end iterator, and - with a storage epoch per vector - no use of a "
               "reference bound to a vector element after an operation that may reallocate the vector. Under these obligations: cell::add_node "
               "(storage moves only when appending), delete_face, add_face, generate_edge_set (one face), split_edge and merge_edge (references "
               "into node_lst_/face_lst_ across add_node / create_face), rebase (a renumbering is always followed by a rebuild of the edge set, "
               "otherwise stale ids index the lists), mesh_reader::get_cell_mesh (C17). Facts read off the AST of the current tree: every scalar "
               "member of node has a value after every constructor; every class owned through unique_ptr<Base> with derived classes has a virtual "
               "destructor; every format_number call site uses a literal format that fits its 30-byte buffer.")
ASSUMPTIONS = ["format_number(c->get_contact_area_fraction(), \"%.3f\") (include/io/mesh_data.hpp): the value is a ratio of areas of one cell (at most about 1; overflow of the 30-byte buffer would need a ratio above 1e24)",
               "push_back / reserve / resize are treated as reallocating (C++ invalidates references when capacity is exceeded; spare capacity is not tracked)",
               "the local configuration handed to split_edge / merge_edge (C01/C11 preconditions); callee views as in C11",
               "sequential reading of OpenMP regions (data races are C15)"]
UNVERIFIED = ["ball_pivoting_algorithm.cpp (loops over containers that grow while iterated, lines 572-673): std::list / iterator heavy code outside the executor's library models",
              "swap_edge, replace_node, can_be_merged, the contact models' grids beyond C06/C20, destructors other than the two base classes named",
              "uninitialised reads other than the members of node (face::global_face_id_ and cell::local_id_ have no initial value in their constructors; they are written by set_local_ids / the solver constructor before use, not proved)",
              "everything only a sanitizer run of whole simulations can see (the property's observe_at): this check decides the listed obligations, not all executions"]
