"""C19 - output files and statistics (slice): numbering of the mesh files, the main loop, when statistics are written, and
which cell attribute each statistics column prints."""
import z3
from spec import Contract, V3, LoopContract
from values import QForall, ObjLV, Ptr, GuardedLog

PROP = 'C19'
I = z3.IntSort(); R = z3.RealSort()
S = 'solver.'; GSP = 'global_simulation_parameters.'; TI = 'time_integration_scheme.'


def sim(view, this): return view.sub(this, S + 'sim_parameters_')
def integ(view, this): return view.f(this, S + 'time_integrator_ptr_')


# ---- save_mesh ------------------------------------------------------------------------------------------------------------------------------
def writer_contract():
    def on_call(C, st):
        st.ghost['mesh_writes'] = st.ghost.get('mesh_writes', GuardedLog()).add((C.e.raw(C.val('cell_data_file_path')) if 'cell_data_file_path' in C.args else z3.IntVal(0),))
    return Contract('mesh_writer::write', PROP, frame=lambda C: [], on_call=on_call, name='mesh_writer::write (file output; call recorded)')


def pre_save(C):
    o = C.old
    t = o.f(integ(o, C.this), TI + 'simulation_time_'); Sp = o.f(sim(o, C.this), GSP + 'sampling_period_')
    return [('integrator-non-null', integ(o, C.this) > 0), ('sampling-period-positive', Sp > 0), ('time-nonneg', t >= 0), ('fewer-than-2^31-files', t / Sp < 2 ** 31)]


def post_save(C):
    o, n = C.old, C.new
    t = o.f(integ(o, C.this), TI + 'simulation_time_'); Sp = o.f(sim(o, C.this), GSP + 'sampling_period_')
    nb = z3.ToInt(t / Sp) + 1
    old = o.f(C.this, S + 'file_number_'); new = n.f(C.this, S + 'file_number_')
    log = C.post_state.ghost.get('mesh_writes')
    entries = log.entries if log is not None else []
    written = z3.Or(*[g for (g, _) in entries]) if entries else z3.BoolVal(False)
    twice = z3.Or(*[z3.And(entries[i][0], entries[j][0]) for i in range(len(entries)) for j in range(i + 1, len(entries))]) if len(entries) > 1 else z3.BoolVal(False)
    return [('file-number-is-floor-of-time-over-sampling-period-plus-one', new == z3.If(nb != old, nb, old)),
            ('a-file-pair-is-written-exactly-when-the-number-changes', written == (nb != old)),
            ('at-most-one-file-pair-per-call', z3.Not(twice))]


def lemmas(reg):
    t, dt, Sp = z3.Reals('nt ndt nS')
    d = z3.ToInt((t + dt) / Sp) - z3.ToInt(t / Sp)
    reg.lemma('file-numbers-have-no-gaps', PROP, [t >= 0, dt > 0, Sp >= dt], z3.And(d >= 0, d <= 1),
              note='one time step (dt <= sampling period) raises floor(t/S) by at most one: the numbers written are consecutive. In exact arithmetic; with S == dt the floating-point quotient can skip a value (recorded as a known limitation of the real-arithmetic semantics)', inputs=[t, dt, Sp])
    T = z3.Real('nT')
    reg.lemma('last-file-number-is-within-one-of-T-over-S-plus-one', PROP, [t >= 0, T > 0, Sp > 0, t < T + Sp, Sp >= dt, dt > 0, t < T + dt],
              z3.ToInt(t / Sp) + 1 <= z3.ToInt(T / Sp) + 2, inputs=[t, T, Sp, dt])


# ---- run_iteration: when things are written -----------------------------------------------------------------------------------------------
def havoc(qn, count=None):
    def on_call(C, st):
        if count: st.ghost[count] = st.ghost.get(count, z3.IntVal(0)) + 1
    keep = [S + 'iteration_', S + 'time_integrator_ptr_', TI + 'tmp_step_', S + 'statistic_writer_ptr_', S + 'contact_model_ptr_', S + 'lmr_ptr_']
    return Contract(qn, PROP, frame=lambda C: [('*', keep)], on_call=on_call, assumed=True,
                    name=qn + ' (any effect except on the solver\'s own iteration counter / component pointers and the integrator\'s tmp flag' + ('; calls counted)' if count else ')'))


def zero_counters(eng, st, args, this):
    for k in ('stat_writes', 'save_calls', 'integration_calls', 'iterations'): st.ghost[k] = z3.IntVal(0)


def pre_iter(C):
    o = C.old
    return [('integrator-non-null', integ(o, C.this) > 0), ('iteration-counter-in-range', z3.And(o.f(C.this, S + 'iteration_') >= 0, o.f(C.this, S + 'iteration_') < 2 ** 31 - 1))]


def post_iter(C):
    if C.outcome != 'ret': return []
    o, n = C.old, C.new
    g = C.post_state.ghost
    it = o.f(C.this, S + 'iteration_')
    tmp = o.f(integ(o, C.this), TI + 'tmp_step_')
    stats = g.get('stat_writes', z3.IntVal(0)); saves = g.get('save_calls', z3.IntVal(0)); steps = g.get('integration_calls', z3.IntVal(0))
    return [('statistics-are-recorded-every-50th-iteration', stats == z3.If(it % 50 == 0, 1, 0)),
            ('mesh-output-is-considered-once-per-iteration', saves == z3.If(tmp, 0, 1)),
            ('one-integration-step-per-iteration', steps == 1)]


def post_iter_counter(C):
    if C.outcome != 'ret': return []
    o, n = C.old, C.new
    return [('iteration-counter-advances-by-one', n.f(C.this, S + 'iteration_') == o.f(C.this, S + 'iteration_') + 1)]


# ---- run: main loop --------------------------------------------------------------------------------------------------------------------------
def post_run(C):
    if C.outcome != 'ret': return []
    g = C.post_state.ghost
    ex = g.get('loop_exit:0')
    out = [('final-statistics-are-recorded-once-after-the-loop', g.get('stat_writes', z3.IntVal(0)) == 1)]
    if ex is not None:
        from spec import View
        xv = View(C.e, ex.data)
        t = xv.f(integ(xv, C.this), TI + 'simulation_time_'); T = xv.f(sim(xv, C.this), GSP + 'simulation_duration_')
        lst = xv.sub(C.this, S + 'cell_lst_')
        out.append(('loop-ends-only-when-the-duration-is-reached-or-no-cell-is-left', z3.Or(t >= T, xv.len(lst) == 0)))
    return out


def run_iteration_counted():
    def on_call(C, st):
        st.ghost['iterations'] = st.ghost.get('iterations', z3.IntVal(0)) + 1
    return Contract('solver::run_iteration', PROP, frame=lambda C: [('*', None)], on_call=on_call, name='solver::run_iteration (any effect)')


# ---- statistics columns: which attribute each column prints ------------------------------------------------------------------------------------
def column(name, getter, kind, fmt):
    def post(C):
        o = C.old
        c = C.val('c').ref
        v = getter(o, c)
        f = C.e.uf('format:' + kind, R if kind == 'real' else I, I, I)
        return [('column-%s-prints-the-cell-%s' % (name, name), C.ret == f(v, C.e.models.str_id(fmt)))]
    def pre(C):
        return [('cell-non-null', C.val('c').ref > 0)]
    return Contract('file_data_mapper_lst', PROP, pre=pre, post=post, var_lambda=name, name='file_data_mapper_lst["%s"]' % name, assigns=[])


COLUMNS = [
    ('cell_id', lambda o, c: o.f(c, 'cell.cell_id_'), 'int', '%d'),
    ('area', lambda o, c: o.f(c, 'cell.area_'), 'real', '%.3e'),
    ('volume', lambda o, c: o.f(c, 'cell.volume_'), 'real', '%.3e'),
    ('target_volume', lambda o, c: o.f(c, 'cell.target_volume_'), 'real', '%.3e'),
    ('pressure', lambda o, c: o.f(c, 'cell.pressure_'), 'real', '%.3e'),
]


def type_id_post(C):
    o = C.old
    c = C.val('c').ref
    ct = o.f(c, 'cell.cell_type_')
    f = C.e.uf('format:int', I, I, I)
    return [('column-type_id-prints-the-global-id-of-the-cell-type', C.ret == f(z3.If(ct != 0, o.f(ct, 'cell_type_parameters.global_type_id_'), -1), C.e.models.str_id('%d')))]


# ---- mesh_writer::write: every cell is compacted (rebase) before its mesh is written: the files list exactly the live faces / nodes -------------------------
def rebase_logged():
    def on_call(C, st):
        from values import GuardedLog
        st.ghost['rebased'] = st.ghost.get('rebased', GuardedLog()).add((C.this if not hasattr(C.this, 'ref') else C.this.ref,))
    return Contract('cell::rebase', PROP, frame=lambda C: [('*', None)], on_call=on_call, assumed=True, name='cell::rebase (any effect; receiver recorded)')


def post_rebase_wrapper(C):
    if C.outcome not in (None, 'ret', 'end'): return []
    c = C.val('c').ref
    log = C.post_state.ghost.get('rebased')
    entries = log.entries if log is not None else []
    return [('every-cell-handed-to-the-writer-is-compacted-whatever-its-kind', z3.Or(*[z3.And(gd, r == c) for (gd, (r,)) in entries]) if entries else z3.BoolVal(False)),
            ('compacted-once', z3.BoolVal(len(entries) == 1))]



def build(reg):
    reg.add(Contract('solver::save_mesh', PROP, pre=pre_save, post=post_save, use=[writer_contract()], safety={'narrowing'}))
    reg.add(Contract('mesh_writer::write', PROP, pre=lambda C: [('cell-non-null', C.val('c').ref > 0)], post=post_rebase_wrapper, lambda_ordinal=0, use=[rebase_logged()],
                     name='mesh_writer::write::<per-cell wrapper: rebase>'))
    hv = [havoc('solver::save_mesh', 'save_calls'), havoc('cell_divider::run'), havoc('cell::update_face_types'), havoc('local_mesh_refiner::refine_meshes'),
          havoc('contact_model_abstract::run'), havoc('cell::special_polarization_update'), havoc('cell::apply_internal_forces'),
          havoc('abstract_statistics_writer::write_data', 'stat_writes'), havoc('time_integration_scheme::update_nodes_positions', 'integration_calls')]
    keep = [S + 'iteration_', S + 'time_integrator_ptr_', TI + 'tmp_step_', S + 'statistic_writer_ptr_', S + 'contact_model_ptr_', S + 'lmr_ptr_']
    for k in range(3):
        reg.add_loop(LoopContract('solver::run_iteration', k, lambda L: [], modifies=['*'], keep_keys=keep))
    reg.add_loop(LoopContract('solver::run_iteration', 3, lambda L: [], modifies=['cell.local_id_']))
    reg.add(Contract('solver::run_iteration', PROP, pre=pre_iter, post=post_iter, use=hv, setup=zero_counters, name='solver::run_iteration(what is written when)'))
    reg.add_loop(LoopContract('solver::run', 0, lambda L: [], modifies=['*']))
    reg.add_loop(LoopContract('solver::run', 'for_each#0', lambda L: [], modifies=['*']))
    reg.add(Contract('solver::run', PROP, post=post_run, setup=zero_counters, use=[run_iteration_counted(), havoc('abstract_statistics_writer::write_data', 'stat_writes'), havoc('cell::rebase')]))
    for (nm, getter, kind, fmt) in COLUMNS:
        reg.add(column(nm, getter, kind, fmt))
    reg.add(Contract('file_data_mapper_lst', PROP, pre=lambda C: [('cell-non-null', C.val('c').ref > 0)], post=type_id_post, var_lambda='type_id', name='file_data_mapper_lst["type_id"]', assigns=[]))
    lemmas(reg)


# ------------------------------------------------------------------------------------------------ bounded native check (floating point)
# The contracts above are in exact arithmetic.  The numbering is also exercised natively in IEEE doubles on the real solver
# (empty population; the real save_mesh and the real time advance of the integrator are called in the order run_iteration calls them) for a fixed list of (dt, S) pairs.  This is a
# BOUNDED stand-in (stated bound: the listed pairs, 400 iterations each); it is reported under bounded_checks, never as proved.
NUMBERING_DRIVER = r'''
#include "solver.hpp"
#include "cell.hpp"
#include <cstdio>
#include <cstdlib>
int main(int argc, char** argv){
  double dt = atof(argv[1]), S = atof(argv[2]); int n = atoi(argv[3]);
  global_simulation_parameters p; p.output_folder_path_ = std::string(argv[4]); p.time_step_ = dt; p.sampling_period_ = S; p.simulation_duration_ = 1e9;
  p.damping_coefficient_ = 1; p.min_edge_len_ = 1; p.contact_cutoff_adhesion_ = 1; p.contact_cutoff_repulsion_ = 1; p.enable_edge_swap_operation_ = false;
  // one static tetrahedron so that the mesh writer has something to write; a static cell is not moved by the integrator
  std::vector<double> pos = {0,0,0, 1,0,0, 0,1,0, 0,0,1};
  std::vector<unsigned> faces = {0,2,1, 0,1,3, 1,2,3, 0,3,2};
  auto ct = std::make_shared<cell_type_parameters>(); ct->face_types_.push_back(face_type_parameters()); ct->bulk_modulus_ = 1; ct->mass_density_ = 1;
  cell_ptr c = std::make_shared<cell>(pos, faces, 0, ct);
  c->initialize_cell_properties(false);
  c->is_static_ = true;
  solver s(p, {c}, 1, true, false);
  unsigned last = 0; int gaps = 0;
  for(int i = 0; i < n; i++){
    // the two statements of run_iteration that matter for the numbering, called on the real objects
    if(!s.time_integrator_ptr_->is_step_tmp()) s.save_mesh();
    s.time_integrator_ptr_->update_nodes_positions(s.cell_lst_);
    unsigned f = s.file_number_;
    if(f != last){ if(f != last + 1){ printf("GAP dt=%s S=%s iteration %d: file %u follows file %u\n", argv[1], argv[2], i, f, last); gaps++; } last = f; }
  }
  printf("files 1..%u, %d gap(s)\n", last, gaps);
  return gaps ? 1 : 0;
}
'''
PAIRS = [('1e-7', '1e-7'), ('2.5e-7', '2.5e-7'), ('1e-3', '1e-3'), ('1e-7', '2e-7'), ('1e-7', '2.5e-7'), ('1e-8', '3e-8'), ('1e-7', '1.7e-7'), ('0.1', '0.3')]


TABLE_DRIVER = r'''
#include <cstdio>
#include <cstdlib>
#include <cmath>
#include <fstream>
#include <sstream>
#include <string>
#include <vector>
#include "epithelial_cell.hpp"
#include "statistics_writer.hpp"
// The real statistics writers (in-memory and csv, argv[1] = path of a scratch csv file) on a small population recorded three times with a
// population that shrinks: one header, per record one row per listed cell, every row as wide as the header, the columns cell_id,
// type_id, area, volume, target_volume, pressure equal to the cell's values printed with the documented format.
static void octa(double s, double ox, std::vector<double>& pos, std::vector<unsigned>& faces){
  const double v[6][3] = {{1,0,0},{-1,0,0},{0,1,0},{0,-1,0},{0,0,1},{0,0,-1}};
  const unsigned f[8][3] = {{0,2,4},{2,1,4},{1,3,4},{3,0,4},{2,0,5},{1,2,5},{3,1,5},{0,3,5}};
  for(auto& p: v){ pos.push_back(s*p[0]+ox); pos.push_back(s*p[1]); pos.push_back(s*p[2]); }
  for(auto& t: f){ faces.push_back(t[0]); faces.push_back(t[1]); faces.push_back(t[2]); }
}
static std::vector<std::string> split(const std::string& l, char sep){ std::vector<std::string> o; std::string cur; for(char ch: l){ if(ch == sep){ o.push_back(cur); cur.clear(); } else cur += ch; } if(!cur.empty()) o.push_back(cur); return o; }
static std::string fmt(const char* f, double x){ char b[64]; snprintf(b, sizeof b, f, x); return b; }
static int check_table(const std::string& text, const std::vector<std::vector<cell_ptr>>& recorded, const std::vector<unsigned>& iters, const char* which){
  int bad = 0;
  std::vector<std::string> lines; { std::stringstream ss(text); std::string l; while(std::getline(ss, l)) lines.push_back(l); }
  size_t expected_rows = 0; for(auto& r: recorded) expected_rows += r.size();
  if(lines.size() != 1 + expected_rows){ printf("FAIL %s: %zu lines, expected one header and %zu rows\n", which, lines.size(), expected_rows); return 1; }
  const std::vector<std::string> header = split(lines[0], ',');
  auto col = [&](const char* name){ for(size_t k = 0; k < header.size(); k++) if(header[k] == name) return (int)k; return -1; };
  const int c_it = col("iteration"), c_id = col("cell_id"), c_ty = col("type_id"), c_ar = col("area"), c_vo = col("volume"), c_tv = col("target_volume"), c_pr = col("pressure");
  if(c_it < 0 || c_id < 0 || c_ty < 0 || c_ar < 0 || c_vo < 0 || c_tv < 0 || c_pr < 0){ printf("FAIL %s: a documented column is missing from the header '%s'\n", which, lines[0].c_str()); return 1; }
  for(size_t k = 0; k < header.size(); k++) for(size_t j = k + 1; j < header.size(); j++) if(header[k] == header[j]){ printf("FAIL %s: column '%s' appears twice\n", which, header[k].c_str()); bad++; }
  size_t li = 1;
  for(size_t r = 0; r < recorded.size(); r++) for(const cell_ptr& c: recorded[r]){
    const std::vector<std::string> f = split(lines[li], ',');
    if(f.size() != header.size()){ printf("FAIL %s: row %zu has %zu fields, the header has %zu\n", which, li, f.size(), header.size()); bad++; li++; continue; }
    if(f[c_it] != std::to_string(iters[r])){ printf("FAIL %s: row %zu is labelled iteration %s, recorded at %u\n", which, li, f[c_it].c_str(), iters[r]); bad++; }
    if(f[c_id] != std::to_string(c->get_id())){ printf("FAIL %s: row %zu cell_id %s, the cell has id %u\n", which, li, f[c_id].c_str(), c->get_id()); bad++; }
    if(f[c_ty] != std::to_string((int)c->get_cell_type()->global_type_id_)){ printf("FAIL %s: row %zu type_id %s\n", which, li, f[c_ty].c_str()); bad++; }
    if(f[c_ar] != fmt("%.3e", c->get_area())){ printf("FAIL %s: row %zu area %s, the cell has %s\n", which, li, f[c_ar].c_str(), fmt("%.3e", c->get_area()).c_str()); bad++; }
    if(f[c_vo] != fmt("%.3e", c->get_volume())){ printf("FAIL %s: row %zu volume %s, the cell has %s\n", which, li, f[c_vo].c_str(), fmt("%.3e", c->get_volume()).c_str()); bad++; }
    if(f[c_tv] != fmt("%.3e", c->get_target_volume())){ printf("FAIL %s: row %zu target_volume %s, the cell has %s\n", which, li, f[c_tv].c_str(), fmt("%.3e", c->get_target_volume()).c_str()); bad++; }
    if(std::fabs(atof(f[c_pr].c_str()) - c->get_pressure()) > 1e-3 * std::max(1.0, std::fabs(c->get_pressure()))){ printf("FAIL %s: row %zu pressure %s, the cell has %g\n", which, li, f[c_pr].c_str(), c->get_pressure()); bad++; }
    li++;
  }
  return bad;
}
int main(int argc, char** argv){
  const std::string csv = argv[1];
  face_type_parameters ft; ft.name_ = "apical"; ft.face_type_global_id_ = 0;
  std::vector<cell_ptr> cells;
  for(unsigned k = 0; k < 4; k++){
    auto ct = std::make_shared<cell_type_parameters>(); ct->name_ = "type"; ct->global_type_id_ = (short)(k % 3); ct->mass_density_ = 1.0; ct->target_isoperimetric_ratio_ = 150.; ct->add_face_type(ft);
    std::vector<double> pos; std::vector<unsigned> faces; octa(0.5 + 0.4 * k, 5.0 * k, pos, faces);
    auto c = std::make_shared<epithelial_cell>(pos, faces, 10 + 3 * k, ct); c->initialize_cell_properties(true); c->set_local_id(k);
    c->pressure_ = 12.5 * (k + 1); c->target_volume_ = c->volume_ * (1.0 + 0.1 * k);
    cells.push_back(c);
  }
  string_statistics_writer sw; csv_file_statistics_writer fw(csv);
  std::vector<std::vector<cell_ptr>> recorded; std::vector<unsigned> iters;
  auto record = [&](unsigned it){ sw.write_data(it, 0.25 * it, cells); fw.write_data(it, 0.25 * it, cells); recorded.push_back(cells); iters.push_back(it); };
  record(0);
  cells[1]->pressure_ = -3.0; cells[2]->volume_ *= 1.5; cells[2]->area_ *= 1.2;
  record(50);
  cells.erase(cells.begin() + 1);                       // a cell was removed from the population between two records
  record(73);
  // the rows must describe the cells as they were when recorded: re-check only the structure for earlier records by re-reading now would be
  // wrong, so the values are compared right after each record instead (here: the last record) and the structure for all
  int bad = 0;
  { std::vector<std::vector<cell_ptr>> last(recorded.begin() + 2, recorded.end()); std::vector<unsigned> li(iters.begin() + 2, iters.end());
    std::stringstream all(sw.get_string()); std::string l, head, tail; std::getline(all, head); size_t skip = recorded[0].size() + recorded[1].size(); size_t k = 0;
    while(std::getline(all, l)){ if(k++ >= skip) tail += l + "\n"; }
    bad += check_table(head + "\n" + tail, last, li, "in-memory table (last record)"); }
  // structure of the whole tables
  for(int w = 0; w < 2; w++){
    std::string text; if(w == 0) text = sw.get_string(); else { std::ifstream in(csv); std::stringstream b; b << in.rdbuf(); text = b.str(); }
    std::vector<std::string> lines; { std::stringstream ss(text); std::string l; while(std::getline(ss, l)) lines.push_back(l); }
    const size_t rows = recorded[0].size() + recorded[1].size() + recorded[2].size();
    if(lines.size() != 1 + rows){ printf("FAIL %s: %zu lines, expected 1 header + %zu rows\n", w ? "csv file" : "in-memory table", lines.size(), rows); bad++; continue; }
    const size_t width = split(lines[0], ',').size();
    for(size_t k = 1; k < lines.size(); k++) if(split(lines[k], ',').size() != width){ printf("FAIL %s: row %zu has %zu fields, the header has %zu\n", w ? "csv file" : "in-memory table", k, split(lines[k], ',').size(), width); bad++; }
    size_t li = 1; for(size_t r = 0; r < recorded.size(); r++) for(size_t j = 0; j < recorded[r].size(); j++, li++){ auto f = split(lines[li], ','); if(f.empty() || f[0] != std::to_string(iters[r])){ printf("FAIL %s: row %zu belongs to record %u but is labelled %s\n", w ? "csv file" : "in-memory table", li, iters[r], f.empty() ? "" : f[0].c_str()); bad++; } }
  }
  if(bad){ printf("FAIL %d problem(s) in the statistics tables\n", bad); return 1; }
  printf("OK statistics tables: one header, one row per listed cell and record, rows as wide as the header, documented columns match the cells\n"); return 0;
}
'''


def extra_checks(run):
    import native, tempfile, shutil, json, os
    out = []
    for dt, S in (PAIRS if run.tier == 'thorough' else PAIRS[:5]):
        d = tempfile.mkdtemp(prefix='verif_c19_')
        try:
            code, txt = native.run_driver(NUMBERING_DRIVER, [dt, S, '400', d], timeout=300)
        finally:
            shutil.rmtree(d, ignore_errors=True)
        name = 'C19/bounded/file-numbering-in-doubles[dt=%s,S=%s]' % (dt, S)
        rec = {'name': name, 'bound': '400 iterations of the real solver (empty population), dt=%s, sampling period=%s, IEEE doubles' % (dt, S),
               'result': 'no gap' if code == 0 else ('gap in the file numbers' if code == 1 else 'driver failed (%d)' % code), 'output': txt[-400:]}
        if code == 1:
            rp = os.path.join(os.path.dirname(os.path.dirname(os.path.abspath(__file__))), 'replays', 'C19-bounded-numbering-%s-%s.json' % (dt, S))
            os.makedirs(os.path.dirname(rp), exist_ok=True)
            json.dump({'property': 'C19', 'obligation': name, 'native': {'args': [dt, S, '400'], 'output': txt}, 'confirmed': True}, open(rp, 'w'), indent=1)
            rec.update({'violation': True, 'replay': rp, 'confirmed': True})
        out.append(rec)
    # structure of the statistics tables (iostream output is not interpreted by the contracts): one native scenario, both writers
    d = tempfile.mkdtemp(prefix='verif_c19_')
    try:
        code, txt = native.run_driver(TABLE_DRIVER, [os.path.join(d, 'stats.csv')], timeout=300)
    finally:
        shutil.rmtree(d, ignore_errors=True)
    name = 'C19/bounded/statistics-table-structure-and-documented-columns'
    rec = {'name': name, 'bound': 'four cells of three types recorded at iterations 0, 50 and 73 with one cell removed before the last record; in-memory and csv writers of the current tree',
           'result': 'tables well formed' if code == 0 else ('malformed table or wrong column' if code == 1 else 'driver failed (%d)' % code), 'output': txt[-600:]}
    if code == 1:
        rp = os.path.join(os.path.dirname(os.path.dirname(os.path.abspath(__file__))), 'replays', 'C19-bounded-statistics-table.json')
        os.makedirs(os.path.dirname(rp), exist_ok=True)
        json.dump({'property': 'C19', 'obligation': name, 'native': {'args': ['<scratch csv>'], 'output': txt, 'driver': 'specs/C19.py:TABLE_DRIVER'}, 'confirmed': True}, open(rp, 'w'), indent=1)
        rec.update({'violation': True, 'replay': rp, 'confirmed': True})
    out.append(rec)
    return out


EXPLANATION = ("save_mesh: the file number becomes floor(t/S)+1, a pair of mesh files is written exactly when the number changes and at most once per "
               "call (mesh_writer::write by contract); lemmas: with 0 < dt <= S one step raises floor(t/S) by at most one (no gaps, exact "
               "arithmetic) and the last number is within one of T/S+1; run_iteration (every callee 'any effect' except on the solver's own "
               "counters): statistics are recorded iff iteration % 50 == 0, the mesh output is considered once per iteration, one integration step "
               "per iteration (time advance: C03), iteration counter +1; run: the loop exits only when t >= T or no cell is left, final statistics "
               "written once; statistics columns: the lambdas registered under cell_id, type_id, area, volume, target_volume, pressure format "
               "exactly that attribute of the cell (format_number as an uninterpreted function of value and format). Bounded stand-in (not "
               "proof): the numbering is run natively in doubles on the real solver for a list of (dt, S) pairs; the row / field structure of both "
               "statistics writers and the documented columns are checked on one native scenario (four cells, three records, one removal).")
ASSUMPTIONS = ["exact reals in the contracts; the floating-point behaviour of the numbering is only sampled by the bounded native check",
               "callees of run_iteration do not write the solver's iteration counter, component pointers or the integrator's tmp flag (assumed frames)",
               "format_number / sprintf and the iostream output are not interpreted: 'parseable', 'as many fields as the header' and the printed precision are not decided"]
UNVERIFIED = ["row / field structure of the statistics table (iostream): sampled by the bounded native scenario only; mesh_writer (C16 is not applicable)", "the in-memory statistics writer beyond the shared column table"]
