"""C11 - remeshing is physically neutral, selective and always terminates."""
import z3
from spec import Contract, LoopContract, V3
from values import QForall, ObjLV, Ptr, Rec
import meshops as M

PROP = 'C11'
I = z3.IntSort(); R = z3.RealSort(); B = z3.BoolSort()
CONFIGS = [{'SIMUCELL3D_VERIF_DYNAMIC_MODEL_INDEX': 0}]


def build(reg, cfg=None):
    reg.plain_views = True
    reg.add(M.add_node_contract(PROP))
    reg.add(M.get_edge_contract(PROP))
    reg.add(M.delete_face_contract(PROP))
    reg.add(M.add_face_contract(PROP))
    reg.add(M.split_edge_contract(PROP))
    # split_edge(topology) - the full callee contracts with their preconditions at every call site - is kept in meshops.py but not
    # registered: 8 of its 209 obligations stayed undecided within the thorough budgets (see DESIGN 10.4)
    reg.default_havoc = '*'
    reg.add(M.merge_edge_contract(PROP))
    reg.add(M.refine_prologue_contract(PROP))
    SETKEYS = ['sset.member', 'set.size'] + ['vec.data.edge.' + l for l in M.EDGE_LEAVES]
    for k in range(4):
        # the four std::for_each at the end of merge_edge only edit the set of edges still to be checked
        reg.add_loop(LoopContract('local_mesh_refiner::merge_edge', 'for_each#%d' % k, lambda L: [], modifies=SETKEYS))
    build_refine(reg)
    M.split_lemmas(reg, PROP)


replay = M.replay
replay_recorded = M.replay_recorded


EXPLANATION = ("Mesh editing primitives under contract over a full model of std::set<edge> (membership + stored edge per sorted node pair): "
               "cell::add_node (copy into the last free slot or append; every other node untouched; storage moves only when appending; free-slot "
               "queue invariant - ids in range, pairwise different, slots unused - preserved), cell::get_edge, cell::delete_face(id) (slot freed; each "
               "of its three edges loses the face or disappears with it; other edges/faces/vectors untouched; invariants preserved; no empty-optional "
               "access), cell::add_face (copy into free slot or append; three edges created or completed; throws only when an edge already has two "
               "faces). local_mesh_refiner::split_edge (physics and references): new node at the midpoint, momentum of {a,b,e} afterwards = momentum "
               "of {a,b} before (2/3, 2/3, 1/3+1/3), no surviving node moves, momenta of other nodes untouched, the four requested triangles join "
               "the new node to the old ones and are wound like the triangle they replace (lemma: half triangles keep the area-vector direction), "
               "no reference into the node / face vectors is used after the vector may have reallocated, all indexings in bounds, each new "
               "face is given the label of the face it replaces. merge_edge (physics): merged node at the midpoint with the summed momentum, both ends deleted, no other node touched. "
               "refine_mesh loop body: splits only if l^2 > l_max^2, merges only if l^2 < l_min^2 and can_be_merged, never both, the operation "
               "counter counts operations, an edge inside the band leaves everything as it is, without an operation the waiting set shrinks by one.")
ASSUMPTIONS = ["DYNAMIC_MODEL_INDEX = 0 (momentum formulation); exact reals",
               "the local configuration handed to split_edge (stored manifold edge, its two used faces with distinct opposite nodes, free-slot queue invariants, stored edges match their keys) - the data invariant of C01, required here",
               "merge_edge: cell::replace_node resets only the replaced node and does not resize the node list; cell::delete_face writes what its own contract lists (their call-site preconditions inside merge_edge are not discharged: topology of the collapse is not under contract)",
               "add_face / delete_face as callees of split_edge are used through views (frame, result range, 'the returned slot was unused'); their preconditions at the call sites inside split_edge are NOT discharged (the attempt - split_edge(topology) in meshops.py - left 8 of 209 obligations undecided and is not registered)",
               "std::set<edge> as modelled in models.py (keyed by the sorted node pair: the Cantor hash is injective on pairs below 2^26)"]
UNVERIFIED = ["termination of refine_mesh: the counter bound 'iteration < number of edges' moves with the edge count; each split halves an edge, so the pass ends for finite positions - a geometric argument not made here",
              "volume / area preservation of a split (follows from: midpoint on the edge, windings kept - stated, the summation over the surface is not)",
              "swap_edge and remove_elongated_triangles (triangle quality rule), merge_edge topology and can_be_merged (link condition)",
              "idempotence of a whole pass on a conforming mesh follows from the loop-body clause 'edge inside the band leaves the mesh as it is' only when edge swapping is disabled"]


# ---- refine_mesh: one arbitrary iteration of the refinement loop -----------------------------------------------------------------------------
def flag(name):
    def rm(C, st):
        st.ghost[name] = z3.BoolVal(True)
        return None
    return rm


def can_merge_ret(C, st):
    r = C.e.fresh('can_be_merged', B)
    st.ghost['can_merge_answer'] = r
    return r


def refine_setup(eng, st, args, this):
    st.ghost['did_split'] = z3.BoolVal(False); st.ghost['did_merge'] = z3.BoolVal(False); st.ghost['can_merge_answer'] = z3.BoolVal(False)


def refine_callees():
    mesh_edit = lambda C: [('*', [])]
    return [Contract('local_mesh_refiner::split_edge', PROP, assumed=True, frame=mesh_edit, throws=['mesh_integrity_exception'], ret_model=flag('did_split'), name='split_edge (own contract above)'),
            Contract('local_mesh_refiner::merge_edge', PROP, assumed=True, frame=mesh_edit, throws=['mesh_integrity_exception'], ret_model=flag('did_merge'), name='merge_edge (own contract above)'),
            Contract('local_mesh_refiner::can_be_merged', PROP, assumed=True, frame=lambda C: [], throws=['mesh_integrity_exception'], ret_model=can_merge_ret, name='can_be_merged (some boolean, no side effect)')]


def lvv(C, name, st):
    for k, v in st.env.items():
        if C.e.var_names.get(k) == name and not str(k).startswith(('tmp!', 'glob!', 'param', 'rangeidx!')):
            from values import LVS
            if isinstance(v, LVS) and not isinstance(v, ObjLV): return C.e.load(st, v)
            return v
    raise KeyError(name)


def refine_body_pre(C):
    o = C.old
    c = C.arg('c').ref
    return [('cell-non-null', z3.And(c > 0, C.e.root_of(c) > 0)),
            # the edges waiting to be checked are edges of the cell: their node ids are slots of the node list
            ('waiting-edges-join-nodes-of-the-cell', QForall(lambda k: z3.Implies(M.member(o, lvv(C, 'edge_to_check_set', C.pre_state).ref, k),
                                                                                   z3.And(M.stored(o, lvv(C, 'edge_to_check_set', C.pre_state).ref, k, 'n1_id_') >= 0, M.stored(o, lvv(C, 'edge_to_check_set', C.pre_state).ref, k, 'n1_id_') < o.len(M.nodes(o, c)),
                                                                                          M.stored(o, lvv(C, 'edge_to_check_set', C.pre_state).ref, k, 'n2_id_') >= 0, M.stored(o, lvv(C, 'edge_to_check_set', C.pre_state).ref, k, 'n2_id_') < o.len(M.nodes(o, c)))), 1, 'waiting edges'))]


def refine_body_post(C):
    if C.outcome not in (None, 'ret', 'continue', 'end'):
        return [('an-iteration-ends-normally-or-with-the-integrity-exception:' + str(C.outcome), z3.BoolVal(C.outcome == 'throw:mesh_integrity_exception'))]
    o, n = C.old, C.new
    g = C.post_state.ghost
    this = C.this
    c = C.arg('c').ref
    e = lvv(C, 'e_ab', C.post_state)
    nl = M.nodes(o, c)
    A, Bn = o.elem(nl, e.f['n1_id_']), o.elem(nl, e.f['n2_id_'])
    d = o.v3(A, 'node.pos_') - o.v3(Bn, 'node.pos_')
    L2 = d.sq()
    lmax2 = o.f(this, 'local_mesh_refiner.l_max_squared_'); lmin2 = o.f(this, 'local_mesh_refiner.l_min_squared_')
    it0 = lvv(C, 'iteration', C.pre_state); it1 = lvv(C, 'iteration', C.post_state)
    S = lvv(C, 'edge_to_check_set', C.pre_state).ref
    return [('cover:split', g['did_split']), ('cover:merge', g['did_merge']), ('cover:edge-in-the-band', z3.And(z3.Not(g['did_split']), z3.Not(g['did_merge']))),
            ('splits-only-an-edge-longer-than-l_max', z3.Implies(g['did_split'], L2 > lmax2)),
            ('merges-only-an-edge-shorter-than-l_min-that-may-be-merged', z3.Implies(g['did_merge'], z3.And(L2 < lmin2, g['can_merge_answer']))),
            ('never-both', z3.Not(z3.And(g['did_split'], g['did_merge']))),
            ('operation-counter-counts-the-operations', it1 == it0 + z3.If(z3.Or(g['did_split'], g['did_merge']), 1, 0)),
            ('an-edge-inside-the-band-leaves-the-mesh-as-it-is', z3.Implies(z3.And(L2 <= lmax2, L2 >= lmin2), z3.And(z3.Not(g['did_split']), z3.Not(g['did_merge'])))),
            ('without-an-operation-the-waiting-set-shrinks-by-the-examined-edge', z3.Implies(z3.And(z3.Not(g['did_split']), z3.Not(g['did_merge'])),
                                                                                            z3.And(n.f(S, 'set.size') == o.f(S, 'set.size') - 1)))]


def build_refine(reg):
    reg.add(Contract('local_mesh_refiner::refine_mesh', PROP, pre=refine_body_pre, post=refine_body_post, slice_loop=0, use=refine_callees(), setup=refine_setup,
                     safety={'bounds', 'null-deref'}, name='local_mesh_refiner::refine_mesh::<loop body>'))
