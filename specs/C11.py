"""C11 - remeshing is physically neutral, selective and always terminates."""
import z3
from spec import Contract, LoopContract, V3
from values import QForall, ObjLV, Ptr, Rec
import meshops as M

PROP = 'C11'
I = z3.IntSort(); R = z3.RealSort(); B = z3.BoolSort()
CONFIGS = [{'SIMUCELL3D_VERIF_DYNAMIC_MODEL_INDEX': 0}]


def build(reg, cfg=None):
    reg.add(M.add_node_contract(PROP))
    reg.add(M.get_edge_contract(PROP))
    reg.add(M.delete_face_contract(PROP))
    reg.add(M.add_face_contract(PROP))
    reg.add(M.split_edge_contract(PROP))


EXPLANATION = ""
ASSUMPTIONS = []
UNVERIFIED = []
