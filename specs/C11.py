"""C11 - remeshing is physically neutral, selective and always terminates."""
import z3
from spec import Contract, LoopContract, V3
from values import QForall, ObjLV, Ptr, Rec
import meshops as M

PROP = 'C11'
I = z3.IntSort(); R = z3.RealSort(); B = z3.BoolSort()
CONFIGS = [{'SIMUCELL3D_VERIF_DYNAMIC_MODEL_INDEX': 0}]


def build(reg, cfg=None):
    reg.add(M.add_node_contract(PROP))
    reg.add(M.get_edge_contract(PROP))
    reg.add(M.delete_face_contract(PROP))
    reg.add(M.add_face_contract(PROP))
    reg.add(M.split_edge_contract(PROP))
    reg.add(M.split_edge_contract(PROP, full=True))
    reg.default_havoc = '*'
    reg.add(M.merge_edge_contract(PROP))
    SETKEYS = ['sset.member', 'set.size'] + ['vec.data.edge.' + l for l in M.EDGE_LEAVES]
    for k in range(4):
        # the four std::for_each at the end of merge_edge only edit the set of edges still to be checked
        reg.add_loop(LoopContract('local_mesh_refiner::merge_edge', 'for_each#%d' % k, lambda L: [], modifies=SETKEYS))
    build_refine(reg)
    M.split_lemmas(reg, PROP)


# ------------------------------------------------------------------------------------------------ native replay (ASan/UBSan build)
DRIVER = r'''
#include <cstdio>
#include <cstdlib>
#include <cmath>
#include <map>
#include <array>
#include "local_mesh_refiner.hpp"
#include "epithelial_cell.hpp"
// One refinement pass (real local_mesh_refiner::refine_mesh) on an icosphere whose edges are all longer than l_max, so that every
// edge is split; the node list has no spare capacity, so cell::add_node reallocates it. Built with ASan/UBSan: any use of a
// reference into the old storage is reported. Afterwards momentum conservation and 'no surviving node moved' are checked.
static void icosphere(double r, int sub, std::vector<double>& pos, std::vector<unsigned>& faces){
  const double t = (1. + std::sqrt(5.)) / 2.;
  std::vector<std::array<double,3>> v{{-1,t,0},{1,t,0},{-1,-t,0},{1,-t,0},{0,-1,t},{0,1,t},{0,-1,-t},{0,1,-t},{t,0,-1},{t,0,1},{-t,0,-1},{-t,0,1}};
  std::vector<std::array<unsigned,3>> f{{0,11,5},{0,5,1},{0,1,7},{0,7,10},{0,10,11},{1,5,9},{5,11,4},{11,10,2},{10,7,6},{7,1,8},{3,9,4},{3,4,2},{3,2,6},{3,6,8},{3,8,9},{4,9,5},{2,4,11},{6,2,10},{8,6,7},{9,8,1}};
  auto nrm = [](std::array<double,3>& p){ double n = std::sqrt(p[0]*p[0]+p[1]*p[1]+p[2]*p[2]); p[0]/=n; p[1]/=n; p[2]/=n; };
  for(auto& p: v) nrm(p);
  for(int s = 0; s < sub; s++){
    std::map<std::pair<unsigned,unsigned>, unsigned> cache;
    auto mid = [&](unsigned a, unsigned b){ auto k = std::make_pair(std::min(a,b), std::max(a,b)); auto it = cache.find(k); if(it != cache.end()) return it->second;
      std::array<double,3> m{(v[a][0]+v[b][0])/2, (v[a][1]+v[b][1])/2, (v[a][2]+v[b][2])/2}; nrm(m); v.push_back(m); return cache[k] = (unsigned)v.size()-1; };
    std::vector<std::array<unsigned,3>> f2;
    for(auto& tr: f){ unsigned a = mid(tr[0],tr[1]), b = mid(tr[1],tr[2]), c = mid(tr[2],tr[0]); f2.push_back({tr[0],a,c}); f2.push_back({tr[1],b,a}); f2.push_back({tr[2],c,b}); f2.push_back({a,b,c}); }
    f = f2;
  }
  for(auto& p: v){ pos.push_back(r*p[0]); pos.push_back(r*p[1]); pos.push_back(r*p[2]); }
  for(auto& tr: f){ faces.push_back(tr[0]); faces.push_back(tr[1]); faces.push_back(tr[2]); }
}
static int inconsistent_edges(const cell_ptr& c){
  // every edge must be traversed in opposite directions by its two triangles
  std::map<std::pair<unsigned,unsigned>, int> dir; int bad = 0;
  for(const face& f: c->get_face_lst()){ if(!f.is_used()) continue; auto [a,b,d] = f.get_node_ids(); unsigned v[3] = {a,b,d};
    for(int i = 0; i < 3; i++){ unsigned x = v[i], y = v[(i+1)%3]; auto k = std::make_pair(std::min(x,y), std::max(x,y)); dir[k] += (x < y) ? 1 : -1; } }
  for(auto& kv: dir) if(kv.second != 0) bad++;
  return bad;
}
static double signed_volume(const cell_ptr& c){
  double s = 0; for(const face& f: c->get_face_lst()){ if(!f.is_used()) continue; auto [a,b,d] = f.get_node_ids();
    const vec3& p = c->get_node_lst()[a].pos(); const vec3& q = c->get_node_lst()[b].pos(); const vec3& r = c->get_node_lst()[d].pos(); s += p.dot(q.cross(r)); }
  return s / 6.;
}
static vec3 total_momentum(const cell_ptr& c){ vec3 m(0,0,0); for(const node& nd: c->node_lst_) if(nd.is_used()) m = m + nd.momentum_; return m; }
int main(int argc, char** argv){
  const std::string mode = argc > 1 ? argv[1] : "split";
  face_type_parameters ft; ft.name_ = "apical"; ft.face_type_global_id_ = 0;
  auto ct = std::make_shared<cell_type_parameters>(); ct->name_ = "epithelial"; ct->global_type_id_ = 0; ct->add_face_type(ft);
  std::vector<double> pos; std::vector<unsigned> faces; icosphere(1.0, mode == "dimple" ? 2 : 1, pos, faces);
  if(mode == "dimple"){ for(size_t k = 0; k < pos.size() / 3; k++) if(pos[3*k+2] > 0.3) pos[3*k+2] = 0.6 - pos[3*k+2]; }     // cap reflected into the ball: a deep invagination
  auto c = std::make_shared<epithelial_cell>(pos, faces, 0, ct); c->initialize_cell_properties(true);
  c->node_lst_.shrink_to_fit(); c->face_lst_.shrink_to_fit();
  const size_t n0 = c->node_lst_.size();
  for(size_t k = 0; k < n0; k++) c->node_lst_[k].momentum_ = vec3(0.1*k + 0.3, -0.2*k, 0.05*k*k);
  int bad = 0;
  auto pass = [&](local_mesh_refiner& lmr, const char* what){
    std::vector<vec3> p0; std::vector<bool> used0; for(const node& nd: c->node_lst_){ p0.push_back(nd.pos_); used0.push_back(nd.is_used()); }
    const vec3 mom0 = total_momentum(c); const double vol0 = signed_volume(c);
    const size_t free0 = c->free_node_queue_.size();
    lmr.refine_mesh(c);
    const vec3 mom1 = total_momentum(c);
    if((mom1 - mom0).norm() > 1e-9 * (1 + mom0.norm())){ printf("FAIL %s: total momentum changed from (%g,%g,%g) to (%g,%g,%g)\n", what, mom0.dx(),mom0.dy(),mom0.dz(), mom1.dx(),mom1.dy(),mom1.dz()); bad = 1; }
    if(free0 == 0 && mode != "reuse") for(size_t k = 0; k < p0.size(); k++) if(used0[k] && c->node_lst_[k].is_used() && (c->node_lst_[k].pos_ - p0[k]).norm() != 0){ printf("FAIL %s: surviving node %zu moved\n", what, k); bad = 1; break; }
    if(!c->is_manifold()){ printf("FAIL %s: surface is no longer a closed manifold\n", what); bad = 1; }
    int inc = inconsistent_edges(c); if(inc){ printf("FAIL %s: %d edges are traversed in the same direction by both of their triangles (inconsistent winding)\n", what, inc); bad = 1; }
    if(signed_volume(c) <= 0){ printf("FAIL %s: enclosed volume is not positive any more (%g -> %g)\n", what, vol0, signed_volume(c)); bad = 1; }
    return vol0;
  };
  try{
    if(mode == "split"){ local_mesh_refiner lmr(0.1, 0.4, false); pass(lmr, "split pass"); }
    else if(mode == "dimple"){ local_mesh_refiner lmr(1e-4, 0.2, false); double v0 = pass(lmr, "split pass on a cell with an invagination");
      if(std::fabs(signed_volume(c) - v0) > 1e-9 * std::fabs(v0)){ printf("FAIL splits changed the enclosed volume %g -> %g\n", v0, signed_volume(c)); bad = 1; } }
    else { // reuse: a collapse frees node slots, the splits of the next pass recycle them
      { const unsigned u = faces[0], w = faces[1];       // two nodes joined by an edge
        c->node_lst_[w].pos_ = c->node_lst_[u].pos_ + (c->node_lst_[w].pos_ - c->node_lst_[u].pos_) * 0.2; }
      local_mesh_refiner lmr(0.3, 0.9, false); pass(lmr, "pass with a collapse");
      size_t far = faces[faces.size() - 1]; c->node_lst_[far].pos_ = c->node_lst_[far].pos_ * 2.2;
      pass(lmr, "pass with splits that recycle freed slots");
    }
  }catch(const std::exception& e){ printf("OK refused: %s\n", e.what()); return bad; }
  if(!bad) printf("OK %s: %zu -> %zu nodes\n", mode.c_str(), n0, c->node_lst_.size());
  return bad;
}
'''

_CACHE = {}


MODES = ['split', 'reuse', 'dimple']


def _run_modes():
    import native
    if 'r' not in _CACHE:
        res = []
        for m in MODES:
            code, out = native.run_driver(DRIVER, [m], sanitize=True, timeout=900)
            res.append((m, code, out))
            if code not in (0, 124, 125): break
        _CACHE['r'] = res
    return _CACHE['r']


def replay(ob, ins, run):
    """refinement passes of the real local_mesh_refiner under ASan/UBSan: (split) an icosphere whose edges are all too long, node list
    without spare capacity; (reuse) a collapse followed by splits that recycle the freed slots; (dimple) a cell with a deep invagination.
    Checked afterwards: total momentum, immobility of surviving nodes, closed manifold, consistent winding, positive / unchanged volume"""
    res = _run_modes()
    bad = [(m, c, o) for (m, c, o) in res if c not in (0, 124, 125)]
    if bad:
        m, c, o = bad[0]
        return {'confirmed': True, 'exit': c, 'args': [m], 'output': o[-3000:], 'driver': 'specs/C11.py:DRIVER mode %s (real refine_mesh, ASan/UBSan build)' % m}
    return {'confirmed': False, 'tried': [(m, c) for (m, c, o) in res], 'output': res[-1][2][-500:] if res else '', 'driver': 'specs/C11.py:DRIVER'}


def replay_recorded(data):
    import native
    args = data.get('native', {}).get('args') or ['split']
    code, out = native.run_driver(DRIVER, args, sanitize=True, timeout=900)
    return {'confirmed': code not in (0, 124, 125), 'output': out}


EXPLANATION = ("Mesh editing primitives under contract over a full model of std::set<edge> (membership + stored edge per sorted node pair): "
               "cell::add_node (copy into the last free slot or append; every other node untouched; storage moves only when appending; free-slot "
               "queue invariant - ids in range, pairwise different, slots unused - preserved), cell::get_edge, cell::delete_face(id) (slot freed; each "
               "of its three edges loses the face or disappears with it; other edges/faces/vectors untouched; invariants preserved; no empty-optional "
               "access), cell::add_face (copy into free slot or append; three edges created or completed; throws only when an edge already has two "
               "faces). local_mesh_refiner::split_edge (physics and references): new node at the midpoint, momentum of {a,b,e} afterwards = momentum "
               "of {a,b} before (2/3, 2/3, 1/3+1/3), no surviving node moves, momenta of other nodes untouched, the four requested triangles join "
               "the new node to the old ones and are wound like the triangle they replace (lemma: half triangles keep the area-vector direction), "
               "no reference into the node / face vectors is used after the vector may have reallocated, all indexings in bounds. split_edge "
               "(topology, thorough tier): the callee preconditions at every call site, type labels inherited, split edge gone, four new edges with "
               "two faces. merge_edge (physics): merged node at the midpoint with the summed momentum, both ends deleted, no other node touched. "
               "refine_mesh loop body: splits only if l^2 > l_max^2, merges only if l^2 < l_min^2 and can_be_merged, never both, the operation "
               "counter counts operations, an edge inside the band leaves everything as it is, without an operation the waiting set shrinks by one.")
ASSUMPTIONS = ["DYNAMIC_MODEL_INDEX = 0 (momentum formulation); exact reals",
               "the local configuration handed to split_edge (stored manifold edge, its two used faces with distinct opposite nodes, free-slot queue invariants, stored edges match their keys) - the data invariant of C01, required here",
               "merge_edge: cell::replace_node resets only the replaced node and does not resize the node list; cell::delete_face writes what its own contract lists (their call-site preconditions inside merge_edge are not discharged: topology of the collapse is not under contract)",
               "quick tier: add_face / delete_face as callees of split_edge(physics) are used through their frame and result range; their call-site preconditions are discharged by split_edge(topology) in the thorough tier",
               "std::set<edge> as modelled in models.py (keyed by the sorted node pair: the Cantor hash is injective on pairs below 2^26)"]
UNVERIFIED = ["termination of refine_mesh: the counter bound 'iteration < number of edges' moves with the edge count; each split halves an edge, so the pass ends for finite positions - a geometric argument not made here",
              "volume / area preservation of a split (follows from: midpoint on the edge, windings kept - stated, the summation over the surface is not)",
              "swap_edge and remove_elongated_triangles (triangle quality rule), merge_edge topology and can_be_merged (link condition)",
              "idempotence of a whole pass on a conforming mesh follows from the loop-body clause 'edge inside the band leaves the mesh as it is' only when edge swapping is disabled"]


# ---- refine_mesh: one arbitrary iteration of the refinement loop -----------------------------------------------------------------------------
def flag(name):
    def rm(C, st):
        st.ghost[name] = z3.BoolVal(True)
        return None
    return rm


def can_merge_ret(C, st):
    r = C.e.fresh('can_be_merged', B)
    st.ghost['can_merge_answer'] = r
    return r


def refine_setup(eng, st, args, this):
    st.ghost['did_split'] = z3.BoolVal(False); st.ghost['did_merge'] = z3.BoolVal(False); st.ghost['can_merge_answer'] = z3.BoolVal(False)


def refine_callees():
    mesh_edit = lambda C: [('*', [])]
    return [Contract('local_mesh_refiner::split_edge', PROP, assumed=True, frame=mesh_edit, throws=['mesh_integrity_exception'], ret_model=flag('did_split'), name='split_edge (own contract above)'),
            Contract('local_mesh_refiner::merge_edge', PROP, assumed=True, frame=mesh_edit, throws=['mesh_integrity_exception'], ret_model=flag('did_merge'), name='merge_edge (own contract above)'),
            Contract('local_mesh_refiner::can_be_merged', PROP, assumed=True, frame=lambda C: [], throws=['mesh_integrity_exception'], ret_model=can_merge_ret, name='can_be_merged (some boolean, no side effect)')]


def lvv(C, name, st):
    for k, v in st.env.items():
        if C.e.var_names.get(k) == name and not str(k).startswith(('tmp!', 'glob!', 'param', 'rangeidx!')):
            from values import LVS
            if isinstance(v, LVS) and not isinstance(v, ObjLV): return C.e.load(st, v)
            return v
    raise KeyError(name)


def refine_body_pre(C):
    o = C.old
    c = C.arg('c').ref
    return [('cell-non-null', z3.And(c > 0, C.e.root_of(c) > 0)),
            # the edges waiting to be checked are edges of the cell: their node ids are slots of the node list
            ('waiting-edges-join-nodes-of-the-cell', QForall(lambda k: z3.Implies(M.member(o, lvv(C, 'edge_to_check_set', C.pre_state).ref, k),
                                                                                   z3.And(M.stored(o, lvv(C, 'edge_to_check_set', C.pre_state).ref, k, 'n1_id_') >= 0, M.stored(o, lvv(C, 'edge_to_check_set', C.pre_state).ref, k, 'n1_id_') < o.len(M.nodes(o, c)),
                                                                                          M.stored(o, lvv(C, 'edge_to_check_set', C.pre_state).ref, k, 'n2_id_') >= 0, M.stored(o, lvv(C, 'edge_to_check_set', C.pre_state).ref, k, 'n2_id_') < o.len(M.nodes(o, c)))), 1, 'waiting edges'))]


def refine_body_post(C):
    if C.outcome not in (None, 'ret', 'continue', 'end'):
        return [('an-iteration-ends-normally-or-with-the-integrity-exception:' + str(C.outcome), z3.BoolVal(C.outcome == 'throw:mesh_integrity_exception'))]
    o, n = C.old, C.new
    g = C.post_state.ghost
    this = C.this
    c = C.arg('c').ref
    e = lvv(C, 'e_ab', C.post_state)
    nl = M.nodes(o, c)
    A, Bn = o.elem(nl, e.f['n1_id_']), o.elem(nl, e.f['n2_id_'])
    d = o.v3(A, 'node.pos_') - o.v3(Bn, 'node.pos_')
    L2 = d.sq()
    lmax2 = o.f(this, 'local_mesh_refiner.l_max_squared_'); lmin2 = o.f(this, 'local_mesh_refiner.l_min_squared_')
    it0 = lvv(C, 'iteration', C.pre_state); it1 = lvv(C, 'iteration', C.post_state)
    S = lvv(C, 'edge_to_check_set', C.pre_state).ref
    return [('cover:split', g['did_split']), ('cover:merge', g['did_merge']), ('cover:edge-in-the-band', z3.And(z3.Not(g['did_split']), z3.Not(g['did_merge']))),
            ('splits-only-an-edge-longer-than-l_max', z3.Implies(g['did_split'], L2 > lmax2)),
            ('merges-only-an-edge-shorter-than-l_min-that-may-be-merged', z3.Implies(g['did_merge'], z3.And(L2 < lmin2, g['can_merge_answer']))),
            ('never-both', z3.Not(z3.And(g['did_split'], g['did_merge']))),
            ('operation-counter-counts-the-operations', it1 == it0 + z3.If(z3.Or(g['did_split'], g['did_merge']), 1, 0)),
            ('an-edge-inside-the-band-leaves-the-mesh-as-it-is', z3.Implies(z3.And(L2 <= lmax2, L2 >= lmin2), z3.And(z3.Not(g['did_split']), z3.Not(g['did_merge'])))),
            ('without-an-operation-the-waiting-set-shrinks-by-the-examined-edge', z3.Implies(z3.And(z3.Not(g['did_split']), z3.Not(g['did_merge'])),
                                                                                            z3.And(n.f(S, 'set.size') == o.f(S, 'set.size') - 1)))]


def build_refine(reg):
    reg.add(Contract('local_mesh_refiner::refine_mesh', PROP, pre=refine_body_pre, post=refine_body_post, slice_loop=0, use=refine_callees(), setup=refine_setup,
                     safety={'bounds', 'null-deref'}, name='local_mesh_refiner::refine_mesh::<loop body>'))
