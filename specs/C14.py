"""C14 - results do not depend on where the tissue is placed.
Translation independence is decided as a corollary of the contracts: every kernel through which absolute coordinates enter is
proved (on the real code) equal to a specification function, and each specification function is proved invariant / equivariant
under a joint translation of all positions (lemmas below).  The contracts are re-run here on the current tree."""
import z3
from spec import Contract, V3, LoopContract
import C02, C03, C05, C06, C12

PROP = 'C14'
CONFIGS = [{'SIMUCELL3D_VERIF_CONTACT_MODEL_INDEX': 1, 'SIMUCELL3D_VERIF_DYNAMIC_MODEL_INDEX': 0}]


def mn3(a, b, c):
    m = z3.If(b < a, b, a); return z3.If(c < m, c, m)


def mx3(a, b, c):
    m = z3.If(a < b, b, a); return z3.If(m < c, c, m)


def lemmas(reg):
    x1, x2, x3, p, t = [V3.fresh(n) for n in ('tx1', 'tx2', 'tx3', 'tp', 'tt')]
    ins = sum([v.comps() for v in (x1, x2, x3, p, t)], [])
    cr = lambda a, b, c: (b - a).cross(c - a)
    reg.lemma('area-vector-is-translation-invariant', PROP, [], cr(x1 + t, x2 + t, x3 + t).eq(cr(x1, x2, x3)),
              note='pressure force p*cr/6, face area |cr|/2, unit normal cr/|cr| and the tension force -gamma_eff*dA/dx_i (a function of cr and edge vectors) are therefore unchanged', inputs=ins)
    e = lambda a, b: (b - a)
    reg.lemma('edge-vectors-are-translation-invariant', PROP, [], (x2 + t - (x1 + t)).eq(x2 - x1),
              note='squared edge lengths (split / merge / swap decisions of the refiner), angles and their gradients depend on edge vectors only', inputs=ins)
    pad = z3.Real('tpad')
    for a, (c1, c2, c3, q, tt) in enumerate(zip(x1.comps(), x2.comps(), x3.comps(), p.comps(), t.comps())):
        lo = mn3(c1, c2, c3) - pad; hi = mx3(c1, c2, c3) + pad
        lo2 = mn3(c1 + tt, c2 + tt, c3 + tt) - pad; hi2 = mx3(c1 + tt, c2 + tt, c3 + tt) + pad
        reg.lemma('padded-face-box-test-is-translation-invariant-%s' % 'xyz'[a], PROP, [], z3.And(lo2 == lo + tt, hi2 == hi + tt, z3.And(q + tt >= lo2, q + tt <= hi2) == z3.And(q >= lo, q <= hi)),
                  note='the face box moves with the face and the node: the broad-phase box test gives the same answer (the voxel grid itself is not equivariant and need not be: C06 proves it only discards pairs beyond the cut-off)', inputs=ins + [pad])
    # integration: the displacement of a node depends on force, momentum, mass, dt, damping only
    f, m0 = V3.fresh('tf'), V3.fresh('tm')
    mass, dt, damp = z3.Reals('tmass tdt tdamp')
    def step(x):
        m1 = m0 + (f - m0 * (damp / mass)) * dt
        return x + m1 * (dt / mass)
    reg.lemma('integration-step-is-translation-equivariant', PROP, [], step(p + t).eq(step(p) + t),
              note='with translation-invariant forces the updated position of the translated run is the translated updated position (semi-implicit Euler; the overdamped law x + F dt/damping likewise)', inputs=ins + f.comps() + m0.comps() + [mass, dt, damp])
    # signed volume of a face w.r.t. the origin is NOT invariant; its change is a sum of terms that cancel on a closed surface
    V = lambda a, b, c: a.dot(b.cross(c))
    reg.lemma('volume-contribution-changes-by-flux-of-a-constant-field', PROP, [], V(x1 + t, x2 + t, x3 + t) - V(x1, x2, x3) == t.dot(cr(x1, x2, x3)),
              note='x1.(x2 x x3) changes by t.cr_f under translation; the area vectors of a closed oriented surface sum to zero (lemma L-closed, quoted), so the enclosed volume is translation invariant although the per-face contribution is not',
              inputs=ins)


def relabel(c, tag):
    c.prop = PROP
    c.name = c.name + ' [' + tag + ']'
    return c


def build(reg, cfg):
    sub = __import__('spec').Registry()
    C05.build(sub)
    C12.build(sub)
    C02.build(sub)
    for c in sub.contracts:
        if 'the cache the forces are computed from' in c.name: continue      # C02's re-import of the C12 contract: already taken from C12 itself
        if c.qname in ('contact_model_abstract::compute_node_triangle_distance', 'cell::compute_volume', 'cell::update_face_normal_and_area',
                       'cell::apply_pressure_on_surface', 'cell::apply_surface_tension_and_membrane_elasticity', 'cell::compute_area'):
            reg.add(relabel(c, 'as in ' + c.prop))
    for k, lc in sub.loops.items(): reg.loops[k] = lc
    sub6 = __import__('spec').Registry()
    C06.build(sub6, {'SIMUCELL3D_VERIF_CONTACT_MODEL_INDEX': 1})
    for c in sub6.contracts:
        if 'update_face_aabbs' in c.name or 'aabb_intersection_check' in c.name: reg.add(relabel(c, 'as in C06'))
        # which nodes enter the contact search: dead slots are parked at the origin by node::reset(), so a search that includes them makes the
        # result depend on where the tissue lies relative to the origin
        if '<voxel of the node>' in c.name: reg.add(relabel(c, 'as in C06'))
    sub3 = __import__('spec').Registry()
    C03.build(sub3, cfg)
    for c in sub3.contracts:
        if 'node loop body' in c.name: reg.add(relabel(c, 'as in C03'))
    for k, lc in sub3.loops.items(): reg.loops[k] = lc
    import meshops
    reg.add(meshops.replace_node_body_contract(PROP))
    lemmas(reg)


EXPLANATION = ("Translation independence as a corollary of contracts: (1) the kernels through which absolute node coordinates enter the dynamics are "
               "re-verified here against their specification functions on the current tree - closest-point kernel (with its own relational "
               "translation clause on the real code), face area vector / cached normal and area, pressure and tension forces, cell area, signed "
               "volume sum, padded face boxes and the box test, the integration step; (2) lemmas: each specification function is invariant (forces, "
               "areas, normals, box test, closest-point result) or equivariant (updated position) under a joint translation; (3) the enclosed "
               "volume (hence pressure and growth) is invariant by the closed-surface lemma (quoted). Induction over iterations: every phase "
               "under contract maps translated states to translated states, so the trajectories correspond.")
ASSUMPTIONS = ["exact reals ('to rounding accuracy' is not quantified)", "L-closed (quoted) for the invariance of the enclosed volume and centroid",
               "the spatial grids are not equivariant; C06 shows they only discard pairs beyond the cut-off, so the candidate set after the narrow phase is the same",
               "phases not under contract are listed as unverified"]
UNVERIFIED = ["surface reconstruction / Delaunay / ball pivoting (initialisation and division), polariser mode 2, mesh output formatting, bending and angle-regularisation forces, contact models 0 and 2",
              "random sampling (growth rates, division) is seeded from the clock and is excluded by the property's 'same inputs' reading"]
