"""C01 - cell surfaces stay closed, consistently oriented 2-manifolds under remeshing.
The data-structure side of the property, by contracts on the mesh editing primitives and on the operations built from them (shared with
C10 and C11 in meshops.py)."""
import z3
from spec import Contract, LoopContract, V3
from values import QForall, ObjLV, Ptr, Rec
import meshops as M

PROP = 'C01'
CONFIGS = [{'SIMUCELL3D_VERIF_DYNAMIC_MODEL_INDEX': 0}]


def build(reg, cfg=None):
    reg.plain_views = True
    reg.default_havoc = '*'
    reg.add(M.add_node_contract(PROP))
    reg.add(M.get_edge_contract(PROP))
    reg.add(M.delete_face_contract(PROP))
    reg.add(M.add_face_contract(PROP))
    reg.add(M.generate_edge_set_body_contract(PROP))
    M.rebase_loops(reg)
    reg.add(M.rebase_contract(PROP))
    reg.add(M.split_edge_contract(PROP))
    reg.add(M.check_winding_contract(PROP))
    reg.add(M.can_be_merged_contract(PROP))
    reg.add(M.replace_node_body_contract(PROP))      # merges: the walk around the removed node keeps the orientation of every face
    reg.add(M.refine_prologue_contract(PROP))
    # split_edge(topology) - the full callee contracts with their preconditions at every call site - is kept in meshops.py but not
    # registered: 8 of its 209 obligations stayed undecided within the thorough budgets (see DESIGN 10.4)
    M.split_lemmas(reg, PROP)


replay = M.replay
replay_recorded = M.replay_recorded


# swap_edge is not under a deductive contract (its proof needs the whole mesh invariant at five call sites). Its effect on the face
# cache and on the orientation is exercised natively on the real routine: a BOUNDED stand-in (stated bound: every edge of one
# icosphere offered to swap_edge), reported under bounded_checks, never as proved.
def extra_checks(run):
    import native, json, os
    code, txt = native.run_driver(M.DRIVER, ['swap'], sanitize=True, timeout=900)
    name = 'C01/bounded/face-cache-and-orientation-after-edge-swaps[icosphere]'
    rec = {'name': name, 'bound': 'every edge of a once-subdivided icosphere offered to the real local_mesh_refiner::swap_edge (ASan/UBSan build); afterwards cached normals against windings, half-edge pairing, closed manifold',
           'result': 'consistent' if code == 0 else ('inconsistent' if code == 1 else 'driver failed (%d)' % code), 'output': txt[-500:]}
    if code not in (0, 124, 125):
        rp = os.path.join(os.path.dirname(os.path.dirname(os.path.abspath(__file__))), 'replays', 'C01-bounded-swap.json')
        os.makedirs(os.path.dirname(rp), exist_ok=True)
        json.dump({'property': 'C01', 'obligation': name, 'native': {'args': ['swap'], 'output': txt, 'driver': 'specs/meshops.py:DRIVER'}, 'confirmed': True}, open(rp, 'w'), indent=1)
        rec.update({'violation': True, 'replay': rp, 'confirmed': True})
    return [rec]

EXPLANATION = ("The book-keeping half of the property as data-structure invariants carried by the editing primitives, over a full model of "
               "std::set<edge> (membership + stored edge per sorted node pair). Invariants: free-slot queues hold pairwise different ids of unused "
               "slots of their list; every stored edge carries the node pair of its key. Each primitive is proved to need and to keep them: "
               "cell::add_node, cell::get_edge, cell::delete_face(id) (the three edges of the face lose it or disappear with it, nothing else "
               "changes), cell::add_face (slot filled with a used copy, the three edges created or completed, throws only when an edge already has "
               "two faces - i.e. never makes an edge with three faces). cell::generate_edge_set, arbitrary face: afterwards its three sides are "
               "stored edges that list it. cell::rebase: every renumbering of faces or nodes is followed by a rebuild of the edge set, the free "
               "queues are empty afterwards (ghost clock over the stages). split_edge: the four requested triangles join the new node to the four "
               "old ones and are wound and labelled like the triangle they replace (so the surface stays consistently oriented). "
               "cell::check_face_winding_order: afterwards the edge shared with the reference face is traversed in opposite directions. "
               "can_be_merged: the answer is 'exactly two common neighbours of the two end nodes' (link condition). swap_edge: bounded native check only.")
ASSUMPTIONS = ["add_face / delete_face inside split_edge are used through views; their preconditions at those call sites are not discharged (see C11)", "the local configuration handed to split_edge is the one refine_mesh takes from the edge set of a manifold cell (stated as its precondition)",
               "remove_index<face>/<node>, face::update_node_ids and generate_edge_set as stages of rebase (their effect on the lists is not under contract there)",
               "std::set<edge> as modelled; exact reals for the winding lemma"]
UNVERIFIED = ["global statements: V-E+F=2, 'every edge has exactly two faces' for the whole surface after a pass, positive enclosed volume - they follow from the local contracts by induction over the operations only together with merge_edge / swap_edge / can_be_merged (link condition), which are not under contract",
              "swap_edge followed by split of the same face (design-phase candidate: orientation after a swap relies on check_face_winding_order)",
              "cached normals after an operation (C12 proves what update_face_normal_and_area stores)"]
