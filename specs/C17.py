"""C17 - malformed input files are rejected with an exception, never a crash.
Within reach of contracts: everything that happens once the regular expressions of the readers have produced numbers, i.e.
  * mesh_reader::get_cell_mesh (face framing, point ids, local renumbering): memory safety for every pair of vectors,
  * the cross-checks of simulation_initializer::run (cell count vs type count, type id range) and its worker lambda,
  * parameter_reader (C18 contracts: null text, missing tags, exception classes),
  * the classes of all exceptions thrown in the anchored files derive from std::exception (what main catches).
Integer conversions are modulo 2^N in these contracts (option 'modular'): the point of the cross-checks is what they do with
negative, huge or truncated numbers."""
import z3
from spec import Contract, LoopContract
from values import QForall, ObjLV, Ptr, Iter

PROP = 'C17'
I = z3.IntSort(); R = z3.RealSort(); B = z3.BoolSort()
MAXLEN = 2 ** 60      # std::vector<T>::max_size() is below this for every element type used here


def lv(C, name, st=None):
    st = st or C.pre_state
    for k, v in st.env.items():
        if C.e.var_names.get(k) == name and not str(k).startswith(('tmp!', 'glob!', 'param', 'rangeidx!')): return v
    raise KeyError(name)


ALLOWED_MESH = ('throw:mesh_reader_exception',)


def only_reader_exceptions(C, allowed=ALLOWED_MESH):
    if C.outcome in (None, 'ret', 'continue', 'end', 'break'): return []
    return [('only-mesh_reader_exception-escapes', z3.BoolVal(C.outcome in allowed))]


# ---- get_cell_mesh: one arbitrary cell record -----------------------------------------------------------------------------------
def cell_body_pre(C):
    o = C.old
    np_ = C.arg('node_pos'); fl = C.arg('face_connectivity_lst_lst')
    rec = lv(C, 'cell_face_lst_1D').ref
    return [('vector-sizes-are-possible', z3.And(o.len(np_) >= 0, o.len(np_) <= MAXLEN, o.len(fl) >= 0, o.len(fl) <= MAXLEN, o.len(rec) >= 0, o.len(rec) <= MAXLEN))]


def cell_body_post(C):
    return only_reader_exceptions(C)


def face_loop_inv(L):
    it = L.var('it'); rec = L.var('cell_face_lst_1D')
    return [('iterator-stays-inside-the-record', z3.And(it.idx >= 1, it.idx <= L.cur.len(rec.ref)))]


def face_loop_dec(L):
    it = L.var('it'); rec = L.var('cell_face_lst_1D')
    return L.cur.len(rec.ref) - it.idx


def inputs_kept(L):
    np_ = L.var('node_pos'); fl = L.var('face_connectivity_lst_lst'); rec = L.var('cell_face_lst_1D')
    return [np_.ref, fl.ref, rec.ref]


def node_set_kept(L):
    try: return [L.var('cell_node_set').ref]
    except Exception: return []


KEEP = [('vec.len', inputs_kept), ('vec.data.int', inputs_kept), ('vec.data.real', inputs_kept)]
# the loops after the face loop read the set of used point ids without changing it
KEEP_SET = KEEP + [('sset.member', node_set_kept), ('set.size', node_set_kept)]


def build(reg):
    fn = 'mesh_reader::get_cell_mesh'
    SAF = {'bounds', 'modular', 'wrap'}
    reg.add(Contract(fn, PROP, pre=cell_body_pre, post=cell_body_post, slice_loop=0, safety=SAF,
                     name=fn + '::<cell record>'))
    reg.add_loop(LoopContract(fn, 1, face_loop_inv, modifies=['*'], decreases=face_loop_dec, keep_at=KEEP))
    reg.add_loop(LoopContract(fn, 2, lambda L: [], modifies=['*'], keep_at=KEEP_SET))
    reg.add_loop(LoopContract(fn, 3, lambda L: [], modifies=['*'], keep_at=KEEP))
    reg.add_loop(LoopContract(fn, 4, lambda L: [], modifies=['*'], keep_at=KEEP))
    build_rest(reg)


def throw_sites(eng):
    """every throw expression written in the repository's sources throws an object whose class derives from std::exception
    (that is all main() catches); grouped by file"""
    ast = eng.ast
    per_file = {}
    seen = set()
    def visit(n, fn):
        if not isinstance(n, dict): return
        if n.get('kind') == 'CXXThrowExpr' and n.get('id') not in seen:
            seen.add(n.get('id'))
            f = (n.get('_file') or '?').replace(ast.repo + '/', '')
            if n.get('inner'):
                import ty as TY
                t = TY.of_node(n['inner'][0])
                cls = t.name if t.kind == 'record' else None
                ok = cls is not None and eng.models.exception_derives(cls, 'std::exception')
                per_file.setdefault(f, []).append((n.get('_line'), cls or repr(t), ok))
            else:
                per_file.setdefault(f, []).append((n.get('_line'), 'rethrow', True))
        for c in n.get('inner', []): visit(c, fn)
    for d in {id(x): x for x in ast.fn_def.values()}.values():
        f = d.get('_file') or ''
        if not f.startswith(ast.repo + '/'): continue
        visit(d, d)
    out = []
    for f in sorted(per_file):
        bad = [(l, c) for (l, c, ok) in per_file[f] if not ok]
        out.append(('throws-derive-from-std-exception:' + f, not bad,
                    '%d throw expression(s); %s' % (len(per_file[f]), ('not derived from std::exception: %r' % bad) if bad else 'all derive from std::exception')))
    out.append(('throw-sites-found', len(per_file) >= 5, 'files with throw expressions: %d' % len(per_file)))
    return out


def main_catches(eng):
    """main(): the construction of the simulation_initializer (all of start-up) sits in a try block with a handler for
    std::exception by reference, and that handler makes main return non-zero"""
    ast = eng.ast
    mains = [d for d in ast.fn_def.values() if d.get('name') == 'main' and d.get('kind') == 'FunctionDecl' and (d.get('_file') or '').endswith('main.cpp')]
    if len({id(m) for m in mains}) != 1:
        return [('main-found', False, '%d definitions of main in main.cpp' % len({id(m) for m in mains}))]
    m = mains[0]
    tries = []
    def visit(n):
        if not isinstance(n, dict): return
        if n.get('kind') == 'CXXTryStmt': tries.append(n)
        for c in n.get('inner', []): visit(c)
    visit(m)
    def mentions(n, what):
        if not isinstance(n, dict): return False
        if what in (n.get('type', {}).get('qualType') or ''): return True
        return any(mentions(c, what) for c in n.get('inner', []))
    def returns_nonzero(n):
        if not isinstance(n, dict): return False
        if n.get('kind') == 'ReturnStmt':
            lits = []
            def lit(x):
                if isinstance(x, dict):
                    if x.get('kind') == 'IntegerLiteral': lits.append(x.get('value'))
                    for c in x.get('inner', []): lit(c)
            lit(n)
            return bool(lits) and lits[0] not in ('0', 0)
        return any(returns_nonzero(c) for c in n.get('inner', []))
    ok = False; note = 'no try block around the start-up'
    for t in tries:
        block = t['inner'][0]; handlers = [h for h in t['inner'][1:] if h.get('kind') == 'CXXCatchStmt']
        if not mentions(block, 'simulation_initializer'): continue
        for h in handlers:
            var = h['inner'][0] if h.get('inner') else {}
            qt = (var.get('type', {}).get('qualType') or '').replace('const ', '').replace(' const', '').replace(' ', '')
            catches_all = var.get('kind') != 'VarDecl'          # catch(...)
            if (qt in ('std::exception&', 'exception&') or catches_all) and returns_nonzero(h):
                ok = True; note = 'handler %r returns non-zero' % (var.get('type', {}).get('qualType') or '...')
        if not ok: note = 'the try block around start-up has no handler for std::exception& that returns non-zero'
    return [('main-catches-std-exception-around-start-up', ok, note)]


def whole_post(C):
    return only_reader_exceptions(C)


# ---- simulation_initializer::run: the worker that builds cell number cell_id ---------------------------------------------------------
def worker_pre(C):
    o = C.old
    types = lv(C, 'cell_type_id_lst').ref; meshes = lv(C, 'cell_mesh_lst').ref; params = lv(C, 'cell_type_param_lst').ref
    cells = o.sub(C.this, 'simulation_initializer.cell_lst_')
    cid = C.val('cell_id')
    n = o.len(meshes)
    # what run() has established when it starts the workers (proved by the prefix contract below): the three lists have one entry
    # per cell, and cell_id comes from iota(0 .. nb_cells-1)
    return [('one-entry-per-cell', z3.And(o.len(types) == n, o.len(cells) == n, n >= 0, n <= MAXLEN, o.len(params) >= 0, o.len(params) <= MAXLEN)),
            ('cell-id-from-the-iota-list', z3.And(cid >= 0, cid < n))]


def worker_post(C):
    if C.outcome in (None, 'ret'): return []
    return [('only-standard-exceptions-escape', z3.BoolVal(C.outcome in ('throw:intialization_exception',)))]


def triangulate_contract():
    def rm(C, st):
        return Ptr(C.e.fresh('built_cell', I), 'cell')
    return Contract('simulation_initializer::triangulate_surface', PROP, frame=lambda C: [('*', ['vec.len'])], ret_model=rm, assumed=True,
                    name='simulation_initializer::triangulate_surface (assumed: returns or throws, resizes no list)')


def handler_pre(C):
    """what run() must have established when it hands the worker to parallel_exception_handler: exactly the worker's requires,
    for every element of the id list"""
    o = C.old
    st = C.pre_state
    types = lv(C, 'cell_type_id_lst', st).ref; meshes = lv(C, 'cell_mesh_lst', st).ref
    cells = o.sub(C.caller_this, 'simulation_initializer.cell_lst_')
    ids = C.arg('vec').ref
    n = o.len(meshes)
    k = z3.Int('any_position_of_the_id_list')
    return [('one-entry-per-cell', z3.And(o.len(types) == n, o.len(cells) == n)),
            ('every-id-is-a-cell-index', z3.Implies(z3.And(k >= 0, k < o.len(ids)), z3.And(o.at(ids, k, 'int') >= 0, o.at(ids, k, 'int') < n)))]


def run_post(C):
    if C.outcome in (None, 'ret'): return []
    return [('only-standard-exceptions-escape', z3.BoolVal(C.outcome in ('throw:intialization_exception', 'throw:mesh_reader_exception', 'throw:std::exception')))]


def fresh_vector(tyname):
    def rm(C, st):
        import ty
        o = ObjLV(C.e.new_object(), ty.parse(tyname))
        ln = C.e.fresh('returned_len', I)
        st.pc.append(z3.And(ln >= 0, ln <= MAXLEN))
        C.e.hwrite(st, 'vec.len', o.ref, ln)
        return o
    return rm


def external(qn, what, ret=None, const=False):
    return Contract(qn, PROP, frame=(lambda C: []) if const else (lambda C: [('*', None)]), ret_model=ret, assumed=True, name=qn + ' (' + what + ')')


def run_pre(C):
    o = C.old
    params = C.arg('cell_type_param_lst').ref
    return [('cell-type-parameter-pointers-are-not-null', QForall(lambda k: z3.Implies(z3.And(k >= 0, k < o.len(params)), o.at(params, k, 'int') != 0), 1, 'made by make_shared in read_biomechanical_parameters')),
            ('list-size-possible', z3.And(o.len(params) >= 0, o.len(params) <= MAXLEN))]


def build_rest(reg):
    reg.add(Contract('simulation_initializer::run', PROP, pre=run_pre, post=run_post, safety={'bounds', 'modular', 'null-deref'}, name='simulation_initializer::run(cross-checks)',
                     use=[external('mesh_reader::mesh_reader', 'regular-expression front end: not under contract'),
                          external('mesh_reader::read', 'returns some list of meshes or throws', ret=fresh_vector('std::vector<mesh>'), const=True),
                          external('mesh_reader::get_cell_types', 'returns some list of shorts or throws', ret=fresh_vector('std::vector<short>'), const=True),
                          Contract('parallel_exception_handler', PROP, pre=handler_pre, frame=lambda C: [('*', None)], assumed=True,
                                   name='parallel_exception_handler (assumed: calls func(vec[i]) for 0 <= i < vec.size() only and rethrows what func threw)')]))
    reg.add(Contract('simulation_initializer::run', PROP, pre=worker_pre, post=worker_post, lambda_ordinal=1, captures=['cell_type_id_lst', 'cell_mesh_lst', 'cell_type_param_lst'], safety={'bounds', 'modular', 'null-deref'},
                     use=[triangulate_contract()], name='simulation_initializer::run::<cell worker>'))
    fn = 'mesh_reader::get_cell_mesh'
    reg.add_loop(LoopContract(fn, 0, lambda L: [], modifies=['*']))
    reg.add(Contract(fn, PROP, post=whole_post, name=fn + '(exits)'))
    reg.static_fact(throw_sites)
    reg.static_fact(main_catches)
    # parameter file side: the contracts of C18 that concern malformed XML (null text, missing tags, exception classes)
    import C18
    from spec import Registry
    sub = Registry()
    C18.build(sub)
    for c in sub.contracts:
        if c.qname in ('parameter_reader::get_string_value', 'parameter_reader::read_numerical_parameters', 'parameter_reader::read_cell_type_parameters',
                       'parameter_reader::read_face_type_parameters') and c.slice_loop is None:
            c.prop = PROP; c.name = c.name + ' [as in C18]'
            reg.add(c)


EXPLANATION = ("Contracts on the code that turns parsed numbers into cells. get_cell_mesh: contract on an arbitrary iteration of the cell loop "
               "(arbitrary record, arbitrary point list) with loop contracts on the four inner loops: the face iterator stays in [1, size], "
               "decreases size - it, every operator[] / *it / std::copy range / set::insert range is inside its vector, integer conversions are "
               "modulo 2^N (int <- unsigned, size_t <- ptrdiff_t, size_t <- int), unsigned arithmetic wraps; only mesh_reader_exception escapes. "
               "simulation_initializer::run: the call of parallel_exception_handler is reached only with |meshes| = |type ids| = |cell_lst_| and an "
               "id list whose entries are < that size (iota); the worker lambda, under exactly that precondition, indexes all four lists in "
               "bounds for every value of the short type id. Parameter file: C18's contracts on get_string_value and the three readers. Static "
               "facts from the AST: all thrown classes derive from std::exception; main() wraps start-up in try / catch(std::exception const&) "
               "returning non-zero.")
ASSUMPTIONS = ["std::vector sizes are at most 2^60 (max_size)", "std::set<unsigned>::insert(range) / range-for and std::map<unsigned,unsigned> insert / operator[] as in models.py (membership array; map[k] value-initialises)",
               "parallel_exception_handler calls func(vec[i]) only for 0 <= i < vec.size() and rethrows what func threw (its 10-line body uses OpenMP and std::exception_ptr, outside the executor)",
               "mesh_reader::mesh_reader / read / get_cell_types as callees of run(): arbitrary result or exception (their bodies are std::regex code)",
               "cell_type_param_lst holds non-null pointers (make_shared in read_biomechanical_parameters)",
               "triangulate_surface returns or throws and does not resize the lists of run() (C13 is about its result)"]
UNVERIFIED = ["mesh_reader constructor, get_node_pos, read_cell_faces, get_cell_types: std::regex, std::stoi/stod, std::getline - tokenisation, the relation between the CELLS header counts and the records, memory use proportional to the input, termination of regex_search",
              "tinyxml2 parsing of the parameter file; std::bad_alloc from reserve(nb) with a huge count",
              "local ids written by get_cell_mesh are < number of points of the cell (needs 'every face entry was inserted in the set'; the map model gives any unsigned)"]


# ------------------------------------------------------------------------------------------------ native replay (ASan/UBSan build)
MESH_DRIVER = r'''
#include "mesh_reader.hpp"
#include <cstdio>
#include <cstdlib>
#include <cstring>
// argv: nb_points, then the integers of ONE cell record as read_cell_faces hands it to get_cell_mesh ("-" = empty record)
int main(int argc, char** argv){
  size_t np = strtoul(argv[1],0,10);
  std::vector<double> node_pos(np*3, 0.5);
  std::vector<unsigned> rec; for(int i=2;i<argc;i++) if(strcmp(argv[i],"-")) rec.push_back((unsigned)strtoul(argv[i],0,10));
  std::vector<std::vector<unsigned>> conn{rec};
  try{
    auto m = mesh_reader::get_cell_mesh(node_pos, conn);
    printf("OK completed: %zu faces, %zu coordinates\n", m[0].face_point_ids.size(), m[0].node_pos_lst.size());
  }catch(const std::exception& e){ printf("OK rejected: %s\n", e.what()); }
  return 0;
}
'''

INIT_DRIVER = r'''
#include "simulation_initializer.hpp"
#include <cstdio>
#include <fstream>
#include <unistd.h>
// argv: the two tokens of the cell_type_id array of a two-cube mesh; start-up must complete or throw a std::exception
static const char* HEAD = "# vtk DataFile Version 4.2\nvtk output\nASCII\nDATASET UNSTRUCTURED_GRID\nPOINTS 16 float\n"
 "1.5e-06 0 0 2.25e-05 0 0 2.25e-05 0 2.1e-05 \n1.5e-06 0 2.1e-05 1.5e-06 2.1e-05 0 2.25e-05 2.1e-05 0 \n1.5e-06 2.1e-05 2.1e-05 2.25e-05 2.1e-05 2.1e-05 2.4e-05 0 0 \n"
 "4.5e-05 0 0 4.5e-05 0 2.1e-05 2.4e-05 0 2.1e-05 \n2.4e-05 2.1e-05 0 4.5e-05 2.1e-05 0 2.4e-05 2.1e-05 2.1e-05 \n4.5e-05 2.1e-05 2.1e-05 \n\nCELLS 2 100\n"
 "49 12 3 0 1 3 3 2 3 1 3 0 4 1 3 5 1 4 3 0 3 4 3 6 4 3 3 1 5 2 3 7 2 5 3 5 4 7 3 6 7 4 3 3 2 6 3 7 6 2 \n"
 "49 12 3 8 9 11 3 10 11 9 3 8 12 9 3 13 9 12 3 8 11 12 3 14 12 11 3 9 13 10 3 15 10 13 3 13 12 15 3 14 15 12 3 11 10 14 3 15 14 10 \n"
 "CELL_TYPES 2\n42\n42\n\nCELL_DATA 2\nFIELD FieldData 1\ncell_type_id 1 2 int\n";
int main(int argc, char** argv){
  char path[] = "/tmp/verif_c17_XXXXXX"; int fd = mkstemp(path); if(fd<0) return 125; close(fd);
  { std::ofstream f(path); f << HEAD << argv[1] << " " << argv[2] << "\n"; }
  global_simulation_parameters sp; sp.input_mesh_path_ = path; sp.output_folder_path_ = "/tmp"; sp.perform_initial_triangulation_ = false;
  sp.damping_coefficient_ = 1; sp.simulation_duration_ = 1; sp.sampling_period_ = 1; sp.time_step_ = 1; sp.min_edge_len_ = 5e-6;
  sp.contact_cutoff_adhesion_ = 1e-7; sp.contact_cutoff_repulsion_ = 1e-7;
  auto ct = std::make_shared<cell_type_parameters>(); ct->name_ = "epithelial"; ct->global_type_id_ = 0;
  face_type_parameters ft; ft.name_ = "apical"; ct->face_types_.push_back(ft);
  std::vector<cell_type_param_ptr> lst{ct};
  int rc = 0;
  try{ simulation_initializer init(sp, lst, false); printf("OK completed: %zu cells\n", init.get_cell_lst().size()); }
  catch(const std::exception& e){ printf("OK rejected: %s\n", e.what()); }
  unlink(path);
  return rc;
}
'''


def _mesh_candidates(ins):
    def pick(sub):
        for k, v in ins.items():
            if sub in k:
                try: return int(v)
                except ValueError: pass
        return None
    np_ = pick('[obj_node_pos]')
    np_ = np_ // 3 if (np_ is not None and 0 < np_ <= 3000) else 4
    P = str(np_)
    # the model's record length first (0 = the empty record), then the canonical malformed records of the property statement
    cands = []
    ln = pick('elem(obj_face_connectivity_lst_lst')
    if ln == 0: cands.append([P, '-'])
    cands += [[P, '-'], [P, '1', '3', '0', '1', P], [P, '1', '3', '0', '1', str(4 * np_ + 1000000)], [P, '1', '4', '0', '1', '2'], [P, '2', '3', '0', '1', '2', '3', '0', '1'],
              [P, '1', '3', '0', '1'], [P, '1', '0'], [P, '1', '4294967295'], [P, '2', '3', '0', '1', '2', '4', '0', '1', '2'], [P, '1', '3', '0', '1', '2', '7']]
    return cands


def _run_family(driver, cands, label):
    import native
    tried = []
    for c in cands:
        code, out = native.run_driver(driver, c, sanitize=True, timeout=300)
        tried.append({'args': c, 'exit': code})
        if code == 125: return {'confirmed': False, 'output': out, 'tried': tried, 'driver': label}
        if code != 0 and code != 124:
            return {'confirmed': True, 'exit': code, 'args': c, 'output': out[-3000:], 'tried': tried, 'driver': label}
    return {'confirmed': False, 'tried': tried, 'driver': label, 'output': 'every candidate input was accepted or rejected with a std::exception'}


def replay(ob, ins, run):
    fn = ob.info.get('fn') or ''
    if 'get_cell_mesh' in fn or 'get_cell_mesh' in ob.info.get('contract', ''):
        return _run_family(MESH_DRIVER, _mesh_candidates(ins), 'specs/C17.py:MESH_DRIVER (real mesh_reader::get_cell_mesh, ASan/UBSan build)')
    if 'simulation_initializer' in fn or 'simulation_initializer' in ob.info.get('contract', ''):
        cands = [['40000', '0'], ['0', '65535'], ['7', '0'], ['0', '1'], ['32768', '0'], ['0', '0']]
        return _run_family(INIT_DRIVER, cands, 'specs/C17.py:INIT_DRIVER (real simulation_initializer on a generated two-cube file, ASan/UBSan build)')
    return {'confirmed': False, 'output': 'no native driver for this obligation'}


def replay_recorded(data):
    import native
    nat = data.get('native', {})
    args = nat.get('args')
    if not args: return {'confirmed': False, 'output': 'no recorded failing input'}
    drv = MESH_DRIVER if 'MESH_DRIVER' in nat.get('driver', '') else INIT_DRIVER
    code, out = native.run_driver(drv, args, sanitize=True, timeout=300)
    return {'confirmed': code != 0 and code not in (124, 125), 'output': out}
