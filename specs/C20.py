"""C20 - spatial grids: contracts on uspg_abstract / uspg_4d<T> / uspg_3d<T> (instantiations the repository uses)."""
import z3
from spec import Contract, V3, LoopContract
from values import QForall

PROP = 'C20'
I = z3.IntSort(); R = z3.RealSort()
MAXV = 2 ** 20          # voxels per axis admitted by the contracts (the unsigned conversion itself is undefined beyond 2^32)
AX = ('x', 'y', 'z')
import fractions
EPS = z3.RealVal(fractions.Fraction(1, 2 ** 52))


def g(view, this, f):
    return view.f(this, 'uspg_abstract.' + f)


# ---- update_dimensions establishes the grid invariant ---------------------------------------------------------------
def pre_update(C):
    o = C.old
    s = g(o, C.this, 'voxel_size_')
    out = [('voxel-size-positive', s > 0)]
    for a in AX:
        lo, hi = C.val('min_' + a), C.val('max_' + a)
        out.append(('box-%s-non-empty' % a, lo < hi))
        out.append(('box-%s-fewer-than-2^20-voxels' % a, (hi + EPS - lo) / s < MAXV - 2))
    return out


def post_update(cls):
    def post(C):
        o, n = C.old, C.new
        this = C.this
        s = g(o, this, 'voxel_size_')
        out = [('voxel-size-kept', g(n, this, 'voxel_size_') == s)]
        nb = {a: g(n, this, 'nb_voxels_%s_' % a) for a in AX}
        for a in AX:
            lo, hi = C.val('min_' + a), C.val('max_' + a)
            p = z3.Real('any_pos_' + a)           # free in the goal: the clause holds for every position
            q = (p - g(n, this, 'min_%s_' % a)) / s
            # every point of the declared box satisfies the precondition of the index computation (get_3d_voxel_index) ...
            out.append(('every-point-of-the-box-is-indexable-%s' % a, z3.Implies(z3.And(lo <= p, p <= hi), z3.And(q >= 0, q < MAXV))))
            # ... and the voxel it falls into exists, the points of the upper face being assigned to the last voxel
            idx = z3.If(z3.ToInt(q) < nb[a] - 1, z3.ToInt(q), nb[a] - 1)
            out.append(('every-point-of-the-box-has-a-voxel-%s' % a, z3.Implies(z3.And(lo <= p, p <= hi), z3.And(idx >= 0, idx < nb[a]))))
            out.append(('at-least-one-voxel-%s' % a, z3.And(nb[a] >= 1, nb[a] < MAXV)))
        lst = n.sub(this, cls + '.voxel_lst_')
        out.append(('one-slot-per-voxel', n.len(lst) == nb['x'] * nb['y'] * nb['z']))
        k = z3.Int('any_voxel')
        if cls.startswith('uspg_4d'):
            out.append(('grid-is-empty-after-redimensioning', z3.Implies(z3.And(k >= 0, k < n.len(lst)), n.f(n.elem(lst, k), 'flist.len') == 0)))
        else:
            out.append(('grid-is-empty-after-redimensioning', z3.Implies(z3.And(k >= 0, k < n.len(lst)), z3.Not(n.st.heap['vec.data.optional.has'][lst][k]))))
        return out
    return post


# ---- index computations ---------------------------------------------------------------------------------------------
def grid_inv(view, this):
    """what update_dimensions establishes and nothing else changes (the fields are private and written only there)"""
    nb = {a: g(view, this, 'nb_voxels_%s_' % a) for a in AX}
    return z3.And(g(view, this, 'voxel_size_') > 0, *[z3.And(nb[a] >= 1, nb[a] < MAXV) for a in AX])


def pre_flat(C):
    o = C.old
    return [('grid-invariant', grid_inv(o, C.this))] + [('voxel-%s-in-range' % a, z3.And(C.val('voxel_%s_id' % a) >= 0, C.val('voxel_%s_id' % a) < g(o, C.this, 'nb_voxels_%s_' % a))) for a in AX]


def post_flat(C):
    o = C.old
    nx, ny, nz = [g(o, C.this, 'nb_voxels_%s_' % a) for a in AX]
    x, y, z = [C.val('voxel_%s_id' % a) for a in AX]
    return [('flattened-index-formula', C.ret == z * nx * ny + y * nx + x),
            ('flattened-index-in-range', z3.And(C.ret >= 0, C.ret < nx * ny * nz))]


def pre_3d(C):
    o = C.old
    out = [('grid-invariant', grid_inv(o, C.this))]
    for a in AX:
        p = C.val('pos_' + a)
        lo = g(o, C.this, 'min_%s_' % a); s = g(o, C.this, 'voxel_size_')
        # what update_dimensions guarantees for every point of the declared box
        out.append(('pos-%s-indexable' % a, z3.And((p - lo) / s >= 0, (p - lo) / s < MAXV)))
    return out


def post_3d(C):
    o = C.old
    out = []
    for i, a in enumerate(AX):
        p = C.val('pos_' + a); lo = g(o, C.this, 'min_%s_' % a); s = g(o, C.this, 'voxel_size_')
        fl = z3.ToInt((p - lo) / s); nb_ = g(o, C.this, 'nb_voxels_%s_' % a)
        out.append(('voxel-%s-is-floor-clamped-to-the-last-voxel' % a, C.ret.f[str(i)] == z3.If(fl < nb_ - 1, fl, nb_ - 1)))
        out.append(('voxel-%s-in-range' % a, z3.And(C.ret.f[str(i)] >= 0, C.ret.f[str(i)] < g(o, C.this, 'nb_voxels_%s_' % a))))
    return out


# ---- place_object / get_voxel_content (uspg_4d<face*>) ----------------------------------------------------------------
def pre_place(C):
    o = C.old
    lst = o.sub(C.this, 'uspg_4d<face *>.voxel_lst_')
    return [('voxel-id-in-range', z3.And(C.val('voxel_id') >= 0, C.val('voxel_id') < o.len(lst)))]


def post_place(C):
    o, n = C.old, C.new
    lst = o.sub(C.this, 'uspg_4d<face *>.voxel_lst_')
    vid = C.val('voxel_id'); obj = C.val('object').ref
    cell_o = o.arr('flist.count')[o.elem(lst, vid)]; cell_n = n.arr('flist.count')[n.elem(lst, vid)]
    k = z3.Int('other_voxel'); t = z3.Int('other_object')
    return [('object-is-in-its-voxel', cell_n[obj] == cell_o[obj] + 1),
            ('rest-of-that-voxel-unchanged', z3.Implies(t != obj, cell_n[t] == cell_o[t])),
            ('other-voxels-unchanged', z3.Implies(k != vid, n.arr('flist.count')[n.elem(lst, k)] == o.arr('flist.count')[o.elem(lst, k)])),
            ('number-of-voxels-unchanged', n.len(lst) == o.len(lst))]


# ---- neighbourhood (uspg_4d<face*>) -----------------------------------------------------------------------------------
def pre_neigh(C):
    o = C.old
    nx, ny, nz = [g(o, C.this, 'nb_voxels_%s_' % a) for a in AX]
    lst = o.sub(C.this, 'uspg_4d<face *>.voxel_lst_')
    out = [('grid-invariant', grid_inv(o, C.this)), ('one-slot-per-voxel', o.len(lst) == nx * ny * nz)]
    for a in AX:
        v = C.val('object_voxel_%s_id' % a)
        out.append(('query-voxel-%s-in-range' % a, z3.And(v >= 0, v < g(o, C.this, 'nb_voxels_%s_' % a))))
    return out


def post_neigh_bounds(C):
    """state on entry to the triple loop: the loop bounds cover the +-1 block around the query voxel, clipped to the grid"""
    o = C.old
    nb = [g(o, C.this, 'nb_voxels_%s_' % a) for a in AX]
    out = []
    for i, a in enumerate(AX):
        q = C.val('object_voxel_%s_id' % a)
        lo = C.local('start_voxel_%s_id' % a); hi = C.local('end_voxel_%s_id' % a)
        out.append(('block-%s-starts-at-or-before-the-previous-voxel' % a, z3.And(lo >= 0, lo <= z3.If(q >= 1, q - 1, 0))))
        out.append(('block-%s-ends-after-the-next-voxel' % a, z3.And(hi <= nb[i], hi >= z3.If(q + 2 <= nb[i], q + 2, nb[i]))))
    out.append(('outer-loop-starts-at-the-first-x', C.local('voxel_x_id') == C.local('start_voxel_x_id')))
    return out


def loop_vars(C, st=None):
    return [C.local('voxel_%s_id' % a, st) for a in AX]


def pre_neigh_body(C):
    """one iteration of the innermost loop for arbitrary loop variables inside the bounds established by the prefix contract"""
    o = C.old
    nx, ny, nz = [g(o, C.this, 'nb_voxels_%s_' % a) for a in AX]
    lst = o.sub(C.this, 'uspg_4d<face *>.voxel_lst_')
    out = [('grid-invariant', grid_inv(o, C.this)), ('one-slot-per-voxel', o.len(lst) == nx * ny * nz)]
    for v, n_, a in zip(loop_vars(C, C.pre_state), (nx, ny, nz), AX):
        out.append(('loop-variable-%s-in-the-grid' % a, z3.And(v >= 0, v < n_)))
    res = [v for k, v in C.pre_state.env.items() if C.e.var_names.get(k) == 'neighboring_objects'][0].ref
    k = z3.Int('any_voxel_index')
    out.append(('result-is-a-local-list-not-a-voxel-of-the-grid', C.e.uf('elem_v', I, I)(res) != lst))
    return out


def post_neigh_body(C):
    o, n = C.old, C.new
    nx, ny, nz = [g(o, C.this, 'nb_voxels_%s_' % a) for a in AX]
    lst = o.sub(C.this, 'uspg_4d<face *>.voxel_lst_')
    x, y, z = loop_vars(C, C.pre_state)
    src = o.elem(lst, z * nx * ny + y * nx + x)
    res = [v for k, v in C.post_state.env.items() if C.e.var_names.get(k) == 'neighboring_objects'][0].ref
    t = z3.Int('any_object')
    cnt_o = o.arr('flist.count'); cnt_n = n.arr('flist.count')
    x2, y2, z2 = loop_vars(C, C.post_state)
    nonempty = o.f(src, 'flist.len') != 0
    return [('content-of-the-visited-voxel-is-added-to-the-result', cnt_n[res][t] == z3.If(nonempty, cnt_o[res][t] + cnt_o[src][t], cnt_o[res][t])),
            ('grid-content-untouched', cnt_n[src] == cnt_o[src]),
            ('loop-variables-not-modified-by-the-body', z3.And(x2 == x, y2 == y, z2 == z))]


# ---- get_grid_content (uspg_4d<face*>): body of the innermost loop -------------------------------------------------------
def post_content_body(C):
    o, n = C.old, C.new
    nx, ny, nz = [g(o, C.this, 'nb_voxels_%s_' % a) for a in AX]
    lst = o.sub(C.this, 'uspg_4d<face *>.voxel_lst_')
    x, y, z = loop_vars(C, C.pre_state)
    src = o.elem(lst, z * nx * ny + y * nx + x)
    res = [v for k, v in C.post_state.env.items() if C.e.var_names.get(k) == 'grid_content'][0].ref
    t = z3.Int('any_object')
    cnt_o = o.arr('flist.count'); cnt_n = n.arr('flist.count')
    x2, y2, z2 = loop_vars(C, C.post_state)
    nonempty = o.f(src, 'flist.len') != 0
    return [('content-of-the-visited-voxel-is-added-to-the-result', cnt_n[res][t] == z3.If(nonempty, cnt_o[res][t] + cnt_o[src][t], cnt_o[res][t])),
            ('grid-content-untouched', cnt_n[src] == cnt_o[src]),
            ('loop-variables-not-modified-by-the-body', z3.And(x2 == x, y2 == y, z2 == z))]


def pre_content_body(C):
    o = C.old
    nx, ny, nz = [g(o, C.this, 'nb_voxels_%s_' % a) for a in AX]
    lst = o.sub(C.this, 'uspg_4d<face *>.voxel_lst_')
    out = [('grid-invariant', grid_inv(o, C.this)), ('one-slot-per-voxel', o.len(lst) == nx * ny * nz)]
    for v, n_, a in zip(loop_vars(C, C.pre_state), (nx, ny, nz), AX):
        out.append(('loop-variable-%s-in-the-grid' % a, z3.And(v >= 0, v < n_)))
    res = [v for k, v in C.pre_state.env.items() if C.e.var_names.get(k) == 'grid_content'][0].ref
    out.append(('result-is-a-local-list-not-a-voxel-of-the-grid', C.e.uf('elem_v', I, I)(res) != lst))
    return out


# ---- get_voxel_content, place_object by position (composition of the index functions) -------------------------------------
def post_voxel_content(C):
    o = C.old
    nx, ny, nz = [g(o, C.this, 'nb_voxels_%s_' % a) for a in AX]
    lst = o.sub(C.this, 'uspg_4d<face *>.voxel_lst_')
    x, y, z = [C.val('voxel_%s_id' % a) for a in AX]
    return [('returns-the-list-of-that-voxel', C.ret.ref == o.elem(lst, z * nx * ny + y * nx + x))]


def pre_voxel_content(C):
    o = C.old
    nx, ny, nz = [g(o, C.this, 'nb_voxels_%s_' % a) for a in AX]
    lst = o.sub(C.this, 'uspg_4d<face *>.voxel_lst_')
    return pre_flat(C) + [('one-slot-per-voxel', o.len(lst) == nx * ny * nz)]


def pre_place_pos(C):
    o = C.old
    nx, ny, nz = [g(o, C.this, 'nb_voxels_%s_' % a) for a in AX]
    lst = o.sub(C.this, 'uspg_4d<face *>.voxel_lst_')
    return pre_3d(C) + [('one-slot-per-voxel', o.len(lst) == nx * ny * nz)]


def post_place_pos(C):
    o, n = C.old, C.new
    nb = [g(o, C.this, 'nb_voxels_%s_' % a) for a in AX]
    s_ = g(o, C.this, 'voxel_size_')
    lst = o.sub(C.this, 'uspg_4d<face *>.voxel_lst_')
    idx = []
    for i, a in enumerate(AX):
        fl = z3.ToInt((C.val('pos_' + a) - g(o, C.this, 'min_%s_' % a)) / s_)
        idx.append(z3.If(fl < nb[i] - 1, fl, nb[i] - 1))
    vox = o.elem(lst, idx[2] * nb[0] * nb[1] + idx[1] * nb[0] + idx[0])
    obj = C.val('object').ref
    return [('object-is-stored-in-the-voxel-of-its-position', n.arr('flist.count')[vox][obj] == o.arr('flist.count')[vox][obj] + 1)]


# ---- lemmas (mathematics used to compose the contracts; proved by the same back ends) ---------------------------------
def lemmas(reg):
    x, y, z, x2, y2, z2, nx, ny, nz = z3.Ints('lx ly lz lx2 ly2 lz2 lnx lny lnz')
    box = z3.And(x >= 0, x < nx, y >= 0, y < ny, z >= 0, z < nz, x2 >= 0, x2 < nx, y2 >= 0, y2 < ny, z2 >= 0, z2 < nz)
    flat = lambda a, b, c: c * nx * ny + b * nx + a
    reg.lemma('flattening-is-injective', PROP, [box, flat(x, y, z) == flat(x2, y2, z2)], z3.And(x == x2, y == y2, z == z2),
              note='distinct voxels of the grid have distinct slots', inputs=[x, y, z, x2, y2, z2, nx, ny, nz])
    p, q, m, s = z3.Reals('lp lq lm ls')
    nn = z3.Int('lnn')
    cl = lambda t: z3.If(z3.ToInt(t) < nn - 1, z3.ToInt(t), nn - 1)
    d = cl((q - m) / s) - cl((p - m) / s)
    reg.lemma('points-within-one-voxel-size-are-in-adjacent-voxels', PROP, [s > 0, nn >= 1, q - p <= s, p - q <= s], z3.And(d >= -1, d <= 1),
              note='per axis: |q-p| <= voxel size implies the (clamped) voxel indices differ by at most one', inputs=[p, q, m, s, nn])


# ---- get_neighborhood(position): every point of the box (faces and corners included) is answered through the voxel of that point ----------------------------
def pre_neigh_pos(C):
    o = C.old
    out = pre_3d(C)
    nx, ny, nz = [g(o, C.this, 'nb_voxels_%s_' % a) for a in AX]
    lst = o.sub(C.this, 'uspg_4d<face *>.voxel_lst_')
    out.append(('one-slot-per-voxel', o.len(lst) == nx * ny * nz))
    for a in AX:
        p = C.val('pos_' + a)
        # the closed box: a point on an upper face (pos == max) is a point of the grid
        out.append(('pos-%s-inside-the-closed-box' % a, z3.And(p >= g(o, C.this, 'min_%s_' % a), p <= g(o, C.this, 'max_%s_' % a))))
    return out


def neigh_ids_callee(sig):
    def on_call(C, st):
        from values import GuardedLog
        st.ghost['neigh_calls'] = st.ghost.get('neigh_calls', GuardedLog()).add(tuple(C.val('object_voxel_%s_id' % a) for a in AX))
    def rm(C, st):
        v = C.e.fresh('neighborhood.result', I)
        st.ghost['neigh_result'] = v
        from values import ObjLV
        import ty as TY
        return ObjLV(v, TY.parse('std::forward_list<face *>'))
    return Contract('uspg_4d<face *>::get_neighborhood', PROP, signature=sig, frame=lambda C: [], on_call=on_call, ret_model=rm, assumed=True,
                    name='uspg_4d<face *>::get_neighborhood(voxel ids) (own contracts above; call recorded)')


def post_neigh_pos(C):
    o = C.old
    g_ = C.post_state.ghost
    log = g_.get('neigh_calls')
    entries = log.entries if log is not None else []
    want = []
    for a in AX:
        p = C.val('pos_' + a); lo = g(o, C.this, 'min_%s_' % a); s = g(o, C.this, 'voxel_size_')
        fl = z3.ToInt((p - lo) / s); nb_ = g(o, C.this, 'nb_voxels_%s_' % a)
        want.append(z3.If(fl < nb_ - 1, fl, nb_ - 1))
    called = z3.Or(*[z3.And(gd, *[v == w for v, w in zip(vs, want)]) for (gd, vs) in entries]) if entries else z3.BoolVal(False)
    out = [('the-query-is-answered-through-the-voxel-of-the-point-for-every-point-of-the-closed-box', called)]
    if 'neigh_result' in g_ and hasattr(C.ret, 'ref'):
        out.append(('the-answer-of-the-voxel-query-is-returned', z3.Or(*[z3.Implies(gd, C.ret.ref == g_['neigh_result']) for (gd, vs) in entries]) if entries else z3.BoolVal(False)))
    return out



def build(reg):
    for cls in ('uspg_4d<face *>', 'uspg_4d<oriented_point>', 'uspg_3d<unsigned short>'):
        reg.add(Contract(cls + '::update_dimensions', PROP, pre=pre_update, post=post_update(cls), safety={'wrap', 'narrowing'}))
    reg.add(Contract('uspg_abstract::get_voxel_index', PROP, signature='(const unsigned int, const unsigned int, const unsigned int)', pre=pre_flat, post=post_flat,
                     safety={'wrap', 'narrowing'}, assigns=[], name='uspg_abstract::get_voxel_index(unsigned x3)'))
    reg.add(Contract('uspg_abstract::get_3d_voxel_index', PROP, signature='(const double, const double, const double)', pre=pre_3d, post=post_3d,
                     safety={'wrap', 'narrowing'}, assigns=[], name='uspg_abstract::get_3d_voxel_index(double x3)'))
    reg.add(Contract('uspg_4d<face *>::place_object', PROP, signature='const size_t)', pre=pre_place, post=post_place, safety={'bounds'},
                     assigns=['flist.count', 'flist.len'], name='uspg_4d<face *>::place_object(object, voxel id)'))
    sig = '(const unsigned int, const unsigned int, const unsigned int)'
    reg.add(Contract('uspg_4d<face *>::get_neighborhood', PROP, signature=sig, pre=pre_neigh, post=post_neigh_bounds, prefix_loop=0,
                     safety={'wrap'}, name='uspg_4d<face *>::get_neighborhood(voxel ids)::<loop bounds>'))
    reg.add(Contract('uspg_4d<face *>::get_neighborhood', PROP, signature=sig, pre=pre_neigh_body, post=post_neigh_body, slice_loop=2,
                     safety={'bounds', 'wrap'}, name='uspg_4d<face *>::get_neighborhood(voxel ids)::<loop body>'))
    c3d = [c for c in reg.contracts if c.qname == 'uspg_abstract::get_3d_voxel_index'][0]
    reg.add(Contract('uspg_4d<face *>::get_neighborhood', PROP, signature='(const double, const double, const double)', pre=pre_neigh_pos, post=post_neigh_pos,
                     use=[c3d, neigh_ids_callee(sig)], safety={'wrap', 'narrowing'}, name='uspg_4d<face *>::get_neighborhood(position)'))
    reg.add(Contract('uspg_4d<face *>::get_grid_content', PROP, pre=pre_content_body, post=post_content_body, slice_loop=2,
                     safety={'bounds', 'wrap'}, name='uspg_4d<face *>::get_grid_content::<loop body>'))
    reg.add(Contract('uspg_4d<face *>::get_voxel_content', PROP, pre=pre_voxel_content, post=post_voxel_content, safety={'bounds', 'wrap'}, assigns=[]))
    reg.add(Contract('uspg_4d<face *>::place_object', PROP, signature='const double, const double, const double)', pre=pre_place_pos, post=post_place_pos,
                     safety={'bounds', 'wrap', 'narrowing'}, name='uspg_4d<face *>::place_object(object, x, y, z)'))
    lemmas(reg)


# ------------------------------------------------------------------------------------------------ native replay
DRIVER = r'''
#include "uspg_4d.hpp"
#include <cstdio>
#include <cstdlib>
#include <cmath>
// builds the grid for the box/voxel size of the counterexample and for the same box snapped to a whole number of voxels,
// then checks the property on the corners, face centres and a neighbourhood query at the max corner (ASan/UBSan build)
static int probe(double lo[3], double hi[3], double s){
  uspg_4d<int> g(lo[0],lo[1],lo[2], hi[0],hi[1],hi[2], s, 8);
  auto nb = g.get_nb_voxels(); int bad = 0;
  for(int m=0;m<27;m++){
    double p[3]; int k=m; for(int a=0;a<3;a++){ int c=k%3; k/=3; p[a] = c==0?lo[a]:(c==1?0.5*(lo[a]+hi[a]):hi[a]); }
    auto id = g.get_3d_voxel_index(p[0],p[1],p[2]);
    if(!(id[0]<nb[0] && id[1]<nb[1] && id[2]<nb[2])){ printf("FAIL point (%.17g,%.17g,%.17g) of the box maps to voxel (%u,%u,%u), grid has (%u,%u,%u)\n",p[0],p[1],p[2],id[0],id[1],id[2],nb[0],nb[1],nb[2]); bad=1; continue; }
    g.place_object(m, p[0],p[1],p[2]);
    int found=0; for(int x: g.get_voxel_content(id[0],id[1],id[2])) found += (x==m);
    if(found!=1){ printf("FAIL object placed at (%.17g,%.17g,%.17g) not retrievable from its voxel\n",p[0],p[1],p[2]); bad=1; }
    auto nbh = g.get_neighborhood(p[0],p[1],p[2]); int f2=0; for(int x: nbh) f2 += (x==m);
    if(f2<1){ printf("FAIL object at the query point missing from its own neighbourhood\n"); bad=1; }
  }
  int total=0; for(int x: g.get_grid_content()){ (void)x; total++; }
  if(total!=27 && !bad){ printf("FAIL get_grid_content returned %d objects, 27 stored\n", total); bad=1; }
  return bad;
}
int main(int argc, char** argv){
  double lo[3], hi[3]; for(int i=0;i<3;i++){ lo[i]=strtod(argv[1+i],0); hi[i]=strtod(argv[4+i],0); }
  double s = strtod(argv[7],0);
  int bad = probe(lo,hi,s);
  double hi2[3]; for(int i=0;i<3;i++){ double k = std::ceil((hi[i]-lo[i])/s); if(k<1) k=1; hi2[i] = lo[i] + k*s; }
  bad |= probe(lo,hi2,s);
  if(!bad) printf("OK\n");
  return bad;
}
'''


def _box(ins):
    def get(prefix):
        v = [val for k, val in ins.items() if k.split('!')[0] == prefix]
        return float(v[0]) if v else None
    lo = [get('min_' + a) for a in AX]; hi = [get('max_' + a) for a in AX]
    s = [val for k, val in ins.items() if 'voxel_size_' in k]
    if any(x is None for x in lo + hi) or not s: return None
    return lo + hi + [float(s[0])]


def replay(ob, ins, run):
    import native
    b = _box(ins)
    if b is None or not all(l < h for l, h in zip(b[:3], b[3:6])) or b[6] <= 0 or max((h - l) / b[6] for l, h in zip(b[:3], b[3:6])) > 300:
        b = [0., 0., 0., 10., 7., 3., 1.]          # the canonical multiple-of-the-voxel-size box
    code, out = native.run_driver(DRIVER, ['%r' % v for v in b], sanitize=True, timeout=300)
    return {'confirmed': code != 0 and code not in (124, 125), 'exit': code, 'output': out, 'args': b,
            'driver': 'specs/C20.py:DRIVER (real uspg_4d<int> from the current tree, ASan/UBSan build)'}


def replay_recorded(data):
    import native
    b = data.get('native', {}).get('args')
    if not b: return {'confirmed': False, 'output': 'no recorded inputs'}
    code, out = native.run_driver(DRIVER, ['%r' % v for v in b], sanitize=True, timeout=300)
    return {'confirmed': code != 0 and code not in (124, 125), 'output': out}


EXPLANATION = ("Contracts on the real grid classes (template instantiations uspg_4d<face*>, uspg_4d<oriented_point>, uspg_3d<unsigned short>; an "
               "explicit instantiation in the generated unity file makes clang emit every member body from the repository's headers). "
               "update_dimensions: for EVERY point p of the declared box (free variable in the postcondition, faces and corners included) p is "
               "indexable and its (clamped) voxel index is < nb per axis; voxel count = nx*ny*nz computed without wrap; grid empty afterwards. "
               "get_3d_voxel_index / get_voxel_index: index formula, range, no unsigned wrap, no undefined double->unsigned conversion. "
               "place_object (by voxel id and by position): the object's multiplicity in exactly that voxel grows by one, every other voxel and "
               "object unchanged (frame). get_voxel_content returns that voxel's list. get_neighborhood(voxel ids): the loop bounds (state on "
               "entry to the triple loop) cover the +-1 block clipped to the grid, and the loop body (arbitrary iteration) adds the whole content "
               "of voxel (x,y,z) to the result and does not touch the loop variables; get_grid_content: same body contract. Lemmas: flattening "
               "is injective on the grid; |q-p| <= voxel size implies (clamped) voxel indices differ by at most 1 per axis. Composition (for loops "
               "with unit stride visit every integer of [start,end) once; with injectivity each voxel is read exactly once) gives: neighbourhood "
               "returns every object within one voxel size, full-content returns each object exactly once.")
ASSUMPTIONS = ["exact reals: the double computation of (pos-min)/size is treated as real division; delta = 2^-52 exactly",
               "fewer than 2^20 voxels per axis (contract precondition; beyond 2^32 the double->unsigned conversion in the code is itself undefined)",
               "std::forward_list modelled as a multiset of elements (push_front adds one occurrence; std::copy with front_inserter adds the source multiset)",
               "the composition step 'a for loop with unit stride and an unmodified loop variable visits each integer of [start,end) exactly once' is language semantics, stated not machine-checked",
               "the neighbourhood/content contracts are checked on the face* instantiation; uspg_3d and uspg_4d<oriented_point> share update_dimensions/index code (checked) but their list operations on value-type elements are only length-tracked"]
UNVERIFIED = ["uspg_3d<unsigned short>::get_neighborhood / get_grid_content / place_object bodies (optional<T> slots) are not under contract",
              "callers' obligation to pass positions inside the declared box (C06 for the contact grid, poisson sampling and the polarizer for the others)"]
