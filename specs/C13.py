"""C13 - initial surface reconstruction returns a faithful closed mesh or fails cleanly.
Within reach of contracts: the accept / reject logic around the reconstruction, not the reconstruction itself:
  * simulation_initializer::triangulate_surface returns only a cell on which initialize_cell_properties has returned normally in the
    same attempt, and otherwise throws intialization_exception after at most 10 attempts;
  * cell::initialize_cell_properties (integrity check on) returns normally only after generate_edge_set returned, is_manifold answered
    true and check_face_normal_orientation ran - in that order, before areas and volume are computed;
  * the tail of cell::check_face_normal_orientation: the signed volume it computes is the sum of the determinants of the used faces
    and all used faces are flipped exactly when that sum is negative (so the accepted cell is oriented outward)."""
import z3
from spec import Contract, LoopContract, V3
from values import QForall, ObjLV, Ptr, Rec
import C12

PROP = 'C13'
I = z3.IntSort(); R = z3.RealSort(); B = z3.BoolSort()
ANY_STD = ['std::exception']


def lv(C, name, st=None):
    st = st or C.pre_state
    for k, v in st.env.items():
        if C.e.var_names.get(k) == name and not str(k).startswith(('tmp!', 'glob!', 'param', 'rangeidx!')): return v
    raise KeyError(name)


# ---- tail of check_face_normal_orientation ------------------------------------------------------------------------------------------
def faces(view, this):
    return view.sub(this, 'cell.face_lst_')


def orient_pre(C):
    o = C.old
    nf = o.len(faces(o, C.this))
    return [('sum-definition-%d' % i, a) for i, a in enumerate(C12.vol_axioms(C, o))] + \
           [('node-ids-of-every-face-in-range', QForall(lambda k: z3.Implies(z3.And(k >= 0, k < nf), C12.ids_ok(o, C.this, k)), 1, 'face node ids in range'))]


def orient_inv_sum(L):
    S = C12.vol_sum(L.e)
    i = L.index
    n = L.cur.len(L.container.ref)
    return [('index-in-range', z3.And(i >= 0, i <= n)), ('partial-sum', L.var('signed_volume') == S(i))]


def flipped(c, o, f):
    return z3.And(c.f(f, 'face.n1_id_') == o.f(f, 'face.n1_id_'), c.f(f, 'face.n2_id_') == o.f(f, 'face.n3_id_'), c.f(f, 'face.n3_id_') == o.f(f, 'face.n2_id_'))


def same(c, o, f):
    return z3.And(*[c.f(f, 'face.n%d_id_' % j) == o.f(f, 'face.n%d_id_' % j) for j in (1, 2, 3)])


def orient_inv_flip(L):
    o, c = L.entry, L.cur
    i = L.index
    vec = L.container.ref
    n = c.len(vec)
    return [('index-in-range', z3.And(i >= 0, i <= n)),
            ('faces-before-the-index-are-flipped-if-used', QForall(lambda k: z3.Implies(z3.And(k >= 0, k < i), z3.If(o.f(o.elem(vec, k), 'face.is_used_'), flipped(c, o, c.elem(vec, k)), same(c, o, c.elem(vec, k)))), 1, 'flipped prefix')),
            ('faces-from-the-index-on-are-untouched', QForall(lambda k: z3.Implies(k >= i, same(c, o, c.elem(vec, k))), 1, 'untouched suffix'))]


def orient_post(C):
    if C.outcome not in ('ret', 'end', None): return []
    o, n = C.old, C.new
    S = C12.vol_sum(C.e)
    fl = faces(o, C.this)
    nf = o.len(fl)
    tot = S(nf)
    return [('cover:inside-out-input', tot < 0), ('cover:outward-input', tot > 0),
            ('inside-out-surface-has-every-used-face-flipped', QForall(lambda k: z3.Implies(z3.And(tot < 0, k >= 0, k < nf),
                                                                                            z3.If(o.f(o.elem(fl, k), 'face.is_used_'), flipped(n, o, o.elem(fl, k)), same(n, o, o.elem(fl, k)))), 1, 'flip')),
            ('outward-surface-is-left-as-it-is', QForall(lambda k: z3.Implies(z3.And(tot >= 0, k >= 0, k < nf), same(n, o, o.elem(fl, k))), 1, 'no flip'))]


def orient_lemmas(reg):
    a, b, c = V3.fresh('oa'), V3.fresh('ob'), V3.fresh('oc')
    reg.lemma('swapping-two-nodes-negates-the-determinant', PROP, [], a.dot(c.cross(b)) == -a.dot(b.cross(c)),
              note='flipping every used face negates the signed-volume sum: after the tail of check_face_normal_orientation the sum is >= 0 (outward orientation)',
              inputs=a.comps() + b.comps() + c.comps())


# ---- initialize_cell_properties: the gate ---------------------------------------------------------------------------------------------
def note_call(tag, ret=None):
    def rm(C, st):
        st.ghost['calls'] = st.ghost.get('calls', ()) + (tag,)
        if ret is not None: return ret(C, st)
        return None
    return rm


def stage(qn, tag, throws=ANY_STD, ret=None, frame=None):
    return Contract(qn, PROP, assumed=True, throws=throws, frame=frame or (lambda C: [('*', None)]), ret_model=note_call(tag, ret),
                    name=qn + ' (stage: returns or throws)')


def manifold_ret(C, st):
    r = C.e.fresh('is_manifold_result', B)
    st.ghost['manifold_answer'] = r
    return r


def real_ret(name):
    return lambda C, st: C.e.fresh(name, R)


def gate_callees():
    return [stage('cell::set_local_ids', 'set_local_ids', throws=[]), stage('cell::remove_unused_nodes', 'remove_unused_nodes', throws=[]),
            stage('cell::set_face_owner_cell', 'set_face_owner_cell', throws=[]),
            stage('cell::generate_edge_set', 'generate_edge_set'),
            stage('cell::is_manifold', 'is_manifold', throws=[], ret=manifold_ret, frame=lambda C: []),
            stage('cell::check_face_normal_orientation', 'check_face_normal_orientation', throws=[]),
            stage('cell::update_all_face_normals_and_areas', 'update_all_face_normals_and_areas', throws=[]),
            stage('cell::compute_area', 'compute_area', throws=[], ret=real_ret('area'), frame=lambda C: []),
            stage('cell::compute_volume', 'compute_volume', throws=[], ret=real_ret('volume'), frame=lambda C: []),
            stage('cell::initialize_random_properties', 'initialize_random_properties', throws=[])]


def gate_post(C):
    g = C.post_state.ghost
    calls = g.get('calls', ())
    chk = C.val('check_cell_integrity')
    if C.outcome != 'ret':
        return [('only-standard-exceptions-escape', z3.BoolVal(C.outcome.startswith('throw:') and C.e.models.exception_derives(C.outcome[6:], 'std::exception')))]
    def before(a, b):
        return a in calls and b in calls and calls.index(a) < calls.index(b)
    ok_order = before('generate_edge_set', 'is_manifold') and before('is_manifold', 'check_face_normal_orientation') and \
        before('check_face_normal_orientation', 'update_all_face_normals_and_areas') and before('update_all_face_normals_and_areas', 'compute_area') and \
        before('update_all_face_normals_and_areas', 'compute_volume')
    ans = g.get('manifold_answer')
    out = [('with-the-integrity-check-on-a-normal-return-went-through-edge-set-manifold-test-and-orientation-in-this-order', z3.Implies(chk, z3.BoolVal(ok_order)))]
    if ans is not None:
        out.append(('normal-return-only-if-the-manifold-test-said-yes', z3.Implies(chk, ans)))
    else:
        out.append(('normal-return-only-if-the-manifold-test-said-yes', z3.Not(chk)))
    return out


# ---- simulation_initializer::triangulate_surface: attempts and the final answer ---------------------------------------------------------
def validated_ret(C, st):
    st.ghost['validated'] = C.this.ref if hasattr(C.this, 'ref') else C.this
    st.ghost['attempt_of_validation'] = st.ghost.get('attempt_marker')
    return None


def fresh_mesh(C, st):
    import ty
    return ObjLV(C.e.new_object(), ty.parse('mesh'))


def tri_callees():
    cs = [Contract('initial_triangulation::triangulate_surface', PROP, assumed=True, throws=ANY_STD, frame=lambda C: [('*', None)], ret_model=fresh_mesh,
                   name='initial_triangulation::triangulate_surface (returns some mesh or throws)'),
          Contract('cell::initialize_cell_properties', PROP, assumed=True, throws=ANY_STD, frame=lambda C: [('*', None)], ret_model=validated_ret,
                   name='cell::initialize_cell_properties (own contract above: normal return = validated)')]
    for cls in ('epithelial_cell', 'ecm_cell', 'lumen_cell', 'nucleus_cell', 'static_cell'):
        cs.append(Contract('%s::%s' % (cls, cls), PROP, assumed=True, throws=ANY_STD, frame=lambda C: [('*', None)], signature='const mesh &',
                           name='%s constructor from a mesh (returns or throws)' % cls))
    return cs


def tri_inv(L):
    i = L.var('i')
    return [('attempt-counter-in-range', z3.And(i >= 0, i <= 9))]


def tri_pre(C):
    return [('cell-type-non-null', C.arg('cell_type').ref > 0)]


def tri_post(C):
    g = C.post_state.ghost
    if C.outcome != 'ret':
        return [('failure-is-reported-as-initialisation-exception', z3.BoolVal(C.outcome == 'throw:intialization_exception'))]
    if 'validated' not in g:
        return [('returned-cell-is-one-whose-validation-returned-normally', z3.BoolVal(False))]
    return [('returned-cell-is-one-whose-validation-returned-normally', z3.And(C.ret.ref == g['validated'], C.ret.ref != 0))]


def build(reg):
    fn = 'cell::check_face_normal_orientation'
    reg.default_havoc = {fn, 'simulation_initializer::triangulate_surface'}
    reg.add_loop(LoopContract(fn, 1, orient_inv_sum, modifies=[]))
    reg.add_loop(LoopContract(fn, 2, orient_inv_flip, modifies=['face.n2_id_', 'face.n3_id_']))
    reg.add(Contract(fn, PROP, pre=orient_pre, post=orient_post, suffix_loop=1, safety={'bounds'}, name=fn + '::<signed volume and flip>'))
    orient_lemmas(reg)
    reg.add(Contract('cell::initialize_cell_properties', PROP, post=gate_post, use=gate_callees(), name='cell::initialize_cell_properties(gate)'))
    fn2 = 'simulation_initializer::triangulate_surface'
    reg.add_loop(LoopContract(fn2, 0, tri_inv, modifies=['*']))
    reg.add(Contract(fn2, PROP, pre=tri_pre, post=tri_post, use=tri_callees(), safety={'null-deref'}, name=fn2 + '(attempts)'))


EXPLANATION = ""
ASSUMPTIONS = []
UNVERIFIED = []
