"""C13 - initial surface reconstruction returns a faithful closed mesh or fails cleanly.
Within reach of contracts: the accept / reject logic around the reconstruction, not the reconstruction itself:
  * simulation_initializer::triangulate_surface returns only a cell on which initialize_cell_properties has returned normally in the
    same attempt, and otherwise throws intialization_exception after at most 10 attempts;
  * cell::initialize_cell_properties (integrity check on) returns normally only after generate_edge_set returned, is_manifold answered
    true and check_face_normal_orientation ran - in that order, before areas and volume are computed;
  * the tail of cell::check_face_normal_orientation: the signed volume it computes is the sum of the determinants of the used faces
    and all used faces are flipped exactly when that sum is negative (so the accepted cell is oriented outward)."""
import z3
from spec import Contract, LoopContract, V3
from values import QForall, ObjLV, Ptr, Rec
import C12

PROP = 'C13'
I = z3.IntSort(); R = z3.RealSort(); B = z3.BoolSort()
ANY_STD = ['std::exception']


def lv(C, name, st=None):
    st = st or C.pre_state
    for k, v in st.env.items():
        if C.e.var_names.get(k) == name and not str(k).startswith(('tmp!', 'glob!', 'param', 'rangeidx!')): return v
    raise KeyError(name)


# ---- tail of check_face_normal_orientation ------------------------------------------------------------------------------------------
def faces(view, this):
    return view.sub(this, 'cell.face_lst_')


def orient_pre(C):
    o = C.old
    nf = o.len(faces(o, C.this))
    return [('sum-definition-%d' % i, a) for i, a in enumerate(C12.vol_axioms(C, o))] + \
           [('node-ids-of-every-face-in-range', QForall(lambda k: z3.Implies(z3.And(k >= 0, k < nf), C12.ids_ok(o, C.this, k)), 1, 'face node ids in range'))]


def orient_inv_sum(L):
    S = C12.vol_sum(L.e)
    i = L.index
    n = L.cur.len(L.container.ref)
    return [('index-in-range', z3.And(i >= 0, i <= n)), ('partial-sum', L.var('signed_volume') == S(i))]


def flipped(c, o, f):
    return z3.And(c.f(f, 'face.n1_id_') == o.f(f, 'face.n1_id_'), c.f(f, 'face.n2_id_') == o.f(f, 'face.n3_id_'), c.f(f, 'face.n3_id_') == o.f(f, 'face.n2_id_'))


def same(c, o, f):
    return z3.And(*[c.f(f, 'face.n%d_id_' % j) == o.f(f, 'face.n%d_id_' % j) for j in (1, 2, 3)])


def orient_inv_flip(L):
    o, c = L.entry, L.cur
    i = L.index
    vec = L.container.ref
    n = c.len(vec)
    return [('index-in-range', z3.And(i >= 0, i <= n)),
            ('faces-before-the-index-are-flipped-if-used', QForall(lambda k: z3.Implies(z3.And(k >= 0, k < i), z3.If(o.f(o.elem(vec, k), 'face.is_used_'), flipped(c, o, c.elem(vec, k)), same(c, o, c.elem(vec, k)))), 1, 'flipped prefix')),
            ('faces-from-the-index-on-are-untouched', QForall(lambda k: z3.Implies(k >= i, same(c, o, c.elem(vec, k))), 1, 'untouched suffix'))]


def orient_post(C):
    if C.outcome not in ('ret', 'end', None): return []
    o, n = C.old, C.new
    S = C12.vol_sum(C.e)
    fl = faces(o, C.this)
    nf = o.len(fl)
    tot = S(nf)
    return [('cover:inside-out-input', tot < 0), ('cover:outward-input', tot > 0),
            ('inside-out-surface-has-every-used-face-flipped', QForall(lambda k: z3.Implies(z3.And(tot < 0, k >= 0, k < nf),
                                                                                            z3.If(o.f(o.elem(fl, k), 'face.is_used_'), flipped(n, o, o.elem(fl, k)), same(n, o, o.elem(fl, k)))), 1, 'flip')),
            ('outward-surface-is-left-as-it-is', QForall(lambda k: z3.Implies(z3.And(tot >= 0, k >= 0, k < nf), same(n, o, o.elem(fl, k))), 1, 'no flip'))]


def volume_as_in_C12():
    """cell::compute_volume as C12 proves it: a sixth of the absolute value of the determinant sum (not called by the current code of
    check_face_normal_orientation; listed so that a version that does call it is judged against what the function really returns)"""
    def post(C):
        o = C.old
        S = C12.vol_sum(C.e)
        tot = S(o.len(faces(o, C.this)))
        return [('a-sixth-of-the-absolute-sum', C.ret == z3.If(tot >= 0, tot, -tot) / 6)]
    return Contract('cell::compute_volume', PROP, post=post, frame=lambda C: [], assumed=True, name='cell::compute_volume (contract proved in C12)')


def orient_lemmas(reg):
    a, b, c = V3.fresh('oa'), V3.fresh('ob'), V3.fresh('oc')
    reg.lemma('swapping-two-nodes-negates-the-determinant', PROP, [], a.dot(c.cross(b)) == -a.dot(b.cross(c)),
              note='flipping every used face negates the signed-volume sum: after the tail of check_face_normal_orientation the sum is >= 0 (outward orientation)',
              inputs=a.comps() + b.comps() + c.comps())


# ---- initialize_cell_properties: the gate ---------------------------------------------------------------------------------------------
def note_call(tag, ret=None):
    def rm(C, st):
        # ghost clock: the time of the (last) normal return of each stage; 0 = never returned
        clk = st.ghost.get('clock', z3.IntVal(0)) + 1
        st.ghost['clock'] = clk
        st.ghost['at:' + tag] = clk
        if ret is not None: return ret(C, st)
        return None
    return rm


STAGES = ['set_local_ids', 'remove_unused_nodes', 'set_face_owner_cell', 'generate_edge_set', 'is_manifold', 'check_face_normal_orientation',
          'update_all_face_normals_and_areas', 'compute_area', 'compute_volume', 'initialize_random_properties']


def gate_setup(eng, st, args, this):
    st.ghost['clock'] = z3.IntVal(0)
    for t in STAGES: st.ghost['at:' + t] = z3.IntVal(0)
    st.ghost['manifold_answer'] = z3.BoolVal(False)


def stage(qn, tag, throws=ANY_STD, ret=None, frame=None):
    return Contract(qn, PROP, assumed=True, throws=throws, frame=frame or (lambda C: [('*', None)]), ret_model=note_call(tag, ret),
                    name=qn + ' (stage: returns or throws)')


def manifold_ret(C, st):
    r = C.e.fresh('is_manifold_result', B)
    st.ghost['manifold_answer'] = r
    return r


def real_ret(name):
    return lambda C, st: C.e.fresh(name, R)


def gate_callees():
    return [stage('cell::set_local_ids', 'set_local_ids', throws=[]), stage('cell::remove_unused_nodes', 'remove_unused_nodes', throws=[]),
            stage('cell::set_face_owner_cell', 'set_face_owner_cell', throws=[]),
            stage('cell::generate_edge_set', 'generate_edge_set'),
            stage('cell::is_manifold', 'is_manifold', throws=[], ret=manifold_ret, frame=lambda C: []),
            stage('cell::check_face_normal_orientation', 'check_face_normal_orientation', throws=[]),
            stage('cell::update_all_face_normals_and_areas', 'update_all_face_normals_and_areas', throws=[]),
            stage('cell::compute_area', 'compute_area', throws=[], ret=real_ret('area'), frame=lambda C: []),
            stage('cell::compute_volume', 'compute_volume', throws=[], ret=real_ret('volume'), frame=lambda C: []),
            stage('cell::initialize_random_properties', 'initialize_random_properties', throws=[])]


def gate_post(C):
    g = C.post_state.ghost
    chk = C.val('check_cell_integrity')
    at = lambda t: g['at:' + t]
    if C.outcome != 'ret':
        return [('only-standard-exceptions-escape', z3.BoolVal(C.outcome.startswith('throw:') and C.e.models.exception_derives(C.outcome[6:], 'std::exception')))]
    def before(a, b):
        return z3.And(at(a) >= 1, at(a) < at(b))
    ok_order = z3.And(before('generate_edge_set', 'is_manifold'), before('is_manifold', 'check_face_normal_orientation'),
                      before('check_face_normal_orientation', 'update_all_face_normals_and_areas'), before('update_all_face_normals_and_areas', 'compute_area'),
                      before('update_all_face_normals_and_areas', 'compute_volume'))
    return [('cover:integrity-check-on', chk), ('cover:integrity-check-off', z3.Not(chk)),
            ('with-the-integrity-check-on-a-normal-return-went-through-edge-set-manifold-test-and-orientation-in-this-order', z3.Implies(chk, ok_order)),
            ('normal-return-only-if-the-manifold-test-said-yes', z3.Implies(chk, g['manifold_answer'])),
            ('areas-and-volume-are-computed-after-the-faces-were-refreshed', z3.And(before('update_all_face_normals_and_areas', 'compute_area'), before('update_all_face_normals_and_areas', 'compute_volume')))]


# ---- simulation_initializer::triangulate_surface: attempts and the final answer ---------------------------------------------------------
def validated_ret(C, st):
    st.ghost['validated'] = C.this.ref if hasattr(C.this, 'ref') else C.this
    st.ghost['attempt_of_validation'] = st.ghost.get('attempt_marker')
    return None


def fresh_mesh(C, st):
    import ty
    return ObjLV(C.e.new_object(), ty.parse('mesh'))


def tri_callees():
    cs = [Contract('initial_triangulation::triangulate_surface', PROP, assumed=True, throws=ANY_STD, frame=lambda C: [('*', None)], ret_model=fresh_mesh,
                   name='initial_triangulation::triangulate_surface (returns some mesh or throws)'),
          Contract('cell::initialize_cell_properties', PROP, assumed=True, throws=ANY_STD, frame=lambda C: [('*', None)], ret_model=validated_ret,
                   name='cell::initialize_cell_properties (own contract above: normal return = validated)')]
    for cls in ('epithelial_cell', 'ecm_cell', 'lumen_cell', 'nucleus_cell', 'static_cell'):
        cs.append(Contract('%s::%s' % (cls, cls), PROP, assumed=True, throws=ANY_STD, frame=lambda C: [('*', None)], signature='const mesh &',
                           name='%s constructor from a mesh (returns or throws)' % cls))
    return cs


def tri_inv(L):
    i = L.var('i')
    return [('attempt-counter-in-range', z3.And(i >= 0, i <= 9))]


def tri_pre(C):
    return [('cell-type-non-null', C.arg('cell_type').ref > 0)]


def tri_post(C):
    g = C.post_state.ghost
    if C.outcome != 'ret':
        return [('failure-is-reported-as-initialisation-exception', z3.BoolVal(C.outcome == 'throw:intialization_exception'))]
    if 'validated' not in g:
        return [('returned-cell-is-one-whose-validation-returned-normally', z3.BoolVal(False))]
    return [('returned-cell-is-one-whose-validation-returned-normally', z3.And(C.ret.ref == g['validated'], C.ret.ref != 0))]


def build(reg):
    fn = 'cell::check_face_normal_orientation'
    reg.default_havoc = '*'
    reg.add_loop(LoopContract(fn, 1, orient_inv_sum, modifies=[]))
    reg.add_loop(LoopContract(fn, 2, orient_inv_flip, modifies=['face.n2_id_', 'face.n3_id_']))
    reg.add(Contract(fn, PROP, pre=orient_pre, post=orient_post, suffix_loop=1, suffix_back=1, safety={'bounds'}, use=[volume_as_in_C12()], name=fn + '::<signed volume and flip>'))
    orient_lemmas(reg)
    import meshops as M
    reg.add(M.is_manifold_contract(PROP))
    reg.add(Contract('cell::initialize_cell_properties', PROP, post=gate_post, use=gate_callees(), setup=gate_setup, name='cell::initialize_cell_properties(gate)'))
    fn2 = 'simulation_initializer::triangulate_surface'
    reg.add_loop(LoopContract(fn2, 0, tri_inv, modifies=['*'], keep_names=['cell_type', 'cell_id']))
    reg.add(Contract(fn2, PROP, pre=tri_pre, post=tri_post, use=tri_callees(), safety={'null-deref'}, name=fn2 + '(attempts)'))


# ------------------------------------------------------------------------------------------------ native replay
DRIVER = r'''
#include "simulation_initializer.hpp"
#include "epithelial_cell.hpp"
#include <cstdio>
#include <cstring>
#include <fstream>
#include <unistd.h>
// mode "open": start-up on a file whose only cell is an open surface (a tetrahedron without its fourth face), initial triangulation off:
//   must be refused with an exception; if start-up completes, every returned cell must be a closed manifold.
// mode "inside-out": a tetrahedron given with inward winding goes through cell::initialize_cell_properties(true): afterwards the sum of the
//   determinants of its faces must be positive (outward orientation).
static double signed_sum(const cell_ptr& c){
  double s = 0; for(const face& f: c->get_face_lst()){ if(!f.is_used()) continue; auto [a,b,d] = f.get_node_ids();
    const vec3& p = c->get_node_lst()[a].pos(); const vec3& q = c->get_node_lst()[b].pos(); const vec3& r = c->get_node_lst()[d].pos(); s += p.dot(q.cross(r)); }
  return s;
}
int main(int argc, char** argv){
  auto ct = std::make_shared<cell_type_parameters>(); ct->name_ = "epithelial"; ct->global_type_id_ = 0;
  face_type_parameters ft; ft.name_ = "apical"; ft.face_type_global_id_ = 0; ct->face_types_.push_back(ft);
  if(!strcmp(argv[1], "open")){
    char path[] = "/tmp/verif_c13_XXXXXX"; int fd = mkstemp(path); if(fd < 0) return 125; close(fd);
    { std::ofstream f(path); f << "# vtk DataFile Version 4.2\nvtk output\nASCII\nDATASET UNSTRUCTURED_GRID\nPOINTS 4 float\n0 0 0 1 0 0 0 1 0 \n0 0 1 \n\nCELLS 1 14\n"
        "13 3 3 0 2 1 3 0 1 3 3 0 3 2 \nCELL_TYPES 1\n42\n\nCELL_DATA 1\nFIELD FieldData 1\ncell_type_id 1 1 int\n0\n"; }
    global_simulation_parameters sp; sp.input_mesh_path_ = path; sp.output_folder_path_ = "/tmp"; sp.perform_initial_triangulation_ = false;
    sp.damping_coefficient_ = 1; sp.simulation_duration_ = 1; sp.sampling_period_ = 1; sp.time_step_ = 1; sp.min_edge_len_ = 0.2; sp.contact_cutoff_adhesion_ = 0.01; sp.contact_cutoff_repulsion_ = 0.01;
    std::vector<cell_type_param_ptr> lst{ct};
    int rc = 0;
    try{ simulation_initializer init(sp, lst, false);
      for(auto& c: init.get_cell_lst()){ if(c == nullptr || !c->is_manifold()){ printf("FAIL start-up handed an open / non-manifold cell to the solver\n"); rc = 1; } }
      if(!rc) printf("OK completed with closed cells\n"); }
    catch(const std::exception& e){ printf("OK rejected: %s\n", e.what()); }
    unlink(path); return rc;
  }
  std::vector<double> pos{0,0,0, 1,0,0, 0,1,0, 0,0,1};
  std::vector<unsigned> faces{0,1,2, 0,3,1, 0,2,3, 1,3,2};      // inward winding
  auto c = std::make_shared<epithelial_cell>(pos, faces, 0, ct);
  try{ c->initialize_cell_properties(true); }catch(const std::exception& e){ printf("OK rejected: %s\n", e.what()); return 0; }
  double s = signed_sum(c);
  if(!(s > 0)){ printf("FAIL accepted cell is inside out: determinant sum %.17g\n", s); return 1; }
  printf("OK outward: determinant sum %.17g\n", s); return 0;
}
'''

_CACHE = {}


def replay(ob, ins, run):
    import native
    mode = 'inside-out' if 'check_face_normal_orientation' in (ob.info.get('contract', '') + (ob.info.get('fn') or '')) else 'open'
    if mode not in _CACHE: _CACHE[mode] = native.run_driver(DRIVER, [mode], sanitize=False, timeout=600)
    code, out = _CACHE[mode]
    return {'confirmed': code not in (0, 124, 125), 'exit': code, 'args': [mode], 'output': out[-2500:],
            'driver': 'specs/C13.py:DRIVER (real simulation_initializer on a generated open tetrahedron / real initialize_cell_properties on an inward-wound tetrahedron)'}


def replay_recorded(data):
    import native
    args = data.get('native', {}).get('args') or ['open']
    code, out = native.run_driver(DRIVER, args, sanitize=False, timeout=600)
    return {'confirmed': code not in (0, 124, 125), 'output': out}


EXPLANATION = ("The accept / reject logic around the surface reconstruction. (1) simulation_initializer::triangulate_surface, loop by contract "
               "(attempt counter 0..9), every stage (reconstruction, cell constructors of the five cell classes, validation) may throw any "
               "std::exception: the function returns only a non-null cell on which cell::initialize_cell_properties returned normally, and every "
               "other exit is intialization_exception. (2) cell::initialize_cell_properties with ghost clock over its stages: with the integrity "
               "check on, a normal return went through generate_edge_set, is_manifold (which answered true) and check_face_normal_orientation in "
               "this order, and areas / volume are computed after the face caches were refreshed; only std::exception classes escape. (3) Tail of "
               "check_face_normal_orientation (suffix contract from the signed-volume loop, both loops by contract, partial-sum ghost function as "
               "in C12): the sign test is made on the sum of the determinants of the used faces and every used face has its second and third "
               "node exchanged exactly when that sum is negative; lemma: the exchange negates the determinant, so the accepted cell has a "
               "non-negative sum (outward). Reachability covers for inside-out and outward inputs and for both values of the integrity switch.")
ASSUMPTIONS = ["stages of the pipeline as callees: return or throw a class derived from std::exception (C17 static fact); is_manifold / compute_area / compute_volume side-effect free",
               "cell::is_manifold means 'every edge has two faces and V-E+F=2' (its body iterates a std::set<edge>, not under contract here)",
               "the breadth-first part of check_face_normal_orientation (consistent winding across neighbours) is not under contract: the tail is proved from an arbitrary state",
               "exact reals"]
UNVERIFIED = ["the reconstruction itself: initial_triangulation::triangulate_surface, Poisson disk sampling (spacing >= l_min), ball pivoting, hole filling, Delaunay: closedness and faithfulness of the produced mesh (volume, bounding box, node-to-surface distance) are numerical / randomised properties no contract here reaches",
              "generate_edge_set and is_manifold bodies (std::set<edge>), check_face_winding_order and the traversal that makes the winding consistent"]
