"""C18 - every XML parameter reaches the simulation with its value and meaning intact.
Contracts on parameter_reader over a facade of tinyxml2 (the document is three uninterpreted functions) and of the string
conversions (std::stod / std::stoi are uninterpreted functions of the text that may throw).
The tag -> field table below is written from doc/parameter_file_doc.md and the comments of include/custom_structures.hpp,
not from the reader."""
import z3
from spec import Contract, V3, LoopContract
from values import QForall, ObjLV, Ptr

PROP = 'C18'
# the reader is compiled in every contact-model configuration: a tag must not be read in one configuration only
CONFIGS = [{'SIMUCELL3D_VERIF_CONTACT_MODEL_INDEX': 1}, {'SIMUCELL3D_VERIF_CONTACT_MODEL_INDEX': 0}, {'SIMUCELL3D_VERIF_CONTACT_MODEL_INDEX': 2},
           {'SIMUCELL3D_VERIF_CONTACT_MODEL_INDEX': 1, 'SIMUCELL3D_VERIF_DYNAMIC_MODEL_INDEX': 1}]
I = z3.IntSort(); R = z3.RealSort(); B = z3.BoolSort()

# tag, field of the structure, conversion, admissible values (None = any)
NUMERICAL = [
    ('input_mesh_file_path', 'input_mesh_path_', 'str', None),
    ('output_mesh_folder_path', 'output_folder_path_', 'str', None),
    ('damping_coefficient', 'damping_coefficient_', 'real', '>0'),
    ('perform_initial_triangulation', 'perform_initial_triangulation_', 'bool', None),
    ('simulation_duration', 'simulation_duration_', 'real', '>0'),
    ('time_step', 'time_step_', 'real', '>0'),
    ('sampling_period', 'sampling_period_', 'real', '>0'),
    ('min_edge_length', 'min_edge_len_', 'real', '>0'),
    ('contact_cutoff_adhesion', 'contact_cutoff_adhesion_', 'real', '>0'),
    ('contact_cutoff_repulsion', 'contact_cutoff_repulsion_', 'real', '>0'),
    ('enable_edge_swap_operation', 'enable_edge_swap_operation_', 'bool', None),
]
CELL_TYPE = [
    ('cell_type_name', 'name_', 'str', None),
    ('global_cell_id', 'global_type_id_', 'int', None),
    ('cell_mass_density', 'mass_density_', 'real', None),
    ('cell_bulk_modulus', 'bulk_modulus_', 'real', None),
    ('max_inner_pressure', 'max_pressure_', 'real-or-inf', None),
    ('area_elasticity_modulus', 'area_elasticity_modulus_', 'real', None),
    ('avg_division_volume', 'avg_division_vol_', 'real-or-inf', None),
    ('std_division_volume', 'std_division_vol_', 'real', None),
    ('avg_growth_rate', 'avg_growth_rate_', 'real', None),
    ('std_growth_rate', 'std_growth_rate_', 'real', None),
    ('target_isoperimetric_ratio', 'target_isoperimetric_ratio_', 'real', '>0'),
    ('angle_regularization_factor', 'angle_regularization_factor_', 'real', None),
    ('min_vol', 'min_vol_', 'real', None),
    ('surface_coupling_max_curvature', 'surface_coupling_max_curvature_', 'real', '>=0'),
]
FACE_TYPE = [
    ('face_type_name', 'name_', 'str', None),
    ('global_face_id', 'face_type_global_id_', 'int', '>=0'),
    ('surface_tension', 'surface_tension_', 'real', '>=0'),
    ('adherence_strength', 'adherence_strength_', 'real', '>=0'),
    ('repulsion_strength', 'repulsion_strength_', 'real', '>=0'),
    ('bending_modulus', 'bending_modulus_', 'real', '>=0'),
]


def xml(e):
    raw = e.uf('xml.text', I, I)
    empty = e.models.str_id('')
    # the text of an element; an element without text has the empty text
    text = lambda el: z3.If(raw(el) == 0, empty, raw(el))
    return (e.uf('xml.first_child', I, I, I), e.uf('xml.next_sibling', I, I, I), text)


def conv(e, kind, text):
    stod = e.uf('conv:stod', I, R); stoi = e.uf('conv:stoi', I, I)
    if kind == 'str': return text
    if kind == 'real': return stod(text)
    if kind == 'int': return stoi(text)
    if kind == 'bool': return stoi(text) != 0
    raise KeyError(kind)


def sid(C, lit):
    return C.e.models.str_id(lit)


def table_post(C, table, cls, section, obj, view):
    """normal return: every tag of the table is present with a text, the field named after it holds its converted value,
    and the documented sign constraint holds"""
    e = C.e
    child, nxt, text = xml(e)
    lower = e.uf('lower', I, I)
    out = []
    for tag, field, kind, constraint in table:
        el = child(section, sid(C, tag))
        key = cls + '.' + field
        val = view.f(obj, key)
        out.append(('tag-present:' + tag, el != 0))
        if kind == 'real-or-inf':
            t = lower(text(el))
            isinf = t == sid(C, 'inf')
            inf = z3.Real('INF')
            # INF in any letter case maps to +infinity; otherwise the number written (read case-insensitively: 1E5 = 1e5)
            out.append(('value:' + tag, val == z3.If(isinf, inf, e.uf('conv:stod', I, R)(t))))
        else:
            out.append(('value:' + tag, val == conv(e, kind, text(el))))
        if constraint == '>0': out.append(('constraint:' + tag, val > 0))
        if constraint == '>=0': out.append(('constraint:' + tag, val >= 0))
    return out


# ---- get_string_value ---------------------------------------------------------------------------------------------------------
def pre_gsv(C):
    return [('element-non-null', C.val('e').ref != 0)]


def post_gsv(C):
    e = C.e
    child, nxt, text = xml(e)
    el = child(C.val('e').ref, C.val('XML_markup'))
    r = C.ret
    lower = e.uf('lower', I, I)
    return [('nullopt-iff-tag-missing', r.f['has'] == (el != 0)),
            ('returns-the-text-of-the-tag', z3.Implies(el != 0, r.f['value'] == z3.If(C.val('to_lower_case'), lower(text(el)), text(el))))]


# ---- read_numerical_parameters ---------------------------------------------------------------------------------------------------
def post_numerical(C):
    e = C.e
    child, nxt, text = xml(e)
    if C.outcome != 'ret':
        return [('only-the-documented-exception-types-escape', z3.BoolVal(C.outcome in ('throw:parameter_reader_exception', 'throw:std::invalid_argument')))]
    doc = C.new.sub(C.this, 'parameter_reader.xml_doc')
    section = child(doc, sid(C, 'numerical_parameters'))
    out = [('section-present', section != 0)] + table_post(C, NUMERICAL, 'global_simulation_parameters', section, C.ret, C.new)
    out.append(('sampling-period-at-least-one-time-step', C.new.f(C.ret, 'global_simulation_parameters.sampling_period_') >= C.new.f(C.ret, 'global_simulation_parameters.time_step_')))
    return out


def post_cell_type(C):
    if C.outcome != 'ret':
        return [('only-the-documented-exception-types-escape', z3.BoolVal(C.outcome in ('throw:parameter_reader_exception', 'throw:std::invalid_argument')))]
    section = C.val('cell_type_section').ref
    return table_post(C, CELL_TYPE, 'cell_type_parameters', section, C.ret.ref, C.new) + \
        [('no-face-type-yet', C.new.len(C.new.sub(C.ret.ref, 'cell_type_parameters.face_types_')) == 0)]


def post_face_type(C):
    if C.outcome != 'ret':
        return [('only-the-documented-exception-types-escape', z3.BoolVal(C.outcome in ('throw:parameter_reader_exception', 'throw:std::invalid_argument')))]
    section = C.val('face_type_section').ref
    return table_post(C, FACE_TYPE, 'face_type_parameters', section, C.ret, C.new)


def pre_section(C):
    name = 'cell_type_section' if 'cell_type_section' in C.args else 'face_type_section'
    return [('section-non-null', C.val(name).ref != 0)]


# ---- order of cell types / face types: body of the two sibling loops of read_biomechanical_parameters ------------------------------
def lv(C, name, st=None):
    st = st or C.pre_state
    for k, v in st.env.items():
        if C.e.var_names.get(k) == name and not str(k).startswith(('tmp!', 'glob!', 'param', 'rangeidx!')): return v
    raise KeyError(name)


def face_loop_post(C):
    o, n = C.old, C.new
    cp = lv(C, 'cell_parameters').ref
    vec = o.sub(cp, 'cell_type_parameters.face_types_')
    sec = lv(C, 'face_type_section').ref
    k = o.len(vec)
    if C.outcome not in (None, 'ret', 'continue', 'end'): return []
    el = n.elem(vec, k)
    out = [('face-type-appended-at-the-end', n.len(vec) == k + 1)]
    child, nxt, text = xml(C.e)
    for tag, field, kind, constraint in FACE_TYPE:
        out.append(('appended-face-type-is-the-one-read-from-this-element:' + tag, n.f(el, 'face_type_parameters.' + field) == conv(C.e, kind, text(child(sec, sid(C, tag))))))
    j = z3.Int('earlier_face_type')
    out.append(('earlier-face-types-keep-their-position', z3.Implies(z3.And(j >= 0, j < k), n.f(n.elem(vec, j), 'face_type_parameters.surface_tension_') == o.f(o.elem(vec, j), 'face_type_parameters.surface_tension_'))))
    return out


def face_loop_pre(C):
    return [('section-non-null', lv(C, 'face_type_section').ref != 0), ('cell-parameters-non-null', lv(C, 'cell_parameters').ref != 0)]


def read_face_contract():
    """read_face_type_parameters as its callers see it (its own contract, proved above)"""
    def post(C):
        return [(nm, g) for (nm, g) in post_face_type(C) if nm.startswith('value:')]
    def rm(C, st):
        import ty
        o = ObjLV(C.e.new_object(), ty.parse('face_type_parameters'))
        return o
    return Contract('parameter_reader::read_face_type_parameters', PROP, pre=pre_section, post=post, frame=lambda C: [], ret_model=rm, name='read_face_type_parameters (own contract)')


def post_order(C):
    """the returned list is the list as it was on leaving the loop over the <cell_type> elements (nothing reorders it afterwards)"""
    if C.outcome != 'ret': return []
    g = C.post_state.ghost
    if 'loop_exit:0' not in g: return [('cell-type-loop-executed', z3.BoolVal(False))]
    ex = g['loop_exit:0'].data
    from spec import View
    xv = View(C.e, ex)
    lst = [v for k, v in ex.env.items() if C.e.var_names.get(k) == 'cell_type_lst'][0].ref
    n = C.new
    k = z3.Int('any_position')
    return [('returned-list-has-the-length-built-by-the-loop', n.len(C.ret) == xv.len(lst)),
            ('returned-list-keeps-the-order-built-by-the-loop', z3.Implies(z3.And(k >= 0, k < xv.len(lst)), n.at(C.ret, k, 'int') == xv.at(lst, k, 'int')))]


def cell_loop_post(C):
    o, n = C.old, C.new
    lst = lv(C, 'cell_type_lst').ref
    k = o.len(lst)
    if C.outcome not in (None, 'ret', 'continue', 'end'): return []
    cp = lv(C, 'cell_parameters', C.post_state).ref
    sec = lv(C, 'cell_type_section').ref
    j = z3.Int('earlier_cell_type')
    child, nxt, text = xml(C.e)
    return [('cell-type-appended-at-the-end', z3.And(n.len(lst) == k + 1, n.at(lst, k, 'int') == cp)),
            ('appended-cell-type-is-the-one-read-from-this-element', n.f(cp, 'cell_type_parameters.mass_density_') == conv(C.e, 'real', text(child(sec, sid(C, 'cell_mass_density'))))),
            ('earlier-cell-types-keep-their-position', z3.Implies(z3.And(j >= 0, j < k), n.at(lst, j, 'int') == o.at(lst, j, 'int')))]


def read_cell_contract():
    def post(C):
        return [(nm, g) for (nm, g) in post_cell_type(C) if nm.startswith('value:cell_mass_density')] + [('fresh-object', C.ret.ref < 0)]
    def rm(C, st):
        return Ptr(C.e.new_object(), 'cell_type_parameters')
    return Contract('parameter_reader::read_cell_type_parameters', PROP, pre=pre_section, post=post, frame=lambda C: [], ret_model=rm, name='read_cell_type_parameters (own contract)')


# ---- X4: the values govern the run they are named after (constructors of the consumers) ---------------------------------------
GSP = 'global_simulation_parameters.'


def post_time_integrator(C):
    n = C.new; sp = C.arg('sim_parameters')
    return [('time-step-is-the-time_step-parameter', n.f(C.this, 'time_integration_scheme.dt_') == n.f(sp, GSP + 'time_step_')),
            ('damping-is-the-damping_coefficient-parameter', n.f(C.this, 'time_integration_scheme.damping_coeff_') == n.f(sp, GSP + 'damping_coefficient_')),
            ('simulated-time-starts-at-zero', n.f(C.this, 'time_integration_scheme.simulation_time_') == 0)]


def post_contact_ctor(C):
    n = C.new; sp = C.arg('sim_parameters')
    ca = n.f(sp, GSP + 'contact_cutoff_adhesion_'); cr = n.f(sp, GSP + 'contact_cutoff_repulsion_')
    CM = 'contact_model_abstract.'
    mx = z3.If(ca > cr, ca, cr)
    return [('adhesion-cutoff', z3.And(n.f(C.this, CM + 'interaction_cutoff_adhesion_') == ca, n.f(C.this, CM + 'interaction_cutoff_square_adhesion_') == ca * ca)),
            ('repulsion-cutoff', z3.And(n.f(C.this, CM + 'interaction_cutoff_repulsion_') == cr, n.f(C.this, CM + 'interaction_cutoff_square_repulsion_') == cr * cr)),
            ('largest-cutoff-squared', n.f(C.this, CM + 'max_interaction_cutoff_square_') == mx * mx),
            ('bounding-box-padding-is-the-largest-cutoff', n.f(C.this, CM + 'aabb_padding_') == mx),
            ('voxel-size-covers-three-edge-lengths-plus-twice-the-padding', n.f(n.sub(C.this, CM + 'grid_'), 'uspg_abstract.voxel_size_') == 3 * n.f(sp, GSP + 'min_edge_len_') + 2 * mx)]


def pre_contact_ctor(C):
    o = C.old; sp = C.arg('sim_parameters')
    return [('cutoffs-positive', z3.And(o.f(sp, GSP + 'contact_cutoff_adhesion_') > 0, o.f(sp, GSP + 'contact_cutoff_repulsion_') > 0))]


def post_lmr_ctor(C):
    n = C.new
    L = 'local_mesh_refiner.'
    return [('edge-length-band', z3.And(n.f(C.this, L + 'l_min_') == C.val('l_min'), n.f(C.this, L + 'l_max_') == C.val('l_max'),
                                        n.f(C.this, L + 'l_min_squared_') == C.val('l_min') * C.val('l_min'), n.f(C.this, L + 'l_max_squared_') == C.val('l_max') * C.val('l_max'))),
            ('edge-swap-switch', n.f(C.this, L + 'enable_edge_swap_operation_') == C.val('enable_edge_swap_operation'))]


def build(reg, cfg=None):
    reg.add(Contract('parameter_reader::get_string_value', PROP, pre=pre_gsv, post=post_gsv, safety={'null-deref'}, assigns=[]))
    reg.add(Contract('parameter_reader::read_numerical_parameters', PROP, post=post_numerical, split_heap_ifs=False))
    # 'narrowing': every integer conversion that can lose the value (std::stoi's int stored in a short id field) must be shown in range
    reg.add(Contract('parameter_reader::read_cell_type_parameters', PROP, pre=pre_section, post=post_cell_type, safety={'narrowing'}))
    reg.add(Contract('parameter_reader::read_face_type_parameters', PROP, pre=pre_section, post=post_face_type, safety={'narrowing'}))
    reg.add(Contract('parameter_reader::read_biomechanical_parameters', PROP, pre=face_loop_pre, post=face_loop_post, slice_loop=1, use=[read_face_contract()],
                     name='parameter_reader::read_biomechanical_parameters::<face type loop body>'))
    reg.add(Contract('time_integration_scheme::time_integration_scheme', PROP, signature='global_simulation_parameters', post=post_time_integrator))
    reg.add(Contract('contact_model_abstract::contact_model_abstract', PROP, signature='global_simulation_parameters', pre=pre_contact_ctor, post=post_contact_ctor))
    reg.add(Contract('local_mesh_refiner::local_mesh_refiner', PROP, signature='(const double, const double, const bool)', post=post_lmr_ctor))
    reg.add_loop(LoopContract('parameter_reader::read_biomechanical_parameters', 0, lambda L: [], modifies=['*']))
    def face_vec(L):
        cp = L.var('cell_parameters').ref
        return [L.cur.sub(cp, 'cell_type_parameters.face_types_')]
    FT = ['face_type_parameters.' + f for (_, f, _, _) in FACE_TYPE]
    reg.add_loop(LoopContract('parameter_reader::read_biomechanical_parameters', 1, lambda L: [], modifies=FT + [('vec.len', face_vec), ('vec.epoch', face_vec)]))
    reg.add(Contract('parameter_reader::read_biomechanical_parameters', PROP, post=post_order, use=[read_cell_contract(), read_face_contract()],
                     name='parameter_reader::read_biomechanical_parameters(order)'))
    reg.add(Contract('parameter_reader::read_biomechanical_parameters', PROP, pre=lambda C: [('section-non-null', lv(C, 'cell_type_section').ref != 0)],
                     post=cell_loop_post, slice_loop=0, use=[read_cell_contract(), read_face_contract()],
                     name='parameter_reader::read_biomechanical_parameters::<cell type loop body>'))


EXPLANATION = ("Contracts on the parameter reader over a facade: the XML document is three uninterpreted functions (first child by tag, next sibling "
               "by tag, text possibly null), strings are identities of their content, std::stod/std::stoi are uninterpreted functions of the text "
               "that may throw. For read_numerical_parameters, read_cell_type_parameters and read_face_type_parameters: on normal return every "
               "tag of the documented table is present, the field named after it (table written from the documentation) holds the converted "
               "text, INF in any case maps to +infinity for max_inner_pressure / avg_division_volume, the documented sign constraints hold, "
               "sampling period >= time step; every exceptional exit is parameter_reader_exception or std::invalid_argument (a missing tag is "
               "therefore an exception); get_string_value never builds a string from a null text and never terminates. Order: an arbitrary "
               "iteration of the <face_type> loop appends the face type read from that element at the end and keeps earlier ones; the same for "
               "<cell_type>; the returned list is exactly the list built by the loop. Wiring: constructors of the time integrator (dt, damping), "
               "the contact model (cut-offs, padding, voxel size) and the mesh refiner (length band, swap switch).")
ASSUMPTIONS = ["tinyxml2 facade: FirstChildElement / NextSiblingElement / GetText behave as functions of (element, tag name); an element without text has a null GetText()",
               "strings are modelled by the identity of their content; lower_string is an uninterpreted function with stod(lower(s)) read as the case-insensitive value",
               "std::stod / std::stoi: uninterpreted functions of the content, throwing std::invalid_argument / std::out_of_range (both derive from std::exception) when not convertible",
               "for-loop over sibling elements visits them in document order (tinyxml2), so per-iteration 'append at the end' gives order preservation"]
UNVERIFIED = ["solver::solver forwarding min_edge_len_ (l_min) and 3*min_edge_len_ (l_max) to the mesh refiner, run()/save_mesh() reading simulation_duration_/sampling_period_ (C19 covers the latter)",
              "tinyxml2 itself and the std::string conversions"]
