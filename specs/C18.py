"""C18 - every XML parameter reaches the simulation with its value and meaning intact.
Contracts on parameter_reader over a facade of tinyxml2 (the document is three uninterpreted functions) and of the string
conversions (std::stod / std::stoi are uninterpreted functions of the text that may throw).
The tag -> field table below is written from doc/parameter_file_doc.md and the comments of include/custom_structures.hpp,
not from the reader."""
import z3
from spec import Contract, V3, LoopContract
from values import QForall, ObjLV, Ptr

PROP = 'C18'
I = z3.IntSort(); R = z3.RealSort(); B = z3.BoolSort()

# tag, field of the structure, conversion, admissible values (None = any)
NUMERICAL = [
    ('input_mesh_file_path', 'input_mesh_path_', 'str', None),
    ('output_mesh_folder_path', 'output_folder_path_', 'str', None),
    ('damping_coefficient', 'damping_coefficient_', 'real', '>0'),
    ('perform_initial_triangulation', 'perform_initial_triangulation_', 'bool', None),
    ('simulation_duration', 'simulation_duration_', 'real', '>0'),
    ('time_step', 'time_step_', 'real', '>0'),
    ('sampling_period', 'sampling_period_', 'real', '>0'),
    ('min_edge_length', 'min_edge_len_', 'real', '>0'),
    ('contact_cutoff_adhesion', 'contact_cutoff_adhesion_', 'real', '>0'),
    ('contact_cutoff_repulsion', 'contact_cutoff_repulsion_', 'real', '>0'),
    ('enable_edge_swap_operation', 'enable_edge_swap_operation_', 'bool', None),
]
CELL_TYPE = [
    ('cell_type_name', 'name_', 'str', None),
    ('global_cell_id', 'global_type_id_', 'int', None),
    ('cell_mass_density', 'mass_density_', 'real', None),
    ('cell_bulk_modulus', 'bulk_modulus_', 'real', None),
    ('max_inner_pressure', 'max_pressure_', 'real-or-inf', None),
    ('area_elasticity_modulus', 'area_elasticity_modulus_', 'real', None),
    ('avg_division_volume', 'avg_division_vol_', 'real-or-inf', None),
    ('std_division_volume', 'std_division_vol_', 'real', None),
    ('avg_growth_rate', 'avg_growth_rate_', 'real', None),
    ('std_growth_rate', 'std_growth_rate_', 'real', None),
    ('target_isoperimetric_ratio', 'target_isoperimetric_ratio_', 'real', '>0'),
    ('angle_regularization_factor', 'angle_regularization_factor_', 'real', None),
    ('min_vol', 'min_vol_', 'real', None),
    ('surface_coupling_max_curvature', 'surface_coupling_max_curvature_', 'real', '>=0'),
]
FACE_TYPE = [
    ('face_type_name', 'name_', 'str', None),
    ('global_face_id', 'face_type_global_id_', 'int', '>=0'),
    ('surface_tension', 'surface_tension_', 'real', '>=0'),
    ('adherence_strength', 'adherence_strength_', 'real', '>=0'),
    ('repulsion_strength', 'repulsion_strength_', 'real', '>=0'),
    ('bending_modulus', 'bending_modulus_', 'real', '>=0'),
]


def xml(e):
    raw = e.uf('xml.text', I, I)
    empty = e.models.str_id('')
    # the text of an element; an element without text has the empty text
    text = lambda el: z3.If(raw(el) == 0, empty, raw(el))
    return (e.uf('xml.first_child', I, I, I), e.uf('xml.next_sibling', I, I, I), text)


def conv(e, kind, text):
    stod = e.uf('conv:stod', I, R); stoi = e.uf('conv:stoi', I, I)
    if kind == 'str': return text
    if kind == 'real': return stod(text)
    if kind == 'int': return stoi(text)
    if kind == 'bool': return stoi(text) != 0
    raise KeyError(kind)


def sid(C, lit):
    return C.e.models.str_id(lit)


def table_post(C, table, cls, section, obj, view):
    """normal return: every tag of the table is present with a text, the field named after it holds its converted value,
    and the documented sign constraint holds"""
    e = C.e
    child, nxt, text = xml(e)
    lower = e.uf('lower', I, I)
    out = []
    for tag, field, kind, constraint in table:
        el = child(section, sid(C, tag))
        key = cls + '.' + field
        val = view.f(obj, key)
        out.append(('tag-present:' + tag, el != 0))
        if kind == 'real-or-inf':
            t = lower(text(el))
            isinf = t == sid(C, 'inf')
            inf = z3.Real('INF')
            # INF in any letter case maps to +infinity; otherwise the number written (read case-insensitively: 1E5 = 1e5)
            out.append(('value:' + tag, val == z3.If(isinf, inf, e.uf('conv:stod', I, R)(t))))
        else:
            out.append(('value:' + tag, val == conv(e, kind, text(el))))
        if constraint == '>0': out.append(('constraint:' + tag, val > 0))
        if constraint == '>=0': out.append(('constraint:' + tag, val >= 0))
    return out


# ---- get_string_value ---------------------------------------------------------------------------------------------------------
def pre_gsv(C):
    return [('element-non-null', C.val('e').ref != 0)]


def post_gsv(C):
    e = C.e
    child, nxt, text = xml(e)
    el = child(C.val('e').ref, C.val('XML_markup'))
    r = C.ret
    lower = e.uf('lower', I, I)
    return [('nullopt-iff-tag-missing', r.f['has'] == (el != 0)),
            ('returns-the-text-of-the-tag', z3.Implies(el != 0, r.f['value'] == z3.If(C.val('to_lower_case'), lower(text(el)), text(el))))]


# ---- read_numerical_parameters ---------------------------------------------------------------------------------------------------
def post_numerical(C):
    e = C.e
    child, nxt, text = xml(e)
    if C.outcome != 'ret':
        return [('only-the-documented-exception-types-escape', z3.BoolVal(C.outcome in ('throw:parameter_reader_exception', 'throw:std::invalid_argument')))]
    doc = C.new.sub(C.this, 'parameter_reader.xml_doc')
    section = child(doc, sid(C, 'numerical_parameters'))
    out = [('section-present', section != 0)] + table_post(C, NUMERICAL, 'global_simulation_parameters', section, C.ret, C.new)
    out.append(('sampling-period-at-least-one-time-step', C.new.f(C.ret, 'global_simulation_parameters.sampling_period_') >= C.new.f(C.ret, 'global_simulation_parameters.time_step_')))
    return out


def post_cell_type(C):
    if C.outcome != 'ret':
        return [('only-the-documented-exception-types-escape', z3.BoolVal(C.outcome in ('throw:parameter_reader_exception', 'throw:std::invalid_argument')))]
    section = C.val('cell_type_section').ref
    return table_post(C, CELL_TYPE, 'cell_type_parameters', section, C.ret.ref, C.new) + \
        [('no-face-type-yet', C.new.len(C.new.sub(C.ret.ref, 'cell_type_parameters.face_types_')) == 0)]


def post_face_type(C):
    if C.outcome != 'ret':
        return [('only-the-documented-exception-types-escape', z3.BoolVal(C.outcome in ('throw:parameter_reader_exception', 'throw:std::invalid_argument')))]
    section = C.val('face_type_section').ref
    return table_post(C, FACE_TYPE, 'face_type_parameters', section, C.ret, C.new)


def pre_section(C):
    name = 'cell_type_section' if 'cell_type_section' in C.args else 'face_type_section'
    return [('section-non-null', C.val(name).ref != 0)]


# ---- order of cell types / face types: body of the two sibling loops of read_biomechanical_parameters ------------------------------
def lv(C, name, st=None):
    st = st or C.pre_state
    for k, v in st.env.items():
        if C.e.var_names.get(k) == name and not str(k).startswith(('tmp!', 'glob!', 'param', 'rangeidx!')): return v
    raise KeyError(name)


def face_loop_post(C):
    o, n = C.old, C.new
    cp = lv(C, 'cell_parameters').ref
    vec = o.sub(cp, 'cell_type_parameters.face_types_')
    sec = lv(C, 'face_type_section').ref
    k = o.len(vec)
    if C.outcome not in (None, 'ret', 'continue', 'end'): return []
    el = n.elem(vec, k)
    out = [('face-type-appended-at-the-end', n.len(vec) == k + 1)]
    child, nxt, text = xml(C.e)
    for tag, field, kind, constraint in FACE_TYPE:
        out.append(('appended-face-type-is-the-one-read-from-this-element:' + tag, n.f(el, 'face_type_parameters.' + field) == conv(C.e, kind, text(child(sec, sid(C, tag))))))
    j = z3.Int('earlier_face_type')
    out.append(('earlier-face-types-keep-their-position', z3.Implies(z3.And(j >= 0, j < k), n.f(n.elem(vec, j), 'face_type_parameters.surface_tension_') == o.f(o.elem(vec, j), 'face_type_parameters.surface_tension_'))))
    return out


def face_loop_pre(C):
    return [('section-non-null', lv(C, 'face_type_section').ref != 0), ('cell-parameters-non-null', lv(C, 'cell_parameters').ref != 0)]


def read_face_contract():
    """read_face_type_parameters as its callers see it (its own contract, proved above)"""
    def post(C):
        return [(nm, g) for (nm, g) in post_face_type(C) if nm.startswith('value:')]
    def rm(C, st):
        import ty
        o = ObjLV(C.e.new_object(), ty.parse('face_type_parameters'))
        return o
    return Contract('parameter_reader::read_face_type_parameters', PROP, pre=pre_section, post=post, frame=lambda C: [], ret_model=rm, name='read_face_type_parameters (own contract)')


def build(reg):
    reg.add(Contract('parameter_reader::get_string_value', PROP, pre=pre_gsv, post=post_gsv, safety={'null-deref'}, assigns=[]))
    reg.add(Contract('parameter_reader::read_numerical_parameters', PROP, post=post_numerical, split_heap_ifs=False))
    reg.add(Contract('parameter_reader::read_cell_type_parameters', PROP, pre=pre_section, post=post_cell_type))
    reg.add(Contract('parameter_reader::read_face_type_parameters', PROP, pre=pre_section, post=post_face_type))
    reg.add(Contract('parameter_reader::read_biomechanical_parameters', PROP, pre=face_loop_pre, post=face_loop_post, slice_loop=1, use=[read_face_contract()],
                     name='parameter_reader::read_biomechanical_parameters::<face type loop body>'))
