"""C04 - growth, pressure, division trigger, removal: contracts on the cell-cycle functions."""
import z3
from spec import Contract, V3
from values import Ptr

PROP = 'C04'
R = z3.RealSort()
LOG = z3.Function('log', R, R)


def ctype(C, view):
    return view.f(C.this, 'cell.cell_type_')


# ---- V1: target volume ------------------------------------------------------------------------------------------
def post_target_volume(C):
    o, n = C.old, C.new
    dt = C.val('time_step')
    ct = ctype(C, o)
    vt = o.f(C.this, 'cell.target_volume_') + dt * o.f(C.this, 'cell.growth_rate_')
    vmin = o.f(ct, 'cell_type_parameters.min_vol_')
    return [('target-volume-law', n.f(C.this, 'cell.target_volume_') == z3.If(vt < vmin, vmin, vt)),
            ('never-below-min', n.f(C.this, 'cell.target_volume_') >= vmin)]


# ---- V2: pressure -----------------------------------------------------------------------------------------------
def post_pressure(C):
    o, n = C.old, C.new
    ct = ctype(C, o)
    K = o.f(ct, 'cell_type_parameters.bulk_modulus_'); pmax = o.f(ct, 'cell_type_parameters.max_pressure_')
    p0 = -K * LOG(o.f(C.this, 'cell.volume_') / o.f(C.this, 'cell.target_volume_'))
    return [('pressure-law', n.f(C.this, 'cell.pressure_') == z3.If(p0 > pmax, pmax, p0)),
            ('pressure-capped', n.f(C.this, 'cell.pressure_') <= pmax)]


# ---- V4: division trigger, removal predicate ---------------------------------------------------------------------
def post_ready_epithelial(C):
    o = C.old
    return [('ready-iff-volume-reached', C.ret == (o.f(C.this, 'cell.volume_') >= o.f(C.this, 'cell.division_volume_')))]


def post_never_ready(C):
    return [('never-ready', C.ret == z3.BoolVal(False))]


def post_below_min(C):
    o = C.old
    return [('below-min-iff', C.ret == (o.f(C.this, 'cell.volume_') < o.f(ctype(C, o), 'cell_type_parameters.min_vol_')))]


# ---- V5: random properties within mean +/- 3 sigma ---------------------------------------------------------------
def pre_random(C):
    o = C.old
    ct = ctype(C, o)
    return [('sigma-nonneg', z3.And(o.f(ct, 'cell_type_parameters.std_growth_rate_') >= 0, o.f(ct, 'cell_type_parameters.std_division_vol_') >= 0))]


def post_random(C):
    o, n = C.old, C.new
    ct = ctype(C, o)
    out = []
    for nm, field, avg, sd in (('growth-rate', 'cell.growth_rate_', 'avg_growth_rate_', 'std_growth_rate_'),
                               ('division-volume', 'cell.division_volume_', 'avg_division_vol_', 'std_division_vol_')):
        a = o.f(ct, 'cell_type_parameters.' + avg); s = o.f(ct, 'cell_type_parameters.' + sd)
        v = n.f(C.this, field)
        out.append((nm + '-within-3-sigma', z3.And(v >= a - 3 * s, v <= a + 3 * s)))
        out.append((nm + '-is-mean-when-sigma-zero', z3.Implies(s == 0, v == a)))
    return out


# ---- clear_data --------------------------------------------------------------------------------------------------
def post_clear(C):
    n = C.new
    return [('cleared', z3.And(n.f(C.this, 'cell.volume_') == 0, n.f(C.this, 'cell.target_volume_') == 0, n.f(C.this, 'cell.area_') == 0,
                               n.len(n.sub(C.this, 'cell.node_lst_')) == 0, n.len(n.sub(C.this, 'cell.face_lst_')) == 0))]


def build(reg):
    reg.add(Contract('cell::update_target_volume', PROP, post=post_target_volume, assigns=['cell.target_volume_']))
    reg.add(Contract('cell::update_pressure', PROP, post=post_pressure, assigns=['cell.pressure_', 'cell.pressure_energy_']))
    reg.add(Contract('epithelial_cell::is_ready_to_divide', PROP, post=post_ready_epithelial, assigns=[]))
    reg.add(Contract('cell::is_ready_to_divide', PROP, post=post_never_ready, assigns=[]))
    reg.add(Contract('cell::is_below_min_vol', PROP, post=post_below_min, assigns=[]))
    reg.add(Contract('cell::initialize_random_properties', PROP, pre=pre_random, post=post_random, assigns=['cell.growth_rate_', 'cell.division_volume_']))
    reg.add(Contract('cell::clear_data', PROP, post=post_clear))
