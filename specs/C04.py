"""C04 - growth, pressure, division trigger, removal: contracts on the cell-cycle functions."""
import z3
from spec import Contract, V3, LoopContract
from values import Ptr

PROP = 'C04'
R = z3.RealSort()
LOG = z3.Function('libm.log', R, R)


def ctype(C, view):
    return view.f(C.this, 'cell.cell_type_')


# ---- V1: target volume ------------------------------------------------------------------------------------------
def post_target_volume(C):
    o, n = C.old, C.new
    dt = C.val('time_step')
    ct = ctype(C, o)
    vt = o.f(C.this, 'cell.target_volume_') + dt * o.f(C.this, 'cell.growth_rate_')
    vmin = o.f(ct, 'cell_type_parameters.min_vol_')
    return [('target-volume-law', n.f(C.this, 'cell.target_volume_') == z3.If(vt < vmin, vmin, vt)),
            ('never-below-min', n.f(C.this, 'cell.target_volume_') >= vmin)]


# ---- V2: pressure -----------------------------------------------------------------------------------------------
def post_pressure(C):
    o, n = C.old, C.new
    ct = ctype(C, o)
    K = o.f(ct, 'cell_type_parameters.bulk_modulus_'); pmax = o.f(ct, 'cell_type_parameters.max_pressure_')
    p0 = -K * LOG(o.f(C.this, 'cell.volume_') / o.f(C.this, 'cell.target_volume_'))
    return [('pressure-law', n.f(C.this, 'cell.pressure_') == z3.If(p0 > pmax, pmax, p0)),
            ('pressure-capped', n.f(C.this, 'cell.pressure_') <= pmax)]


# ---- V4: division trigger, removal predicate ---------------------------------------------------------------------
def post_ready_epithelial(C):
    o = C.old
    return [('ready-iff-volume-reached', C.ret == (o.f(C.this, 'cell.volume_') >= o.f(C.this, 'cell.division_volume_')))]


def post_never_ready(C):
    return [('never-ready', C.ret == z3.BoolVal(False))]


def post_below_min(C):
    o = C.old
    return [('below-min-iff', C.ret == (o.f(C.this, 'cell.volume_') < o.f(ctype(C, o), 'cell_type_parameters.min_vol_')))]


# ---- V5: random properties within mean +/- 3 sigma ---------------------------------------------------------------
def pre_random(C):
    o = C.old
    ct = ctype(C, o)
    return [('sigma-nonneg', z3.And(o.f(ct, 'cell_type_parameters.std_growth_rate_') >= 0, o.f(ct, 'cell_type_parameters.std_division_vol_') >= 0))]


def post_random(C):
    o, n = C.old, C.new
    ct = ctype(C, o)
    out = []
    for nm, field, avg, sd in (('growth-rate', 'cell.growth_rate_', 'avg_growth_rate_', 'std_growth_rate_'),
                               ('division-volume', 'cell.division_volume_', 'avg_division_vol_', 'std_division_vol_')):
        a = o.f(ct, 'cell_type_parameters.' + avg); s = o.f(ct, 'cell_type_parameters.' + sd)
        v = n.f(C.this, field)
        out.append((nm + '-within-3-sigma', z3.And(v >= a - 3 * s, v <= a + 3 * s)))
        out.append((nm + '-is-mean-when-sigma-zero', z3.Implies(s == 0, v == a)))
    return out


# ---- clear_data --------------------------------------------------------------------------------------------------
def post_clear(C):
    n = C.new
    return [('cleared', z3.And(n.f(C.this, 'cell.volume_') == 0, n.f(C.this, 'cell.target_volume_') == 0, n.f(C.this, 'cell.area_') == 0,
                               n.len(n.sub(C.this, 'cell.node_lst_')) == 0, n.len(n.sub(C.this, 'cell.face_lst_')) == 0))]


# ---- V3: order inside apply_internal_forces ------------------------------------------------------------------------
def havoc_contract(qname, name=None, **kw):
    """callee treated as 'may write anything reachable, returns anything': sound without trusting the callee"""
    return Contract(qname, PROP, frame=lambda C: [('*', None)], name=name or qname, **kw)


def pure_contract(qname, ghost=None):
    def rm(C, st):
        v = C.e.fresh('ret.' + qname.split('::')[-1], R)
        if ghost: st.ghost[ghost] = v
        return v
    return Contract(qname, PROP, frame=lambda C: [], ret_model=rm, assumed=True)


def record_pressure(C, st):
    st.ghost['pressure_at_force_call'] = C.old.f(C.this, 'cell.pressure_')
    st.ghost['force_calls'] = st.ghost.get('force_calls', z3.IntVal(0)) + 1


def post_order(C):
    o = C.old; g = C.post_state.ghost
    ct = ctype(C, o)
    dt = C.val('time_step')
    vt = o.f(C.this, 'cell.target_volume_') + dt * o.f(C.this, 'cell.growth_rate_')
    vmin = o.f(ct, 'cell_type_parameters.min_vol_')
    vt1 = z3.If(vt < vmin, vmin, vt)
    K = o.f(ct, 'cell_type_parameters.bulk_modulus_'); pmax = o.f(ct, 'cell_type_parameters.max_pressure_')
    if 'V_mesh' not in g or 'pressure_at_force_call' not in g:
        return [('volume-then-growth-then-pressure-then-forces', z3.BoolVal(False))]
    p0 = -K * LOG(g['V_mesh'] / vt1)
    return [('volume-then-growth-then-pressure-then-forces', g['pressure_at_force_call'] == z3.If(p0 > pmax, pmax, p0)),
            ('pressure-forces-applied-once', g['force_calls'] == 1)]


# ---- V6: removal of cells below the minimum volume ----------------------------------------------------------------
def pre_lambda(C):
    return [('cell-non-null', C.val('c').ref > 0)]


def post_removal_pred(C):
    o, n = C.old, C.new
    c = C.val('c').ref
    below = o.f(c, 'cell.volume_') < o.f(o.f(c, 'cell.cell_type_'), 'cell_type_parameters.min_vol_')
    return [('removed-iff-below-min', C.ret == below),
            ('removed-cells-are-cleared', z3.Implies(below, z3.And(n.f(c, 'cell.volume_') == 0, n.len(n.sub(c, 'cell.node_lst_')) == 0, n.len(n.sub(c, 'cell.face_lst_')) == 0))),
            ('kept-cells-untouched', z3.Implies(z3.Not(below), z3.And(n.f(c, 'cell.volume_') == o.f(c, 'cell.volume_'), n.f(c, 'cell.target_volume_') == o.f(c, 'cell.target_volume_'),
                                                                   n.len(n.sub(c, 'cell.node_lst_')) == o.len(o.sub(c, 'cell.node_lst_')))))]


def pre_removal_pred(C):
    # the volume of a cell is |signed volume|/6 >= 0 (postcondition of cell::compute_volume, C12)
    o = C.old
    c = C.val('c').ref
    return pre_lambda(C) + [('volume-nonneg', o.f(c, 'cell.volume_') >= 0)]


def mark_integrated(C, st):
    st.ghost['integrated'] = st.ghost.get('integrated', z3.IntVal(0)) + 1
    st.ghost['removals_before_integration'] = st.ghost.get('removal_count', z3.IntVal(0))


def post_iteration(C):
    g = C.post_state.ghost
    n = C.new
    if C.outcome != 'ret': return []
    lst = n.sub(C.this, 'solver.cell_lst_')
    cnt = g.get('removal_count', z3.IntVal(0))
    out = [('removal-runs-once-per-iteration', cnt == 1)]
    if 'removal_len_after' in g:
        out += [('removal-covers-whole-population', z3.And(g['removal_full_range'], g['removal_vec'] == lst)),
                ('removal-is-after-integration', z3.And(g.get('integrated', z3.IntVal(0)) == 1, g.get('removals_before_integration', z3.IntVal(-1)) == 0)),
                ('no-cell-reinserted-after-removal', z3.And(n.len(lst) == g['removal_len_after'], n.arr('vec.data.int')[lst] == g['removal_data_after']))]
    return out


# ---- V7: initial pressure (solver constructor, body of the loop over the population) -------------------------------
EXP = z3.Function('libm.exp', R, R)


def post_initial_pressure(C):
    o, n = C.old, C.new
    st = C.pre_state
    c = [v for k, v in C.post_state.env.items() if C.e.var_names.get(k) == 'c'][0].ref
    ct = o.f(c, 'cell.cell_type_')
    K = o.f(ct, 'cell_type_parameters.bulk_modulus_'); pmax = o.f(ct, 'cell_type_parameters.max_pressure_'); p_init = o.f(ct, 'cell_type_parameters.initial_pressure_')
    V = o.f(c, 'cell.volume_')
    return [('target-volume-from-initial-pressure', n.f(c, 'cell.target_volume_') == V * EXP(p_init / K)),
            ('pressure-law-at-start', n.f(c, 'cell.pressure_') == z3.If(-K * LOG(V / (V * EXP(p_init / K))) > pmax, pmax, -K * LOG(V / (V * EXP(p_init / K)))))]


# ---- V8: every listed cell gets its internal forces once per iteration, with the configured time step ---------------------------------------------------
def forces_callee():
    def pre(C):
        o = C.old
        s = C.st.ghost.get('solver') if hasattr(C, 'st') else None
        return []
    def on_call(C, st):
        from values import GuardedLog
        st.ghost['forces_on'] = st.ghost.get('forces_on', GuardedLog()).add((C.this if not hasattr(C.this, 'ref') else C.this.ref, C.arg('time_step')))
    return Contract('cell::apply_internal_forces', PROP, frame=lambda C: [('*', None)], on_call=on_call, assumed=True, name='cell::apply_internal_forces (any effect; receiver and time step recorded)')


def post_forces_body(C):
    o = C.old
    g = C.post_state.ghost
    i = [v for k, v in C.pre_state.env.items() if C.e.var_names.get(k) == 'i'][-1]
    from values import LVS
    if isinstance(i, LVS): i = C.e.load(C.pre_state, i)
    lst = o.sub(C.this, 'solver.cell_lst_')
    cell_i = o.at(lst, i, 'int')
    dt = o.f(o.sub(C.this, 'solver.sim_parameters_'), 'global_simulation_parameters.time_step_')
    log = g.get('forces_on')
    entries = log.entries if log is not None else []
    return [('the-cell-at-this-position-gets-its-internal-forces-with-the-configured-time-step',
             z3.Or(*[z3.And(gd, c_ == cell_i, dt_ == dt) for (gd, (c_, dt_)) in entries]) if entries else z3.BoolVal(False)),
            ('exactly-one-call-per-cell', z3.BoolVal(len(entries) == 1))]


def post_forces_start(C):
    if C.outcome != 'loop-entry': return [('the-internal-forces-loop-is-reached-on-every-path', z3.BoolVal(C.outcome not in ('ret', None)))]
    i = [v for k, v in C.post_state.env.items() if C.e.var_names.get(k) == 'i'][-1]
    from values import LVS
    if isinstance(i, LVS): i = C.e.load(C.post_state, i)
    return [('the-internal-forces-loop-starts-at-the-first-cell', i == 0)]


def pre_forces_body(C):
    o = C.old
    i = [v for k, v in C.pre_state.env.items() if C.e.var_names.get(k) == 'i'][-1]
    from values import LVS
    if isinstance(i, LVS): i = C.e.load(C.pre_state, i)
    lst = o.sub(C.this, 'solver.cell_lst_')
    return [('index-is-a-size_t', i >= 0), ('cell-non-null', o.at(lst, i, 'int') > 0)]



def build(reg):
    reg.add(Contract('cell::update_target_volume', PROP, post=post_target_volume, assigns=['cell.target_volume_']))
    reg.add(Contract('cell::update_pressure', PROP, post=post_pressure, assigns=['cell.pressure_', 'cell.pressure_energy_']))
    reg.add(Contract('epithelial_cell::is_ready_to_divide', PROP, post=post_ready_epithelial, assigns=[]))
    reg.add(Contract('cell::is_ready_to_divide', PROP, post=post_never_ready, assigns=[]))
    reg.add(Contract('cell::is_below_min_vol', PROP, post=post_below_min, assigns=[]))
    reg.add(Contract('cell::initialize_random_properties', PROP, pre=pre_random, post=post_random, assigns=['cell.growth_rate_', 'cell.division_volume_']))
    reg.add(Contract('cell::clear_data', PROP, post=post_clear))
    # V3
    forces = [havoc_contract(q) for q in ('cell::apply_surface_tension_and_membrane_elasticity', 'cell::apply_bending_forces',
                                          'cell::regularize_all_face_angles', 'cell::compute_node_curvature_and_normals')]
    reg.add(Contract('cell::apply_internal_forces', PROP, post=post_order, name='cell::apply_internal_forces(order)', use=[
        Contract('cell::update_all_face_normals_and_areas', PROP, frame=lambda C: [('face.area_', None), ('face.normal_.dx_', None), ('face.normal_.dy_', None), ('face.normal_.dz_', None)], assumed=True),
        pure_contract('cell::compute_area'), pure_contract('cell::compute_volume', ghost='V_mesh'),
        Contract('cell::apply_pressure_on_surface', PROP, frame=lambda C: [('*', None)], on_call=record_pressure)] + forces))
    # V6
    reg.add(Contract('solver::run_iteration', PROP, pre=pre_removal_pred, post=post_removal_pred, lambda_ordinal=0,
                     name='solver::run_iteration::<removal predicate>'))
    hv = [havoc_contract(q) for q in ('solver::save_mesh', 'cell_divider::run', 'cell::update_face_types', 'local_mesh_refiner::refine_meshes',
                                      'contact_model_abstract::run', 'cell::special_polarization_update', 'cell::apply_internal_forces',
                                      'abstract_statistics_writer::write_data')]
    hv.append(Contract('time_integration_scheme::update_nodes_positions', PROP, frame=lambda C: [('*', None)], on_call=mark_integrated))
    reg.add(Contract('solver::run_iteration', PROP, post=post_iteration, use=hv, name='solver::run_iteration(removal)'))
    for k in range(3):
        reg.add_loop(LoopContract('solver::run_iteration', k, lambda L: [], modifies=['*']))
    # loop 3 renumbers the position indices after the removal (C08): it writes cell.local_id_ only
    reg.add_loop(LoopContract('solver::run_iteration', 3, lambda L: [], modifies=['cell.local_id_']))
    # V8 (loop 2 of run_iteration: the internal-forces loop)
    reg.add(Contract('solver::run_iteration', PROP, pre=pre_forces_body, post=post_forces_body, slice_loop=2, use=[forces_callee()], safety={'bounds'},
                     name='solver::run_iteration::<internal forces loop body>'))
    reg.add(Contract('solver::run_iteration', PROP, post=post_forces_start, prefix_loop=2, use=hv, name='solver::run_iteration::<internal forces loop starts at the first cell>'))
    # V7
    reg.add(Contract('solver::solver', PROP, signature='global_simulation_parameters', post=post_initial_pressure, slice_loop=1, name='solver::solver::<initial pressure loop>'))


EXPLANATION = ("Contracts on the real cell-cycle code: update_target_volume (Vt' = max(Vt + dt*g, Vmin)), update_pressure (p = min(-K ln(V/Vt), pmax), "
               "ln uninterpreted), is_ready_to_divide (epithelial: V >= Vdiv; base class: false), is_below_min_vol, initialize_random_properties "
               "(sample unconstrained, result within mean +/- 3 sigma), clear_data, the order of operations inside apply_internal_forces "
               "(pressure handed to apply_pressure_on_surface is min(-K ln(V_mesh/Vt'), pmax) with V_mesh the value compute_volume returned in "
               "the same call), the removal predicate of solver::run_iteration (lambda under contract) and the structure of run_iteration "
               "(every other callee is treated as 'may write anything': the erase/remove_if over the whole population runs exactly once per "
               "iteration, after the integration step, and the list is not touched afterwards), and the body of the initial-pressure loop of "
               "the solver constructor (Vt = V exp(p0/K), then the pressure law).")
ASSUMPTIONS = ["exact reals; max_pressure_/avg_division_vol_ = +infinity is the limit case of an arbitrary real bound (a comparison with +inf is false, i.e. no cap)",
               "std::log, std::exp uninterpreted (only log(exp x) = x is used by the engine, and not needed here)",
               "std::remove_if + vector::erase have the meaning the C++17 standard gives them (stable sub-sequence of the elements whose predicate is false)",
               "frame of cell::update_all_face_normals_and_areas (writes face areas and normals only) and purity of compute_area/compute_volume are assumed in the order contract; both are proved in C12's contracts",
               "the removal predicate requires cell volume >= 0 (postcondition of compute_volume, C12): with a negative volume and non-positive min_vol the second evaluation after clear_data could differ"]
UNVERIFIED = ["which subclasses override is_ready_to_divide is read from the AST of epithelial_cell and cell only; other subclasses inherit cell's (checked by the base-class contract)",
              "that removed cells never reappear across iterations rests on: no other statement of run_iteration inserts into the list after the removal (proved) and cell_divider::run only replaces dividing cells (C08/C09)"]
