#!/usr/bin/env python3
"""loops.py <qualified function name> [KEY=VAL ...]: list the loop ordinals (and lambdas) of a function of the current tree"""
import sys, os
sys.path.insert(0, os.path.join(os.path.dirname(os.path.abspath(__file__)), '..', 'engine'))
import frontend, symex
from symex import Frame
cfg = dict(kv.split('=') for kv in sys.argv[2:])
a = frontend.load(cfg)
eng = symex.Engine(a, None)
for d in a.fn_by_qname.get(sys.argv[1], []):
    fr = Frame(d, None, sys.argv[1], 1)
    eng.loop_ordinal({'id': None}, fr)
    m = eng.loop_ord_cache[d['id']]
    print(sys.argv[1], d['type']['qualType'][:80], 'line', d.get('_line'))
    def find(n, depth=0):
        if n.get('id') in m: print('   loop', m[n['id']], n['kind'], 'line', n.get('_line'))
        if n.get('kind') == 'LambdaExpr':
            print('   lambda line', n.get('_line'))
            for c in n.get('inner', [])[1:]: find(c)
            return
        for c in n.get('inner', []): find(c)
    find(a.body_of(d))
