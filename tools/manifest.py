#!/usr/bin/env python3
"""Regenerates /verif/MANIFEST.json from the table below (one entry per claimed property) and validates it."""
import json, os, subprocess
ROOT = os.path.dirname(os.path.dirname(os.path.abspath(__file__)))
props = [json.loads(l) for l in open(os.path.join(ROOT, 'properties.jsonl'))]
NOTE_COMMON = ("Trusted: clang 14 front end; engine R (own symbolic executor over clang's AST of the current tree); exact reals for "
               "double/float; listed library models; z3 5.1/4.8.12, cvc5 1.0.3. Everything else is listed per run in the evidence file.")
CLAIMS = {
 'C02': dict(
   text=("Per-element contracts on the real force routines (arbitrary iteration of the per-face loops): pressure gives each node of a used face "
         "p*cr/6 and nothing else; tension/elasticity gives force_i = -gamma_eff dA/dx_i (stated division-free against the cached normal, whose "
         "meaning is the face-cache invariant), zero net force and torque per face; angle gradients sum to zero; prologue of the tension "
         "routine; gradient lemmas for area and volume. Bending and the angle-regularisation forces are NOT under a deductive contract: their "
         "zero net force / torque clause is run natively on the real routines for a fixed list of closed meshes and reported as a BOUNDED "
         "check (never counted as proved); whole-cell zero net pressure force rests on the quoted closed-surface lemma. Also under contract: the face cache the forces "
         "read (C12 contract re-run) and the order in which apply_internal_forces refreshes it and applies each force routine exactly once."),
   design='6 C02', technique='contract-based deductive verification: loop-body contracts on the clang AST + SMT and exact ideal-membership (sympy Groebner) for polynomial identities; bounded native stand-in for the bending / angle force sums, labelled bounded',
   note=NOTE_COMMON + " sympy 1.14 polynomial arithmetic is an additional trusted back end for equalities."),
 'C03': dict(
   text=("Contracts on the real time_integration_scheme::update_nodes_positions in four compile-time configurations (contact model 0/1 x dynamic "
         "model 0/1, one clang run each through the guarded override hook): time advances by exactly dt per call (loops by contract with a frame "
         "obligation); an arbitrary iteration of the per-cell loop: skipped only if the cell is static and then nothing is written, otherwise "
         "the per-node mass is density*volume/#live nodes; an arbitrary iteration of the node loop: the documented law for uncoupled live "
         "nodes, force reset, dead slots and every other node untouched; coupled pairs (model 1): same displacement, law on the averaged state, "
         "total momentum follows total force, forces reset. All cells, nodes, forces, momenta, dt, damping, masses symbolic. Contact model 2 is "
         "outside the contracts; a BOUNDED native population check (one small population, all six contact x dynamic configurations) stands in for it and is reported as bounded."),
   design='6 C03', technique='contract-based deductive verification: loop-body contracts (arbitrary iteration from an arbitrary state) on the clang AST + SMT (non-linear real arithmetic)',
   note=NOTE_COMMON + " Mutual, valid couplings are the property's hypothesis (preconditions); contact model 2 is not under contract; 'each node once per call' is for-loop semantics."),
 'C04': dict(
   text=("Contracts on the real functions of the cell cycle, all inputs symbolic: target-volume law with floor, pressure law with cap, division trigger "
         "(epithelial vs base class), removal predicate and its side effect, 3-sigma clamp of the sampled growth rate / division volume, order of "
         "operations in apply_internal_forces (callees by contract), structure of run_iteration (removal over the whole list exactly once per "
         "iteration, after integration, nothing re-inserted; every other callee modelled as 'may do anything'), and the initial-pressure loop body "
         "of the solver constructor; the internal-forces loop of the iteration (starts at the first cell, one call per cell with the configured time step). "
         "No bound on inputs or histories; loops by contract / arbitrary-iteration slice."),
   design='6 C04', technique='contract-based deductive verification: own VC generator over the clang AST (heap model, callee contracts, loop-body contracts) + SMT',
   note=NOTE_COMMON + " log/exp uninterpreted; std::remove_if/erase by the standard's specification; two callee frames assumed here and proved under C12."),
 'C06': dict(
   text=("Chain of contracts on the real broad phase of the shipped contact model: constructor (padding, voxel size), face boxes (arbitrary "
         "iteration: padded extent stored at 6*i, global box grows), box test (iff inside), grid filling (voxel range of a face from the box "
         "corners, inside the grid; innermost iteration places the face in the visited voxel), candidate loop (candidates = list of the "
         "node's voxel; every other-cell face whose box contains the node and passes the normal rule reaches the contact rule), plus two "
         "arithmetic lemmas (padding lemma, monotone voxel index). Composition written in the evidence: a pair is discarded only beyond the cut-off. "
         "Checked in two compile-time configurations (contact model 1 and contact model 0, whose constructor and candidate loop have their own contracts); double->float conversions round."),
   design='6 C06', technique='contract-based deductive verification: chain of function / loop-body / loop-prefix contracts on the clang AST with callee contracts from C20, SMT',
   note=NOTE_COMMON + " The composition of the links and for-loop semantics are mathematics stated in the evidence; other compile-time contact models' candidate loops are unverified."),
 'C07': dict(
   text=("Contracts on the real per-pair contact rule of each of the three compile-time contact models (model 1 as shipped; model 0: node-face springs with "
         "the virtual polarisation call dispatched over all cell classes; model 2: face-face coupling with per-node std::map), and on the call sites (the rule is "
         "called only with a face of another cell). For model 1: all nodes, faces, cell types and strengths "
         "symbolic, kernel through its C05 contract: action = reaction on the four nodes and nothing else written, forces only below the "
         "cut-off and only on the forbidden side (with the ECM / nucleus reversals), node force directed at the closest surface point and "
         "reaction distributed by the barycentric weights, couplings only between epithelial cells within the adhesion cut-off; and the reset "
         "of all couplings at the start of every contact phase (loop-body contract)."),
   design='6 C07', technique='contract-based deductive verification: VC generation over the clang AST with callee contracts and a typed heap model + SMT',
   note=NOTE_COMMON + " Contact models 0 and 2 (other compile-time configurations) are named as unverified; several invariants of other properties are preconditions."),
 'C08': dict(
   text=("Contracts where identities are created and the population changes: id loop of the solver constructor, division loop and renumbering "
         "loop of cell_divider::run (arbitrary iterations, divide_cell by contract), the caller-visible id counter of solver::run_iteration "
         "with cell_divider::run inlined (loop invariant on the solver's field), removal followed by renumbering in run_iteration, and the "
         "coupling written by the per-pair contact rule (position index of the partner cell, node of the visited face); whole-list POP-INV by loop "
         "invariant for the renumbering loops of cell_divider::run and solver::run_iteration (suffix contracts). Any population size, "
         "any position of the dividing / removed cells."),
   design='6 C08', technique='contract-based deductive verification: loop-body / prefix contracts, inlined callee with loop invariant on caller state, callee contracts, SMT',
   note=NOTE_COMMON + " divide_cell's contract is assumed here (C09); face-type indices and owner pointers are named unverified."),
 'C12': dict(
   text=("Contracts on the real geometric queries of cell: the face-cache routine establishes area/normal from the area vector of the current "
         "positions; volume and area are proved equal to explicit ghost sums over the used faces through loop contracts (std::accumulate included); "
         "centroid and bounding box through a contract on an arbitrary loop iteration (plus the box prologue); the covariance matrix given to "
         "the eigen-solver; the winding correction between two faces sharing an edge; the order of the stages of initialize_cell_properties (face cache after the "
         "orientation pass, area and volume after the cache). All meshes, positions and slot patterns symbolic."),
   design='6 C12', technique='contract-based deductive verification: loop contracts with ghost partial-sum functions, cuts and generalisation lemmas, SMT + exact polynomial back end',
   note=NOTE_COMMON + " Enclosed-volume meaning and rigid-motion invariance of volume/centroid rest on the quoted closed-surface lemma; flood fill and eigen-solver are named unverified."),
 'C14': dict(
   text=("Translation independence as a corollary of contracts: the kernels through which absolute coordinates enter (closest-point kernel with a "
         "relational translation clause on the real code, face cache, pressure and tension forces, area, signed-volume sum, padded face boxes "
         "and box test, integration step) are re-verified against their specification functions on the current tree, and each specification "
         "function is proved invariant or equivariant under a joint translation (lemmas); enclosed volume via the quoted closed-surface lemma."),
   design='6 C14', technique='contract-based deductive verification: relational clause on the kernel + invariance lemmas over the specification functions of the contracts, SMT',
   note=NOTE_COMMON + " Phases not under contract (surface reconstruction, division geometry, bending, other contact models) are named unverified."),
 'C18': dict(
   text=("Contracts on the real parameter reader over a facade of tinyxml2 and the string conversions: for the three reading functions, on normal "
         "return every documented tag is present and the field named after it (table written from the documentation) holds the converted "
         "text, INF maps to infinity where documented, sign constraints hold, every other exit is an exception of a std::exception-derived "
         "class; no std::terminate in get_string_value; cell types and face types keep the order of the file (loop-body contracts + the "
         "returned list equals the list built by the loop); constructors of the consumers take the values they are named after. All tag texts, "
         "any number of cell/face types symbolic."),
   design='6 C18', technique='contract-based deductive verification over the clang AST with uninterpreted-function models of tinyxml2 and std::sto*, exceptions as outcomes, SMT',
   note=NOTE_COMMON + " tinyxml2 and std::stod/stoi are modelled, not verified."),
 'C09': dict(
   text=("Slice of the property decided by contracts on the real code: the population book-keeping of cell_divider::run for any population and any "
         "number of divisions in one call (size, survivors in order, mothers gone, daughter ids fresh and consecutive, id counter, position "
         "indices), with remove_index<cell_ptr,unsigned> proved against its full functional contract by an inductive invariant; divide_cell "
         "never lets an exception escape, returns nullopt on failure and on success the two daughters with half of the mother's target volume; "
         "the plane and rotation kernels (edge/plane intersection, side of a face, quaternion normalisation and matrix, rotation to the xy "
         "plane orthonormal and mapping the normal to +z, inverse mapping, round-trip lemma). Whether the daughters' surfaces are closed "
         "manifolds on their side of the plane with volumes adding up is NOT decided here (listed as unverified)."),
   design='6 C09', technique='contract-based deductive verification: own VC generator over the clang AST (loop invariants with quantified list facts, ghost allocation watermark, reachability covers) + SMT (E-matching) + sympy ideal membership; native replay of refuted obligations',
   note=NOTE_COMMON + " OpenMP loop read sequentially. The geometric outcome of a division (closed daughters, volume split) is not under contract."),
 'C01': dict(
   text=("The data-structure half of the property by contracts on the real mesh editing code over a full model of std::set<edge>: invariants of the "
         "free-slot queues and of the edge set are required and preserved by add_node, delete_face, add_face (which never creates an edge with three "
         "faces: it throws), get_edge; generate_edge_set makes every side of every triangle a stored edge listing it (arbitrary face); rebase rebuilds "
         "the edge set after every renumbering; split_edge requests four triangles that join the new node to the four old ones, wound and labelled "
         "like the triangle they replace; check_face_winding_order leaves the shared edge traversed in opposite directions; can_be_merged answers by "
         "the number of common neighbours of the two end nodes (link condition). swap_edge is only exercised by a BOUNDED native check (face cache "
         "and orientation after swapping every edge of an icosphere), never counted as proved. Unbounded "
         "in mesh size for the contracts. The global statements (two faces per edge everywhere, V-E+F=2, positive volume after a whole pass) need merge/swap under "
         "contract too and are NOT decided."),
   design='6 C01', technique='contract-based deductive verification: own VC generator over the clang AST (std::set<edge> model, quantified data invariants, ghost clock, covers) + SMT (E-matching) + sympy; native ASan replay of refuted obligations',
   note=NOTE_COMMON + " merge_edge / swap_edge / can_be_merged topology is not under contract; the induction from the local contracts to whole-surface manifoldness is not made."),
 'C10': dict(
   text=("Memory-safety obligations on the code paths the property names, generated under contracts on the real code: vector indexing in bounds, no "
         "value() on an empty optional, no dereferenced end iterator, no reference into a vector used after an operation that may reallocate it "
         "(storage epoch per vector), for add_node, delete_face, add_face, generate_edge_set, split_edge, merge_edge, rebase (renumbering always followed "
         "by an edge-set rebuild) and mesh_reader::get_cell_mesh; facts read off the AST: scalar members of node initialised by every constructor, "
         "virtual destructors for bases owned through unique_ptr, format_number call sites fit the 30-byte buffer. It decides these obligations for all "
         "inputs of the functions under contract; it does not cover every execution of a simulation (ball pivoting, contact models beyond C06/C07/C20, "
         "data races)."),
   design='6 C10', technique='contract-based deductive verification: safety obligations of the VC generator over the clang AST (bounds, optional, iterator, reference epochs) + SMT; static AST facts; native ASan/valgrind replay',
   note=NOTE_COMMON + " Reallocation is assumed at every push_back/reserve/resize (capacity not tracked). OpenMP regions read sequentially."),
 'C11': dict(
   text=("Contracts on the real remeshing code over a full model of std::set<edge>: the mesh primitives (add_node, get_edge, delete_face, add_face) with "
         "their data-structure invariants; split_edge: midpoint, momentum redistribution conserves the momentum of the three nodes, no surviving "
         "node moves, requested triangles wound like the one they replace, no reference used after a possible reallocation; merge_edge: midpoint, "
         "summed momentum, ends deleted, nothing else touched (topology of the collapse assumed); refine_mesh loop body: splits only above l_max, "
         "merges only below l_min when can_be_merged says so, an edge inside the band changes nothing, per-iteration progress. Unbounded in mesh "
         "size. Not decided: termination of the whole pass, edge swaps, collapse topology."),
   design='6 C11', technique='contract-based deductive verification: own VC generator over the clang AST (std::set<edge> model, quantified data invariants, reference-epoch tracking, reachability covers) + SMT (E-matching) + sympy; native ASan replay',
   note=NOTE_COMMON + " DYNAMIC_MODEL_INDEX=0. The preconditions of add_face / delete_face at their call sites inside split_edge are assumed (views), not discharged."),
 'C13': dict(
   text=("Slice of the property decided by contracts on the real code - the accept/reject gate, not the reconstruction: "
         "simulation_initializer::triangulate_surface returns only a cell whose validation (initialize_cell_properties) returned normally in the "
         "same attempt and otherwise throws intialization_exception (attempt loop by contract, every stage may throw); "
         "initialize_cell_properties with the integrity check on returns normally only after edge-set generation, a positive manifold test and "
         "the orientation pass, in this order; the tail of check_face_normal_orientation flips every used face exactly when the sum of the face "
         "determinants is negative (loops by contract, partial-sum ghost), so an accepted cell is oriented outward. Faithfulness and "
         "closedness of what the reconstruction produces, and the sample spacing, are NOT decided (listed as unverified)."),
   design='6 C13', technique='contract-based deductive verification: own VC generator over the clang AST (suffix contract, loop contracts, ghost clock for stage order, reachability covers) + SMT; native replay of refuted obligations',
   note=NOTE_COMMON + " The randomised reconstruction (Poisson sampling, ball pivoting, hole filling) is outside the reach of contracts here."),
 'C17': dict(
   text=("Slice of the property decided by contracts on the real code, i.e. everything after the std::regex front end has produced numbers: "
         "mesh_reader::get_cell_mesh is memory-safe for EVERY pair of vectors (arbitrary cell record of any length, arbitrary counters and point ids, "
         "conversions modulo 2^N): every element read, std::copy range and set insertion lies inside its vector, the face loop terminates, "
         "only mesh_reader_exception escapes; simulation_initializer::run establishes one mesh / one type id / one slot per cell and an id list "
         "0..n-1 before starting the workers, and the worker indexes the type list only with 0 <= id < size for every short (negative and "
         "truncated ids included); the parameter-reader contracts of C18 (null text, missing tag, exception classes); static facts: every throw "
         "expression in the repository throws a class derived from std::exception and main() catches std::exception& around start-up."),
   design='6 C17', technique='contract-based deductive verification: own VC generator over the clang AST (loop contracts, modular integer conversions, scalar set/map model) + SMT; native ASan replay of refuted obligations',
   note=NOTE_COMMON + " Not decided: the std::regex / std::stoi / iostream front end of mesh_reader (tokenisation, memory use, termination of regex_search) and tinyxml2's parser: no contract reaches library code compiled from templates; byte-level fuzzing is a different technique."),
 'C19': dict(
   text=("Slice of the property decided by contracts on the real code: file number = floor(t/S)+1 and a file pair written exactly when it changes "
         "(with the no-gap lemma for dt <= S in exact arithmetic), what run_iteration writes when (statistics every 50th iteration, mesh output "
         "considered once, one integration step, counter +1), the exit condition of the main loop and the final statistics write, and which "
         "cell attribute each statistics column formats. A bounded native run of the real numbering code in doubles for listed (dt,S) pairs "
         "is reported separately and labelled bounded; it exhibits the recorded known finding (gaps when S == dt). The writer compacts every cell before "
         "writing (contract on its per-cell wrapper); the row / field structure of the statistics tables is sampled by a second bounded native scenario."),
   design='6 C19', technique='contract-based deductive verification (SMT with to_int) on the clang AST; bounded native stand-in for the floating-point numbering, labelled bounded',
   note=NOTE_COMMON + " File contents, row structure and printed precision (iostream / sprintf) are not decided."),
 'C20': dict(
   text=("Contracts on the real grid templates as instantiated by the repository: update_dimensions (every point of the declared box, as a free "
         "variable, is indexable and maps to an existing voxel; voxel count without 32-bit wrap; grid emptied), index functions (formula, range, "
         "no wrap, no undefined conversion), place_object (multiset frame: only that voxel/object changes), get_voxel_content, and for "
         "get_neighborhood / get_grid_content a contract on the loop bounds plus a contract on an arbitrary iteration of the loop body; two "
         "arithmetic lemmas (flattening injective, adjacency under one voxel size); the position overload of get_neighborhood answers every point of the closed box "
         "through the clamped voxel of the point. No bound on box, size or contents except < 2^20 voxels per axis."),
   design='6 C20', technique='contract-based deductive verification: own VC generator over the clang AST (prefix/loop-body contracts, multiset model of forward_list) + SMT with to_int',
   note=NOTE_COMMON + " The step from 'bounds + arbitrary iteration' to 'every voxel of the block is visited once' is for-loop semantics, stated in the evidence."),
 'C05': dict(
   text=("Contract on the real contact_model_abstract::compute_node_triangle_distance (AST of the current tree, symbolic p,a,b,c): on each of "
         "its 7 return paths the barycentric coordinates sum to 1 and are >= 0, the returned d2 equals |p-q|^2, q satisfies the first-order "
         "optimality conditions of the closest point, no division by zero, and the result is invariant under joint translation (relational "
         "clause, 49 path pairs). Unbounded: all inputs, no loops. Rotation invariance follows mathematically from the postconditions."),
   design='6 C05', technique='contract-based deductive verification: own VC generator over the clang AST + SMT (z3/cvc5), Gram-variable abstraction lemmas',
   note=NOTE_COMMON),
}
NA = {
 'C15': "thread schedules / interleavings: contracts quantify over inputs of one sequential call; no installed deductive verifier gives C++/OpenMP interleavings a meaning (DESIGN section 7)",
 'C16': "byte-level writer/reader round trip goes through sprintf, iostreams and std::regex, outside every back end here (DESIGN section 7)",
}
checks = []
for p in props:
    i = p['id']
    if i in CLAIMS:
        c = CLAIMS[i]
        checks.append({'property_id': i, 'quick_cmd': './check %s --tier quick' % i, 'thorough_cmd': './check %s --tier thorough' % i,
                       'evidence_file': '/verif/evidence/%s.json' % i, 'replay_cmd_template': './check %s --replay {path}' % i,
                       'engine': 'engine-R', 'level_claimed': {'category': 'proof', 'text': c['text'], 'design_ref': c['design']},
                       'level_note': c['note'], 'technique': c['technique']})
na = [{'property_id': p['id'], 'reason': NA.get(p['id'], 'check not built yet (work in progress; DESIGN.md section 9 gives the order)')} for p in props if p['id'] not in CLAIMS]
m = {'version': 1, 'setup_cmd': 'make -s -C /verif/engine',
     'hooks': {'guard': 'SIMUCELL3D_VERIF', 'enable': "checks pass -DSIMUCELL3D_VERIF (plus -DSIMUCELL3D_VERIF_CONTACT_MODEL_INDEX / _DYNAMIC_MODEL_INDEX where a configuration is selected) to clang's AST dump and to native replay builds of /repo's current tree",
               'baseline_off_cmd': '/verif/baseline_off.sh', 'source_commits': json.load(open(os.path.join(ROOT, 'tools', 'hook_commits.json'))) if os.path.exists(os.path.join(ROOT, 'tools', 'hook_commits.json')) else [], 'add_only': True},
     'engines': [{'name': 'engine-R', 'path': '/verif/engine', 'serves_properties': sorted(CLAIMS), 'kind_free_text': 'symbolic executor / VC generator over the clang JSON AST of /repo (contracts in /verif/specs), discharged by z3 5.1, z3 4.8.12, cvc5 1.0.3; native replay of refuted obligations against a g++ build of the current tree'}],
     'checks': checks, 'not_applicable': na,
     'notes': 'Contract-based deductive verification; see DESIGN.md. Exit codes of ./check: 0 held, 1 violation, 2 undecided / extraction failure / spec drift (never printed as VIOLATION).'}
json.dump(m, open(os.path.join(ROOT, 'MANIFEST.json'), 'w'), indent=1)
import jsonschema
jsonschema.validate(m, json.load(open('/root/.vp/MANIFEST.schema.json')))
print('MANIFEST ok: %d claimed, %d not applicable' % (len(checks), len(na)))
