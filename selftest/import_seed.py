#!/usr/bin/env python3
"""import_seed.py <id> <source seed dir> <confirm log text file> : copy an independently produced seeded change into
/verif/seeded/<id>/ with a meta.json recording what it breaks, what it needs and what was run to confirm it."""
import sys, os, json, shutil
sid, src, conf = sys.argv[1], sys.argv[2], sys.argv[3]
dst = os.path.join('/verif/seeded', sid)
os.makedirs(dst, exist_ok=True)
for f in os.listdir(src):
    if f == 'meta.json': continue
    shutil.copy(os.path.join(src, f), os.path.join(dst, f))
m = json.load(open(os.path.join(src, 'meta.json')))
meta = {'property': m.get('property'), 'summary': m.get('summary'), 'needs': m.get('needs'), 'why_tests_pass': m.get('why_tests_pass'),
        'origin': 'written by an independent sub-agent that saw only the property text and a scratch worktree of the repository',
        'author_ran': m.get('ran'),
        'confirmed_by_me': open(conf).read().strip().split('\n'),
        'confirm_cmd': '/verif/selftest/confirm_seed.sh <scratch worktree at /repo HEAD> /verif/seeded/%s' % sid,
        'check_cmd': '/verif/selftest/run_on_patch.sh /verif/seeded/%s/patch.diff %s' % (sid, m.get('property'))}
json.dump(meta, open(os.path.join(dst, 'meta.json'), 'w'), indent=1)
print('imported', dst)
