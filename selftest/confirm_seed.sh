#!/bin/bash
# confirm_seed.sh <worktree> <seed dir with patch.diff + build_and_run.sh>
# Confirms, in a scratch worktree brought to /repo's current HEAD: baseline builds + tests pass + demo passes;
# with the patch: builds + tests pass + demo fails.  Leaves the worktree's tracked files unmodified.
WT=$1; SD=$2
set -o pipefail
git -C $WT checkout -q -- . ; git -C $WT checkout -q --detach main || exit 9
build_test() {
  cmake -G Ninja -S $WT -B $WT/_build -DCMAKE_BUILD_TYPE=RelWithDebInfo >/dev/null 2>&1 && cmake --build $WT/_build -j16 >/dev/null 2>&1 || { echo "BUILD-FAILED"; return 1; }
  ctest --test-dir $WT/_build -j8 --timeout 900 2>&1 | grep -E "tests passed|tests failed" | tail -1
}
echo "== baseline"; build_test
bash $SD/build_and_run.sh $WT >/tmp/seed_demo_base.log 2>&1; echo "demo exit (baseline) = $?"
echo "== with patch"
git -C $WT apply $SD/patch.diff || { echo "PATCH-DOES-NOT-APPLY"; exit 8; }
build_test
bash $SD/build_and_run.sh $WT >/tmp/seed_demo_mut.log 2>&1; echo "demo exit (patched) = $?"
tail -3 /tmp/seed_demo_mut.log
git -C $WT checkout -q -- .
