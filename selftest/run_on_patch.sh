#!/bin/bash
# run_on_patch.sh <patch> <check ids...>: apply a patch to /repo, run the checks, undo it straight afterwards
P=$1; shift
export VERIF_EVIDENCE_DIR=${VERIF_EVIDENCE_DIR:-/tmp/verif_evidence_selftest}      # the committed evidence describes the unchanged tree
git -C /repo apply $P || { echo PATCH-DOES-NOT-APPLY; exit 8; }
trap 'git -C /repo checkout -- .' EXIT
for id in "$@"; do /verif/check $id ${TIER:+--tier $TIER} 2>&1 | tail -${TAILN:-4}; echo "exit=$?"; done
