#!/bin/bash
# Builds /repo's current tree WITHOUT the verification guard in a scratch directory, runs the
# pinned test suite, prints the ctest summary, removes the scratch directory.
set -e
D=$(mktemp -d /tmp/verif_baseline.XXXXXX)
trap 'rm -rf "$D"' EXIT
cmake -G Ninja -S /repo -B "$D" -DCMAKE_BUILD_TYPE=RelWithDebInfo >/dev/null 2>&1
cmake --build "$D" -j16 >/dev/null
ctest --test-dir "$D" -j8 --timeout 900 --output-junit "$D/junit.xml" | tail -5
