#include <stddef.h>
struct uspg { unsigned nb_voxels_x_, nb_voxels_y_, nb_voxels_z_; };
size_t get_voxel_index(const struct uspg* this_, const unsigned voxel_x_id, const unsigned voxel_y_id, const unsigned voxel_z_id)
__CPROVER_requires(__CPROVER_is_fresh(this_, sizeof(*this_)))
__CPROVER_requires(voxel_x_id < this_->nb_voxels_x_ && voxel_y_id < this_->nb_voxels_y_ && voxel_z_id < this_->nb_voxels_z_)
__CPROVER_ensures(__CPROVER_return_value == (size_t)voxel_z_id * (size_t)this_->nb_voxels_x_ * (size_t)this_->nb_voxels_y_ + (size_t)voxel_y_id * (size_t)this_->nb_voxels_x_ + (size_t)voxel_x_id)
__CPROVER_assigns()
{
#ifdef FIXED
  const size_t voxel_id = (size_t)voxel_z_id * this_->nb_voxels_x_ * this_->nb_voxels_y_ + (size_t)voxel_y_id * this_->nb_voxels_x_ + voxel_x_id;
#else
  const size_t voxel_id = voxel_z_id * this_->nb_voxels_x_ * this_->nb_voxels_y_ + voxel_y_id * this_->nb_voxels_x_ + voxel_x_id;
#endif
  return voxel_id;
}
unsigned nondet_unsigned(void);
void h(void){ struct uspg* g; get_voxel_index(g, nondet_unsigned(), nondet_unsigned(), nondet_unsigned()); }
