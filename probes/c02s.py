import time, sympy as sp
ax,ay,az,bx,by,bz,cx,cy,cz,nn,g=sp.symbols('ax ay az bx by bz cx cy cz nn g')
A,B,C=sp.Matrix([ax,ay,az]),sp.Matrix([bx,by,bz]),sp.Matrix([cx,cy,cz])
cr=(B-A).cross(C-A); n=cr/nn
g1=n.cross(B-C)*sp.Rational(-1,2); g2=n.cross(C-A)*sp.Rational(-1,2); g3=n.cross(A-B)*sp.Rational(-1,2)
t=time.time()
tor=A.cross(g1*g)+B.cross(g2*g)+C.cross(g3*g)
print([sp.cancel(sp.together(e)) for e in tor], round(time.time()-t,2))
