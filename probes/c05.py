import sys, time
from z3 import *
bug = sys.argv[1]=='bug'
which = sys.argv[2]
def V(n): return [Real(n+'x'),Real(n+'y'),Real(n+'z')]
def sub(u,v): return [u[i]-v[i] for i in range(3)]
def add(u,v): return [u[i]+v[i] for i in range(3)]
def mul(u,s): return [u[i]*s for i in range(3)]
def dot(u,v): return sum(u[i]*v[i] for i in range(3))
p,a,b,c=V('p'),V('a'),V('b'),V('c')
ab=sub(b,a); ac=sub(c,a); ap=sub(p,a)
d1=dot(ab,ap); d2=dot(ac,ap)
bp=sub(p,b); d3=dot(ab,bp); d4=dot(ac,bp)
cp=sub(p,c); d5=dot(ab,cp); d6=dot(ac,cp)
vc=d1*d4-d3*d2; vb=d5*d2-d1*d6; va=d3*d6-d5*d4
path=[Not(And(d1<=0,d2<=0)), Not(And(d3>=0,d4<=d3)), Not(And(vc<=0,d1>=0,d3<=0)), Not(And(d6>=0,d5<=d6)), Not(And(vb<=0,d2>=0,d6<=0)), Not(And(va<=0,d4-d3>=0,d5-d6>=0))]
den=Real('den')
s=Solver()
s.add(path)
s.add((va+vb+vc)!=0, den*(va+vb+vc)==1)
v=vb*den; w=vc*den
if bug: cpa=add(add(add(a,mul(ab,v)),a),mul(ac,w))
else: cpa=add(add(a,mul(ab,v)),mul(ac,w))
dist=dot(sub(p,cpa),sub(p,cpa))
u=1-v-w
q=add(add(mul(a,u),mul(b,v)),mul(c,w))
# nondegenerate triangle: |ab x ac|^2 > 0
def cross(x,y): return [x[1]*y[2]-x[2]*y[1], x[2]*y[0]-x[0]*y[2], x[0]*y[1]-x[1]*y[0]]
n=cross(ab,ac)
s.add(dot(n,n)>0)
goals={
 'dist': dist==dot(sub(p,q),sub(p,q)),
 'sum': u+v+w==1,
 'nonneg': And(u>=0,v>=0,w>=0),
 'kkt': And(dot(sub(p,q),ab)==0, dot(sub(p,q),ac)==0),
}
s.add(Not(goals[which]))
s.set('timeout',120000)
t=time.time(); r=s.check(); print(which,'bug' if bug else 'ok',r,round(time.time()-t,2))
if r==sat:
    m=s.model(); print({str(d):m[d] for d in m.decls()})
if r!=unsat:
    import random
    random.seed(1)
    for k in range(20):
        s.push()
        for vv in a+b+c: s.add(vv==random.randint(-3,3))
        s.set('timeout',5000)
        t=time.time(); r2=s.check(); 
        if r2==sat:
            m=s.model(); print('partial-fix sat',round(time.time()-t,2),{str(d):str(m[d]) for d in m.decls()}); break
        s.pop()
