#include <math.h>
double nondet_double(void);
int main(void){
  double a=nondet_double(), b=nondet_double(), m=nondet_double(), vs=nondet_double();
  __CPROVER_assume(!__CPROVER_isnand(a)&&!__CPROVER_isnand(b)&&!__CPROVER_isnand(m)&&!__CPROVER_isnand(vs));
  __CPROVER_assume(!__CPROVER_isinfd(a)&&!__CPROVER_isinfd(b)&&!__CPROVER_isinfd(m)&&!__CPROVER_isinfd(vs));
  __CPROVER_assume(a<=b && vs>0 && m<=a);
#ifdef SUBONLY
  __CPROVER_assert((a-m)<=(b-m),"sub mono");
#elif defined(DIVONLY)
  __CPROVER_assert(a/vs<=b/vs,"div mono");
#else
  __CPROVER_assert(floor((a-m)/vs)<=floor((b-m)/vs),"mono");
#endif
}
