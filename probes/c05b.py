import time
from z3 import *
d1,d2,A,B,C=Reals('d1 d2 A B C')
d3=d1-A; d4=d2-B; d5=d1-B; d6=d2-C
vc=d1*d4-d3*d2; vb=d5*d2-d1*d6; va=d3*d6-d5*d4
path=[Not(And(d1<=0,d2<=0)), Not(And(d3>=0,d4<=d3)), Not(And(vc<=0,d1>=0,d3<=0)), Not(And(d6>=0,d5<=d6)), Not(And(vb<=0,d2>=0,d6<=0)), Not(And(va<=0,d4-d3>=0,d5-d6>=0))]
for name,goal in [('va>=0',va>=0),('vb>=0',vb>=0),('vc>=0',vc>=0),('sum>0',va+vb+vc>0),('sumeq',va+vb+vc==A*C-B*B)]:
    s=Solver(); s.add(path); s.add(A>0,C>0,A*C-B*B>0); s.add(Not(goal)); s.set('timeout',120000)
    t=time.time(); print(name,s.check(),round(time.time()-t,2))
