#include <math.h>
#include <float.h>
#include <stddef.h>
double nondet_double(void);
struct grid { double min_x_, max_x_, voxel_size_; unsigned nb_voxels_x_; };
void update_dimensions_x(struct grid* g, double min_x, double max_x){
  const double delta = DBL_EPSILON;
  g->nb_voxels_x_ = (unsigned)(ceil((max_x + delta - min_x) / g->voxel_size_));
  g->min_x_ = min_x - delta;
  g->max_x_ = min_x + g->nb_voxels_x_ * g->voxel_size_;
}
unsigned get_idx_x(const struct grid* g, double pos_x){
  return (unsigned)(floor((pos_x - g->min_x_) / g->voxel_size_));
}
int main(void){
  struct grid g; double min_x=nondet_double(), max_x=nondet_double(), vs=nondet_double(), p=nondet_double();
  __CPROVER_assume(!__CPROVER_isnand(p));
  __CPROVER_assume(min_x<max_x && vs>0);
  __CPROVER_assume(fabs(min_x)<=1e6 && fabs(max_x)<=1e6 && vs>=1e-9 && vs<=1e6 );
  __CPROVER_assume((max_x-min_x)/vs < 1000.0);
  g.voxel_size_=vs;
  update_dimensions_x(&g,min_x,max_x);
  __CPROVER_assume(p>=min_x && p<=max_x);
  unsigned i=get_idx_x(&g,p);
  __CPROVER_assert(i<g.nb_voxels_x_,"index in range");
}
