import json
def load_multi(path):
    s=open(path).read(); dec=json.JSONDecoder(); i=0; objs=[]
    while i<len(s):
        while i<len(s) and s[i].isspace(): i+=1
        if i>=len(s): break
        o,j=dec.raw_decode(s,i); objs.append(o); i=j
    return objs
def body_of(fn):
    for c in fn.get('inner',[]):
        if c.get('kind')=='CompoundStmt': return c
    return None
def params_of(fn): return [c for c in fn.get('inner',[]) if c.get('kind')=='ParmVarDecl']
def index_functions(objs, table):
    """table: mangledName -> decl (with body preferred); ids: id -> mangledName"""
    def visit(n):
        k=n.get('kind')
        if k in ('CXXMethodDecl','CXXConstructorDecl','FunctionDecl','CXXConversionDecl','CXXDestructorDecl'):
            mn=n.get('mangledName')
            if mn:
                table['ids'][n['id']]=mn
                if body_of(n) is not None or mn not in table['fn']: 
                    if body_of(n) is not None or table['fn'].get(mn) is None: table['fn'][mn]=n
                if n.get('previousDecl'): table['prev'][n['id']]=n['previousDecl']
        if k=='CXXRecordDecl' and n.get('completeDefinition'):
            table['rec'][n.get('name')]=n
        for c in n.get('inner',[]): visit(c)
    for o in objs: visit(o)
