import time
from z3 import *
mn,mx,vs,p,delta=Reals('mn mx vs p delta')
def floor_(x): return ToInt(x)           # SMT to_int is floor
def ceil_(x): return -ToInt(-x)
def chk(name,hyp,goal,to=60000):
    s=Solver(); s.set('timeout',to); s.add(hyp); s.add(Not(goal)); t=time.time(); r=s.check()
    print(name,r,round(time.time()-t,2), s.model() if r==sat else '')
hyp=[mn<mx, vs>0, delta>0, p>=mn, p<=mx]
nb=ceil_((mx+delta-mn)/vs); mn_=mn-delta
idx=floor_((p-mn_)/vs)
chk('G1 current', hyp, And(idx>=0, idx<nb))
nb2=floor_((mx-mn_)/vs)+1
chk('G1 fixed', hyp, And(idx>=0, idx<nb2))
# neighbourhood: |q-p|<=vs -> |idx(q)-idx(p)|<=1
q=Real('q')
chk('G5', [vs>0, q>=mn_, p>=mn_, q-p<=vs, p-q<=vs], And(floor_((q-mn_)/vs)-floor_((p-mn_)/vs)<=1, floor_((q-mn_)/vs)-floor_((p-mn_)/vs)>=-1))
# flatten injectivity
x,y,z,x2,y2,z2,nx,ny,nz=Ints('x y z x2 y2 z2 nx ny nz')
rng=[x>=0,x<nx,y>=0,y<ny,z>=0,z<nz,x2>=0,x2<nx,y2>=0,y2<ny,z2>=0,z2<nz]
f=lambda x,y,z: z*nx*ny+y*nx+x
chk('G3 range', rng, And(f(x,y,z)>=0, f(x,y,z)<nx*ny*nz))
chk('G3 inj', rng+[f(x,y,z)==f(x2,y2,z2)], And(x==x2,y==y2,z==z2))
