typedef __CPROVER_rational real;
real nondet_real(void);
real sqdist(real ax, real ay, real bx, real by)
__CPROVER_requires(1)
__CPROVER_ensures(__CPROVER_return_value >= 0)
__CPROVER_ensures(__CPROVER_return_value == ax*ax-2*ax*bx+bx*bx + ay*ay-2*ay*by+by*by)
{
  real dx=ax-bx, dy=ay-by;
  return dx*dx+dy*dy;
}
real bad(real a)
__CPROVER_ensures(__CPROVER_return_value > 0)
{ return a*a; }
void h1(void){ sqdist(nondet_real(),nondet_real(),nondet_real(),nondet_real()); }
void h2(void){ bad(nondet_real()); }
