import time,sys,json
from z3 import *
from astload import *
from symex import *
T={'fn':{},'ids':{},'rec':{},'prev':{}}
objs=json.load(open('/tmp/probe/unity_repo.json'))
# index: id -> decl for functions (link out-of-line definitions to in-class declarations via previousDecl)
decl_by_id={}
def visit(n,parent=None):
    k=n.get('kind')
    if k in ('CXXMethodDecl','CXXConstructorDecl','FunctionDecl'):
        decl_by_id[n['id']]=n
    if k=='CXXRecordDecl' and n.get('completeDefinition'): T['rec'][n.get('name')]=n
    for c in n.get('inner',[]): visit(c,n)
for o in objs: visit(o)
defn={}   # canonical id -> decl with body
for i,d in decl_by_id.items():
    if body_of(d) is not None:
        defn[i]=d
        p=d.get('previousDecl')
        while p: defn[p]=d; p=decl_by_id.get(p,{}).get('previousDecl')
class E2(Engine):
    def resolve_ctor(self,c): return defn.get(c['id'])
    def resolve(self,ref):
        d=defn.get(ref['id'])
        if d is None: raise Exception('no body for '+str(ref.get('name'))+' '+ref['id'])
        return d
T['fn']=type('X',(dict,),{'get':lambda self,k,dflt=None:dflt})()
E=E2(T); E.oblig=[]
fn=[d for d in defn.values() if d.get('name')=='compute_node_triangle_distance'][0]
def V(n): return Rec('vec3',{'dx_':Real(n+'x'),'dy_':Real(n+'y'),'dz_':Real(n+'z')})
p,a,b,c=V('p'),V('a'),V('b'),V('c')
t=time.time()
paths=E.call(fn,None,[p,a,b,c],[])
print('paths',len(paths),'symex s',round(time.time()-t,2),'side obligations',len(E.oblig))
for i,(pc,ret) in enumerate(paths):
    d2=ret.f['first']; ba=ret.f['second']
    u,v,w=ba.f['dx_'],ba.f['dy_'],ba.f['dz_']
    q={k:u*a.f[k]+v*b.f[k]+w*c.f[k] for k in ('dx_','dy_','dz_')}
    dist=sum((p.f[k]-q[k])*(p.f[k]-q[k]) for k in q)
    for name,goal in [('sum1',u+v+w==1),('dist',d2==dist)]:
        s=Solver(); s.set('timeout',20000); s.add(pc); s.add(Not(goal)); t=time.time(); r=s.check()
        print('path',i,name,r,round(time.time()-t,2))
