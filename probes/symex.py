import sys
from z3 import *
from astload import *
class Ret(Exception):
    pass
class Rec:
    def __init__(self,tname,fields): self.t=tname; self.f=dict(fields)
    def copy(self): return Rec(self.t,{k:(v.copy() if isinstance(v,Rec) else v) for k,v in self.f.items()})
    def __repr__(self): return f'{self.t}{self.f}'
class Ref:
    def __init__(self,get,set_): self.get=get; self.set=set_
class Engine:
    def __init__(self,table): self.T=table; self.fresh=0
    def record_fields(self,name):
        r=self.T['rec'][name]; return [(c['name'],c['type']['qualType']) for c in r['inner'] if c.get('kind')=='FieldDecl']
    def default_value(self,qt):
        qt=qt.replace('const ','').strip()
        if qt=='double': return RealVal(0)
        if qt in self.T['rec']: return Rec(qt,{n:self.default_value(t) for n,t in self.record_fields(qt)})
        raise Exception('default '+qt)
    # paths: list of (cond, returnvalue); we do path-splitting execution
    def call(self,fn,this,args,pc):
        """returns list of (pc, retval)"""
        env={}
        for p,a in zip(params_of(fn),args): env[p['id']]=a
        if fn['kind']=='CXXConstructorDecl':
            # member initializers
            for c in fn.get('inner',[]):
                if c.get('kind')=='CXXCtorInitializer':
                    fld=c['anyInit']['name']; 
                    [(pc2,v)]=self.ev(c['inner'][0],env,this,pc); this.f[fld]=v
        results=[]
        b=body_of(fn)
        outs=self.exec_block(b['inner'] if 'inner' in b else [],env,this,pc)
        for (pc2,env2,ret) in outs:
            results.append((pc2, ret[1] if ret else None))
        return results
    def exec_block(self,stmts,env,this,pc):
        """returns list of (pc,env,ret) ; ret = ('ret',val) or None"""
        states=[(pc,env,None)]
        for s in stmts:
            new=[]
            for (pc1,env1,ret) in states:
                if ret is not None: new.append((pc1,env1,ret)); continue
                new.extend(self.exec_stmt(s,env1,this,pc1))
            states=new
        return states
    def exec_stmt(self,s,env,this,pc):
        k=s['kind']
        if k=='CompoundStmt': return self.exec_block(s.get('inner',[]),env,this,pc)
        if k=='DeclStmt':
            outs=[(pc,env,None)]
            for d in s['inner']:
                assert d['kind']=='VarDecl',d['kind']
                nxt=[]
                for (pc1,env1,_) in outs:
                    if 'inner' in d:
                        for (pc2,v) in self.ev(d['inner'][0],env1,this,pc1):
                            e2=dict(env1); e2[d['id']]=v.copy() if isinstance(v,Rec) else v; nxt.append((pc2,e2,None))
                    else:
                        e2=dict(env1); e2[d['id']]=self.default_value(d['type']['qualType']); nxt.append((pc2,e2,None))
                outs=nxt
            return outs
        if k=='ReturnStmt':
            if 'inner' not in s: return [(pc,env,('ret',None))]
            return [(pc2,env,('ret',v)) for (pc2,v) in self.ev(s['inner'][0],env,this,pc)]
        if k=='IfStmt':
            outs=[]
            for (pc1,c) in self.ev(s['inner'][0],env,this,pc):
                outs.extend(self.exec_stmt(s['inner'][1],env,this,pc1+[c]))
                if len(s['inner'])>2: outs.extend(self.exec_stmt(s['inner'][2],env,this,pc1+[Not(c)]))
                else: outs.append((pc1+[Not(c)],env,None))
            return outs
        # expression statement
        return [(pc2,env,None) for (pc2,_) in self.ev(s,env,this,pc)]
    def resolve_ctor(self,c): return c
    def resolve(self,ref):
        mn=self.T['ids'].get(ref['id'])
        if mn is None: raise Exception('unresolved '+ref.get('name','?'))
        fn=self.T['fn'][mn]
        if body_of(fn) is None: raise Exception('no body '+mn)
        return fn
    def ev1(self,n,env,this,pc):
        r=self.ev(n,env,this,pc); assert len(r)==1,(n['kind'],len(r)); return r[0][1]
    def ev(self,n,env,this,pc):
        k=n['kind']
        if k in ('ImplicitCastExpr','ParenExpr','MaterializeTemporaryExpr','ExprWithCleanups','CXXBindTemporaryExpr','CXXFunctionalCastExpr','ConstantExpr'):
            if k=='ImplicitCastExpr' and n.get('castKind')=='IntegralToFloating':
                return [(p,ToReal(v) if is_int(v) else v) for p,v in self.ev(n['inner'][0],env,this,pc)]
            return self.ev(n['inner'][0],env,this,pc)
        if k in ('CXXStaticCastExpr','CStyleCastExpr'):
            if n['type']['qualType']=='void': return [(pc,None)]
            return self.ev(n['inner'][0],env,this,pc)
        if k=='FloatingLiteral': 
            from fractions import Fraction
            fr=Fraction(float(n['value'])); return [(pc,RealVal(fr))]
        if k=='IntegerLiteral': return [(pc,IntVal(int(n['value'])))]
        if k=='DeclRefExpr': return [(pc,env[n['referencedDecl']['id']])]
        if k=='CXXThisExpr': return [(pc,this)]
        if k=='MemberExpr':
            base=self.ev1(n['inner'][0],env,this,pc)
            return [(pc,base.f[n['name']])]
        if k=='UnaryOperator':
            v=self.ev1(n['inner'][0],env,this,pc); op=n['opcode']
            if op=='-': return [(pc,-v)]
            if op=='!': return [(pc,Not(v))]
            raise Exception('unop '+op)
        if k=='BinaryOperator':
            op=n['opcode']
            a=self.ev1(n['inner'][0],env,this,pc); b=self.ev1(n['inner'][1],env,this,pc)
            if is_int(a) and is_real(b): a=ToReal(a)
            if is_int(b) and is_real(a): b=ToReal(b)
            m={'+':lambda:a+b,'-':lambda:a-b,'*':lambda:a*b,'/':lambda:a/b,'<':lambda:a<b,'<=':lambda:a<=b,'>':lambda:a>b,'>=':lambda:a>=b,'==':lambda:a==b,'!=':lambda:a!=b,'&&':lambda:And(a,b),'||':lambda:Or(a,b)}
            if op=='/': self.oblig.append((list(pc),b!=0,'div-by-zero'))
            return [(pc,m[op]())]
        if k in ('CXXConstructExpr','CXXTemporaryObjectExpr'):
            t=n['type']['qualType'].replace('const ','')
            args=[self.ev1(a,env,this,pc) for a in n.get('inner',[])]
            if t.startswith('std::pair<'):
                return [(pc,Rec('pair',{'first':args[0],'second':args[1]}))]
            ctor=n.get('ctorType',{}).get('qualType','')
            if len(args)==1 and isinstance(args[0],Rec) and args[0].t==t: return [(pc,args[0].copy())]
            # find ctor decl by arity in record
            rec=self.T['rec'][t]
            obj=Rec(t,{nm:self.default_value(ty) for nm,ty in self.record_fields(t)})
            for c in rec['inner']:
                if c.get('kind')=='CXXConstructorDecl' and len(params_of(c))==len(args) and not c.get('isImplicit'):
                    fn=self.resolve_ctor(c)
                    if fn is None or body_of(fn) is None: continue
                    self.call(fn,obj,args,pc); return [(pc,obj)]
            if len(args)==0: return [(pc,obj)]
            raise Exception('ctor '+t)
        if k=='CXXMemberCallExpr':
            me=n['inner'][0]; assert me['kind']=='MemberExpr'
            obj=self.ev1(me['inner'][0],env,this,pc)
            fn=self.resolve({'id':me['referencedMemberDecl']})
            args=[self.ev1(a,env,this,pc) for a in n['inner'][1:]]
            return self.call(fn,obj,args,pc)
        if k=='CXXOperatorCallExpr':
            callee=n['inner'][0]
            while callee['kind']!='DeclRefExpr': callee=callee['inner'][0]
            fn=self.resolve(callee['referencedDecl'])
            obj=self.ev1(n['inner'][1],env,this,pc)
            args=[self.ev1(a,env,this,pc) for a in n['inner'][2:]]
            return self.call(fn,obj,args,pc)
        raise Exception('expr kind '+k)
