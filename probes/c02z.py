import time
from z3 import *
def V(n): return [Real(n+'x'),Real(n+'y'),Real(n+'z')]
def sub(u,v): return [u[i]-v[i] for i in range(3)]
def add(u,v): return [u[i]+v[i] for i in range(3)]
def mul(u,s): return [u[i]*s for i in range(3)]
def dot(u,v): return sum(u[i]*v[i] for i in range(3))
def cross(x,y): return [x[1]*y[2]-x[2]*y[1], x[2]*y[0]-x[0]*y[2], x[0]*y[1]-x[1]*y[0]]
x1,x2,x3,nv=V('a'),V('b'),V('c'),V('n')
cr=cross(sub(x2,x1),sub(x3,x1)); nn,g=Reals('nn g')
hyp=[nn>0]+[nv[i]*nn==cr[i] for i in range(3)]
g1=mul(cross(nv,sub(x2,x3)),-0.5); g2=mul(cross(nv,sub(x3,x1)),-0.5); g3=mul(cross(nv,sub(x1,x2)),-0.5)
tor=add(add(cross(x1,mul(g1,g)),cross(x2,mul(g2,g))),cross(x3,mul(g3,g)))
for name,goal in [('tor*nn',And([tor[i]*nn==0 for i in range(3)])),('tor',And([tor[i]==0 for i in range(3)]))]:
    s=Solver(); s.set('timeout',60000); s.add(hyp); s.add(Not(goal)); t=time.time(); print(name,s.check(),round(time.time()-t,2))
